// Package lazyref is the spec-derived reference for lazyproto: what every accessor must answer
// for a given list of field occurrences (shared by C10, C13, C14, C15).
package lazyref

import (
	"errors"
	"fmt"
	"math"
	"reflect"
	"strings"

	"github.com/CrowdStrike/csproto"
	"github.com/CrowdStrike/csproto/lazyproto"

	"verif/mc/lib/refwire"
)

// ---------------------------------------------------------------- reference side

type Occ struct {
	WT      int
	U       uint64 // varint / fixed value
	Payload []byte // LEN payload
}

// RefFields parses b and groups occurrences per field number. ok=false if b is not well-formed or
// a field number changes wire type (outside the property's "well-formed" set).
func RefFields(b []byte) (map[int][]Occ, bool) {
	fs, err := refwire.Parse(b)
	if err != nil {
		return nil, false
	}
	out := map[int][]Occ{}
	for _, f := range fs {
		if f.WT == refwire.SGroup || f.WT == refwire.EGroup || f.WT > 5 {
			return nil, false
		}
		o := Occ{WT: f.WT, U: f.U}
		if f.WT == refwire.Len {
			o.Payload = b[f.DataFrom:f.End]
		}
		if prev := out[f.Num]; len(prev) > 0 && prev[0].WT != f.WT {
			return nil, false
		}
		out[f.Num] = append(out[f.Num], o)
	}
	return out, true
}

type ErrClass int

const (
	ENone ErrClass = iota
	ENotFound
	ENotDefined
	EMismatch
	EOverflow
	EAny // some error, kind unspecified (payload does not parse as the requested element type)
	ENestingOrNotDefined
)

func (e ErrClass) String() string {
	return [...]string{"nil", "ErrTagNotFound", "ErrTagNotDefined", "WireTypeMismatchError", "ErrValueOverflow", "some error", "ErrNestingNotDefined|ErrTagNotDefined"}[e]
}

func ClassOK(err error, want ErrClass) bool {
	switch want {
	case ENone:
		return err == nil
	case ENotFound:
		return errors.Is(err, lazyproto.ErrTagNotFound)
	case ENotDefined:
		return errors.Is(err, lazyproto.ErrTagNotDefined)
	case ENestingOrNotDefined:
		return errors.Is(err, lazyproto.ErrNestingNotDefined) || errors.Is(err, lazyproto.ErrTagNotDefined)
	case EMismatch:
		var m *lazyproto.WireTypeMismatchError
		return errors.As(err, &m)
	case EOverflow:
		return errors.Is(err, csproto.ErrValueOverflow)
	case EAny:
		return err != nil
	}
	return false
}

// ---------------------------------------------------------------- accessors

type Val struct {
	Nums []uint64
	Strs []string
	IsS  bool
}

type Accessor struct {
	Name    string
	A       int
	Slice   bool
	Conv    func(u uint64) (uint64, bool) // reference conversion of the raw wire value; false = overflow
	ViaRes  func(r *lazyproto.DecodeResult, tag int) (Val, error)
	ViaFD   func(fd *lazyproto.FieldData) (Val, error)
	StrKind bool
}

func one(u uint64, err error) (Val, error) { return Val{Nums: []uint64{u}}, err }
func b2u(b bool) uint64 {
	if b {
		return 1
	}
	return 0
}
func mapS[T any](xs []T, f func(T) uint64) []uint64 {
	out := make([]uint64, len(xs))
	for i, x := range xs {
		out[i] = f(x)
	}
	return out
}

func BuildAccessors() []Accessor {
	id := func(u uint64) (uint64, bool) { return u, true }
	var as []Accessor
	add := func(name string, A int, conv func(uint64) (uint64, bool),
		sr func(r *lazyproto.DecodeResult, tag int) (Val, error), sf func(fd *lazyproto.FieldData) (Val, error),
		lr func(r *lazyproto.DecodeResult, tag int) (Val, error), lf func(fd *lazyproto.FieldData) (Val, error)) {
		as = append(as, Accessor{Name: name + "Value", A: A, Conv: conv, ViaRes: sr, ViaFD: sf, StrKind: A == refwire.Len})
		as = append(as, Accessor{Name: name + "Values", A: A, Slice: true, Conv: conv, ViaRes: lr, ViaFD: lf, StrKind: A == refwire.Len})
	}
	type R = *lazyproto.DecodeResult
	type F = *lazyproto.FieldData
	add("Bool", 0, func(u uint64) (uint64, bool) { return b2u(u != 0), true },
		func(r R, t int) (Val, error) { v, e := r.BoolValue(t); return one(b2u(v), e) },
		func(f F) (Val, error) { v, e := f.BoolValue(); return one(b2u(v), e) },
		func(r R, t int) (Val, error) { v, e := r.BoolValues(t); return Val{Nums: mapS(v, b2u)}, e },
		func(f F) (Val, error) { v, e := f.BoolValues(); return Val{Nums: mapS(v, b2u)}, e })
	add("UInt32", 0, func(u uint64) (uint64, bool) { return u, u <= math.MaxUint32 },
		func(r R, t int) (Val, error) { v, e := r.UInt32Value(t); return one(uint64(v), e) },
		func(f F) (Val, error) { v, e := f.UInt32Value(); return one(uint64(v), e) },
		func(r R, t int) (Val, error) {
			v, e := r.UInt32Values(t)
			return Val{Nums: mapS(v, func(x uint32) uint64 { return uint64(x) })}, e
		},
		func(f F) (Val, error) {
			v, e := f.UInt32Values()
			return Val{Nums: mapS(v, func(x uint32) uint64 { return uint64(x) })}, e
		})
	i32 := func(x int32) uint64 { return uint64(int64(x)) }
	add("Int32", 0, func(u uint64) (uint64, bool) { return u, int64(u) <= math.MaxInt32 && int64(u) >= math.MinInt32 },
		func(r R, t int) (Val, error) { v, e := r.Int32Value(t); return one(i32(v), e) },
		func(f F) (Val, error) { v, e := f.Int32Value(); return one(i32(v), e) },
		func(r R, t int) (Val, error) { v, e := r.Int32Values(t); return Val{Nums: mapS(v, i32)}, e },
		func(f F) (Val, error) { v, e := f.Int32Values(); return Val{Nums: mapS(v, i32)}, e })
	add("SInt32", 0, func(u uint64) (uint64, bool) { return uint64(int64(refwire.UnZigZag32(u))), true },
		func(r R, t int) (Val, error) { v, e := r.SInt32Value(t); return one(i32(v), e) },
		func(f F) (Val, error) { v, e := f.SInt32Value(); return one(i32(v), e) },
		func(r R, t int) (Val, error) { v, e := r.SInt32Values(t); return Val{Nums: mapS(v, i32)}, e },
		func(f F) (Val, error) { v, e := f.SInt32Values(); return Val{Nums: mapS(v, i32)}, e })
	add("UInt64", 0, id,
		func(r R, t int) (Val, error) { v, e := r.UInt64Value(t); return one(v, e) },
		func(f F) (Val, error) { v, e := f.UInt64Value(); return one(v, e) },
		func(r R, t int) (Val, error) {
			v, e := r.UInt64Values(t)
			return Val{Nums: append([]uint64{}, v...)}, e
		},
		func(f F) (Val, error) { v, e := f.UInt64Values(); return Val{Nums: append([]uint64{}, v...)}, e })
	i64 := func(x int64) uint64 { return uint64(x) }
	add("Int64", 0, id,
		func(r R, t int) (Val, error) { v, e := r.Int64Value(t); return one(i64(v), e) },
		func(f F) (Val, error) { v, e := f.Int64Value(); return one(i64(v), e) },
		func(r R, t int) (Val, error) { v, e := r.Int64Values(t); return Val{Nums: mapS(v, i64)}, e },
		func(f F) (Val, error) { v, e := f.Int64Values(); return Val{Nums: mapS(v, i64)}, e })
	add("SInt64", 0, func(u uint64) (uint64, bool) { return uint64(refwire.UnZigZag64(u)), true },
		func(r R, t int) (Val, error) { v, e := r.SInt64Value(t); return one(i64(v), e) },
		func(f F) (Val, error) { v, e := f.SInt64Value(); return one(i64(v), e) },
		func(r R, t int) (Val, error) { v, e := r.SInt64Values(t); return Val{Nums: mapS(v, i64)}, e },
		func(f F) (Val, error) { v, e := f.SInt64Values(); return Val{Nums: mapS(v, i64)}, e })
	u32 := func(x uint32) uint64 { return uint64(x) }
	add("Fixed32", 5, id,
		func(r R, t int) (Val, error) { v, e := r.Fixed32Value(t); return one(u32(v), e) },
		func(f F) (Val, error) { v, e := f.Fixed32Value(); return one(u32(v), e) },
		func(r R, t int) (Val, error) { v, e := r.Fixed32Values(t); return Val{Nums: mapS(v, u32)}, e },
		func(f F) (Val, error) { v, e := f.Fixed32Values(); return Val{Nums: mapS(v, u32)}, e })
	f32 := func(x float32) uint64 { return uint64(math.Float32bits(x)) }
	add("Float32", 5, id,
		func(r R, t int) (Val, error) { v, e := r.Float32Value(t); return one(f32(v), e) },
		func(f F) (Val, error) { v, e := f.Float32Value(); return one(f32(v), e) },
		func(r R, t int) (Val, error) { v, e := r.Float32Values(t); return Val{Nums: mapS(v, f32)}, e },
		func(f F) (Val, error) { v, e := f.Float32Values(); return Val{Nums: mapS(v, f32)}, e })
	add("Fixed64", 1, id,
		func(r R, t int) (Val, error) { v, e := r.Fixed64Value(t); return one(v, e) },
		func(f F) (Val, error) { v, e := f.Fixed64Value(); return one(v, e) },
		func(r R, t int) (Val, error) {
			v, e := r.Fixed64Values(t)
			return Val{Nums: append([]uint64{}, v...)}, e
		},
		func(f F) (Val, error) { v, e := f.Fixed64Values(); return Val{Nums: append([]uint64{}, v...)}, e })
	f64 := func(x float64) uint64 { return math.Float64bits(x) }
	add("Float64", 1, id,
		func(r R, t int) (Val, error) { v, e := r.Float64Value(t); return one(f64(v), e) },
		func(f F) (Val, error) { v, e := f.Float64Value(); return one(f64(v), e) },
		func(r R, t int) (Val, error) { v, e := r.Float64Values(t); return Val{Nums: mapS(v, f64)}, e },
		func(f F) (Val, error) { v, e := f.Float64Values(); return Val{Nums: mapS(v, f64)}, e })
	ss := func(v []string) Val { return Val{Strs: append([]string{}, v...), IsS: true} }
	bs := func(v [][]byte) Val {
		out := make([]string, len(v))
		for i := range v {
			out[i] = string(v[i])
		}
		return Val{Strs: out, IsS: true}
	}
	add("String", 2, nil,
		func(r R, t int) (Val, error) { v, e := r.StringValue(t); return Val{Strs: []string{v}, IsS: true}, e },
		func(f F) (Val, error) { v, e := f.StringValue(); return Val{Strs: []string{v}, IsS: true}, e },
		func(r R, t int) (Val, error) { v, e := r.StringValues(t); return ss(v), e },
		func(f F) (Val, error) { v, e := f.StringValues(); return ss(v), e })
	add("Bytes", 2, nil,
		func(r R, t int) (Val, error) {
			v, e := r.BytesValue(t)
			return Val{Strs: []string{string(v)}, IsS: true}, e
		},
		func(f F) (Val, error) { v, e := f.BytesValue(); return Val{Strs: []string{string(v)}, IsS: true}, e },
		func(r R, t int) (Val, error) { v, e := r.BytesValues(t); return bs(v), e },
		func(f F) (Val, error) { v, e := f.BytesValues(); return bs(v), e })
	return as
}

// Expected computes the reference answer of Accessor a for the occurrences of a present field.
func Expected(a *Accessor, occs []Occ) (Val, ErrClass) {
	W := occs[0].WT
	if !a.Slice {
		if W != a.A {
			return Val{}, EMismatch
		}
		last := occs[len(occs)-1]
		if a.StrKind {
			return Val{Strs: []string{string(last.Payload)}, IsS: true}, ENone
		}
		v, ok := a.Conv(last.U)
		if !ok {
			return Val{}, EOverflow
		}
		return Val{Nums: []uint64{v}}, ENone
	}
	if a.StrKind {
		if W != refwire.Len {
			return Val{}, EMismatch
		}
		out := Val{IsS: true, Strs: []string{}}
		for _, o := range occs {
			out.Strs = append(out.Strs, string(o.Payload))
		}
		return out, ENone
	}
	out := Val{Nums: []uint64{}}
	switch {
	case W == a.A:
		for _, o := range occs {
			v, ok := a.Conv(o.U)
			if !ok {
				return Val{}, EOverflow
			}
			out.Nums = append(out.Nums, v)
		}
		return out, ENone
	case W == refwire.Len:
		for _, o := range occs {
			p := o.Payload
			for len(p) > 0 {
				var raw uint64
				var n int
				var err error
				switch a.A {
				case refwire.Varint:
					raw, n, err = refwire.ConsumeVarint(p)
				case refwire.Fixed32:
					var x uint32
					x, n, err = refwire.ConsumeFixed32(p)
					raw = uint64(x)
				case refwire.Fixed64:
					raw, n, err = refwire.ConsumeFixed64(p)
				}
				if err != nil {
					return Val{}, EAny
				}
				v, ok := a.Conv(raw)
				if !ok {
					return Val{}, EOverflow
				}
				out.Nums = append(out.Nums, v)
				p = p[n:]
			}
		}
		return out, ENone
	}
	return Val{}, EMismatch
}

func SameVal(a, b Val) bool {
	if a.IsS != b.IsS || len(a.Nums) != len(b.Nums) || len(a.Strs) != len(b.Strs) {
		return false
	}
	for i := range a.Nums {
		if a.Nums[i] != b.Nums[i] {
			return false
		}
	}
	for i := range a.Strs {
		if a.Strs[i] != b.Strs[i] {
			return false
		}
	}
	return true
}

// AbsTags splits a definition into its flat tag set (absolute values) and nested sub-definitions.
func AbsTags(def lazyproto.Def) (flat map[int]bool, nested map[int]lazyproto.Def) {
	flat, nested = map[int]bool{}, map[int]lazyproto.Def{}
	for k, v := range def {
		a := k
		if a < 0 {
			a = -a
		}
		flat[a] = true
		if v != nil {
			nested[a] = v
		}
	}
	return
}

// CheckFlat compares every accessor (through the result and through FieldData) and Range on r with
// the reference answer for (def, fields) at one nesting level. It returns the first discrepancy as
// (sig, message) or ("", ""). Panics are not recovered here. calls counts accessor calls.
func CheckFlat(r *lazyproto.DecodeResult, def lazyproto.Def, fields map[int][]Occ, accs []Accessor, tags []int, calls *int64) (sig, msg string) {
	flat, _ := AbsTags(def)
	for _, tag := range tags {
		occs := fields[tag]
		var presence ErrClass
		switch {
		case !flat[tag]:
			presence = ENotDefined
		case len(occs) == 0:
			presence = ENotFound
		}
		fd, ferr := r.GetFieldData(tag)
		*calls++
		if !ClassOK(ferr, presence) {
			return "GetFieldData/wrong-error", fmtMsg("tag %d: got %v, expected %s", tag, ferr, presence)
		}
		for ai := range accs {
			a := &accs[ai]
			var want Val
			wantErr := presence
			if wantErr == ENone {
				want, wantErr = Expected(a, occs)
			}
			for via := 0; via < 2; via++ {
				if via == 1 && (fd == nil || ferr != nil) {
					continue
				}
				var got Val
				var err error
				if via == 0 {
					got, err = a.ViaRes(r, tag)
				} else {
					got, err = a.ViaFD(fd)
				}
				*calls++
				if !ClassOK(err, wantErr) {
					return a.Name + "/wrong-error/expected-" + wantErr.String(), fmtMsg("tag %d via %d: got error %v value %v, expected %s %v", tag, via, err, got, wantErr, want)
				}
				if wantErr == ENone && !SameVal(got, want) {
					return a.Name + "/wrong-value", fmtMsg("tag %d via %d: got %v, reference %v", tag, via, got, want)
				}
			}
		}
	}
	bad := ""
	r.Range(func(tag int, f *lazyproto.FieldData) bool {
		if (f != nil) != (len(fields[tag]) > 0) {
			bad = fmtMsg("Range: tag %d field non-nil=%v, reference occurrences=%d", tag, f != nil, len(fields[tag]))
			return false
		}
		return true
	})
	if bad != "" {
		return "Range/wrong-presence", bad
	}
	return "", ""
}

func fmtMsg(format string, a ...any) string { return fmt.Sprintf(format, a...) }

// Retained is a value handed out by an accessor together with a deep snapshot taken at hand-out time.
type Retained struct {
	What  string
	bytes [][]byte
	bsnap []string
	strs  []string
	ssnap []string
	u64   []uint64
	usnap []uint64
	i32   []int32
	isnap []int32
	bl    []bool
	blsn  []bool
	// every other slice-returning accessor (found by reflection: methods named ...Values of *DecodeResult):
	// the ORIGINAL returned slice and a rendering of its contents at the time
	others []retainedSlice
}

type retainedSlice struct {
	name string
	orig reflect.Value
	snap string
}

// Retain calls the slice-returning accessors on r for tag and keeps the ORIGINAL returned objects.
func Retain(r *lazyproto.DecodeResult, tag int, what string) *Retained {
	return retain(r, tag, what, false)
}

// RetainAll additionally keeps the result of EVERY slice-returning accessor. Only meaningful in safe mode: in fast mode
// accessors of one Go type share a scratch slice on purpose (Int64Values / SInt64Values, UInt64Values / Fixed64Values,
// ...), so calling them one after the other overwrites what the previous one returned.
func RetainAll(r *lazyproto.DecodeResult, tag int, what string) *Retained {
	return retain(r, tag, what, true)
}

func retain(r *lazyproto.DecodeResult, tag int, what string, all bool) *Retained {
	x := &Retained{What: what}
	if b, err := r.BytesValue(tag); err == nil {
		x.bytes = append(x.bytes, b)
	}
	if bs, err := r.BytesValues(tag); err == nil {
		x.bytes = append(x.bytes, bs...)
		if all && len(bs) > 0 { // safe mode: the OUTER slice handed out is the caller's too: its elements must not be replaced later
			x.others = append(x.others, retainedSlice{"BytesValues(outer slice)", reflect.ValueOf(bs), fmt.Sprintf("%#v", bs)})
		}
	}
	if s, err := r.StringValue(tag); err == nil {
		x.strs = append(x.strs, s)
	}
	if ss, err := r.StringValues(tag); err == nil {
		x.strs = append(x.strs, ss...)
		if all && len(ss) > 0 {
			x.others = append(x.others, retainedSlice{"StringValues(outer slice)", reflect.ValueOf(ss), fmt.Sprintf("%#v", ss)})
		}
	}
	if v, err := r.UInt64Values(tag); err == nil {
		x.u64 = v
	}
	if v, err := r.Int32Values(tag); err == nil {
		x.i32 = v
	}
	if v, err := r.BoolValues(tag); err == nil {
		x.bl = v
	}
	for _, b := range x.bytes {
		x.bsnap = append(x.bsnap, string(b))
	}
	for _, s := range x.strs {
		x.ssnap = append(x.ssnap, strings.Clone(s))
	}
	rv := reflect.ValueOf(r)
	for i := 0; all && i < rv.NumMethod(); i++ {
		name := rv.Type().Method(i).Name
		mt := rv.Method(i).Type()
		if !strings.HasSuffix(name, "Values") || mt.NumIn() != 1 || mt.In(0).Kind() != reflect.Int || mt.NumOut() != 2 || mt.Out(0).Kind() != reflect.Slice {
			continue
		}
		switch name {
		case "BytesValues", "StringValues", "UInt64Values", "Int32Values", "BoolValues":
			continue // kept above with typed snapshots
		}
		out := rv.Method(i).Call([]reflect.Value{reflect.ValueOf(tag)})
		if !out[1].IsNil() || out[0].Len() == 0 {
			continue
		}
		x.others = append(x.others, retainedSlice{name, out[0], fmt.Sprintf("%#v", out[0].Interface())})
	}
	x.usnap = append([]uint64{}, x.u64...)
	x.isnap = append([]int32{}, x.i32...)
	x.blsn = append([]bool{}, x.bl...)
	return x
}

// Verify reports whether every retained value still equals its snapshot.
func (x *Retained) Verify() string {
	for i, b := range x.bytes {
		if string(b) != x.bsnap[i] {
			return fmtMsg("%s: []byte value #%d changed from %q to %q", x.What, i, x.bsnap[i], b)
		}
	}
	for i, s := range x.strs {
		if s != x.ssnap[i] {
			return fmtMsg("%s: string value #%d changed from %q to %q", x.What, i, x.ssnap[i], s)
		}
	}
	for i := range x.u64 {
		if x.u64[i] != x.usnap[i] {
			return fmtMsg("%s: []uint64 element %d changed from %d to %d", x.What, i, x.usnap[i], x.u64[i])
		}
	}
	for i := range x.i32 {
		if x.i32[i] != x.isnap[i] {
			return fmtMsg("%s: []int32 element %d changed from %d to %d", x.What, i, x.isnap[i], x.i32[i])
		}
	}
	for _, o := range x.others {
		if now := fmt.Sprintf("%#v", o.orig.Interface()); now != o.snap {
			return fmtMsg("%s: slice returned by %s changed from %s to %s", x.What, o.name, o.snap, now)
		}
	}
	for i := range x.bl {
		if x.bl[i] != x.blsn[i] {
			return fmtMsg("%s: []bool element %d changed", x.What, i)
		}
	}
	return ""
}

// Empty reports whether nothing was retained.
func (x *Retained) Empty() bool {
	return len(x.bytes)+len(x.strs)+len(x.u64)+len(x.i32)+len(x.bl) == 0
}
