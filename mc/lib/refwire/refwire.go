// Package refwire is a small wire-format reference written from the protobuf encoding spec.
// It deliberately shares no code with csproto or protowire.
package refwire

import (
	"errors"
	"math"
)

const (
	Varint  = 0
	Fixed64 = 1
	Len     = 2
	SGroup  = 3
	EGroup  = 4
	Fixed32 = 5
)

var (
	ErrTrunc    = errors.New("refwire: truncated")
	ErrOverflow = errors.New("refwire: varint overflows 64 bits")
	ErrWireType = errors.New("refwire: unsupported wire type")
	ErrKey      = errors.New("refwire: bad key")
)

// AppendVarint appends the minimal base-128 encoding of v.
func AppendVarint(b []byte, v uint64) []byte {
	for {
		c := byte(v % 128)
		v /= 128
		if v != 0 {
			b = append(b, c+128)
		} else {
			return append(b, c)
		}
	}
}

func SizeVarint(v uint64) int {
	n := 1
	for v >= 128 {
		v /= 128
		n++
	}
	return n
}

// Key composes field number and wire type.
func Key(num int, wt int) uint64 { return uint64(num)*8 + uint64(wt) }

func AppendKey(b []byte, num int, wt int) []byte { return AppendVarint(b, Key(num, wt)) }

func ZigZag64(v int64) uint64 {
	if v >= 0 {
		return uint64(v) * 2
	}
	return uint64(-(v+1))*2 + 1
}

func UnZigZag64(u uint64) int64 {
	if u%2 == 0 {
		return int64(u / 2)
	}
	return -int64(u/2) - 1
}

func ZigZag32(v int32) uint64 { return ZigZag64(int64(v)) }

// UnZigZag32 follows the usual reader behaviour: the varint is truncated to 32 bits first.
func UnZigZag32(u uint64) int32 {
	w := uint32(u)
	if w%2 == 0 {
		return int32(w / 2)
	}
	return -int32(w/2) - 1
}

func AppendFixed32(b []byte, v uint32) []byte {
	return append(b, byte(v), byte(v>>8), byte(v>>16), byte(v>>24))
}

func AppendFixed64(b []byte, v uint64) []byte {
	for i := 0; i < 8; i++ {
		b = append(b, byte(v>>(8*uint(i))))
	}
	return b
}

func AppendBytes(b []byte, p []byte) []byte {
	b = AppendVarint(b, uint64(len(p)))
	return append(b, p...)
}

// ConsumeVarint reads a varint of at most 10 bytes. Lenient about bits above 64 in the 10th byte
// (structural notion); Strict reports whether the encoding is one a conforming writer can emit
// (10th byte <= 1) - it may still be non-minimal.
func ConsumeVarint(b []byte) (v uint64, n int, err error) {
	for i := 0; i < 10; i++ {
		if i >= len(b) {
			return 0, 0, ErrTrunc
		}
		c := b[i]
		v |= uint64(c&0x7f) << (7 * uint(i))
		if c < 0x80 {
			return v, i + 1, nil
		}
	}
	return 0, 0, ErrOverflow
}

func ConsumeFixed32(b []byte) (uint32, int, error) {
	if len(b) < 4 {
		return 0, 0, ErrTrunc
	}
	return uint32(b[0]) | uint32(b[1])<<8 | uint32(b[2])<<16 | uint32(b[3])<<24, 4, nil
}

func ConsumeFixed64(b []byte) (uint64, int, error) {
	if len(b) < 8 {
		return 0, 0, ErrTrunc
	}
	var v uint64
	for i := 0; i < 8; i++ {
		v |= uint64(b[i]) << (8 * uint(i))
	}
	return v, 8, nil
}

// Field is one parsed top-level field.
type Field struct {
	Num      int
	WT       int
	Start    int // offset of the key
	ValStart int // offset of the payload (for LEN: of the length prefix)
	DataFrom int // for LEN: first data byte; otherwise == ValStart
	End      int
	U        uint64 // varint / fixed value
}

// PayloadLen returns the encoded length of a payload of wire type wt at b (structural).
func PayloadLen(b []byte, wt int) (int, error) {
	switch wt {
	case Varint:
		_, n, err := ConsumeVarint(b)
		return n, err
	case Fixed64:
		if len(b) < 8 {
			return 0, ErrTrunc
		}
		return 8, nil
	case Fixed32:
		if len(b) < 4 {
			return 0, ErrTrunc
		}
		return 4, nil
	case Len:
		l, n, err := ConsumeVarint(b)
		if err != nil {
			return 0, err
		}
		if l > uint64(len(b)-n) {
			return 0, ErrTrunc
		}
		return n + int(l), nil
	}
	return 0, ErrWireType
}

// ConsumeField parses one field at off.
func ConsumeField(b []byte, off int) (Field, error) {
	f := Field{Start: off}
	k, n, err := ConsumeVarint(b[off:])
	if err != nil {
		return f, err
	}
	if k/8 == 0 || k/8 > (1<<29)-1 {
		return f, ErrKey
	}
	f.Num, f.WT = int(k/8), int(k%8)
	f.ValStart = off + n
	f.DataFrom = f.ValStart
	pl, err := PayloadLen(b[f.ValStart:], f.WT)
	if err != nil {
		return f, err
	}
	f.End = f.ValStart + pl
	switch f.WT {
	case Varint:
		f.U, _, _ = ConsumeVarint(b[f.ValStart:])
	case Fixed32:
		v, _, _ := ConsumeFixed32(b[f.ValStart:])
		f.U = uint64(v)
	case Fixed64:
		f.U, _, _ = ConsumeFixed64(b[f.ValStart:])
	case Len:
		_, ln, _ := ConsumeVarint(b[f.ValStart:])
		f.DataFrom = f.ValStart + ln
	}
	return f, nil
}

// Parse splits b into top-level fields; error if b is not a well-formed sequence.
func Parse(b []byte) ([]Field, error) {
	var out []Field
	off := 0
	for off < len(b) {
		f, err := ConsumeField(b, off)
		if err != nil {
			return out, err
		}
		out = append(out, f)
		off = f.End
	}
	return out, nil
}

func F32bits(f float32) uint32 { return math.Float32bits(f) }
func F64bits(f float64) uint64 { return math.Float64bits(f) }
