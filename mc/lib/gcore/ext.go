package gcore

import (
	"fmt"
	"reflect"
	"sort"

	gogoproto "github.com/gogo/protobuf/proto"
	"google.golang.org/protobuf/reflect/protodesc"
	"google.golang.org/protobuf/reflect/protoreflect"
	"google.golang.org/protobuf/reflect/protoregistry"
	"google.golang.org/protobuf/types/dynamicpb"

	"verif/mc/corpus"
)

// Ref is the reference-side view of a corpus file: descriptors built from the corpus definition
// alone (protodesc), dynamic extension types and a resolver for the reference decoder.
type Ref struct {
	File  protoreflect.FileDescriptor
	Types *protoregistry.Types
	exts  map[protoreflect.FullName][]protoreflect.ExtensionType // by extendee
}

var refCache = map[string]*Ref{}

// RefOf returns the reference view of runtime/file.
func RefOf(rt corpus.Runtime, file string) *Ref {
	k := string(rt) + "/" + file
	if r, ok := refCache[k]; ok {
		return r
	}
	spec, ok := corpus.Spec(file)
	if !ok {
		panic("no corpus file " + file)
	}
	files := &protoregistry.Files{}
	var reg func(name string)
	reg = func(name string) { // transitive: a type may be reachable through the public import of an imported file
		ds, _ := corpus.Spec(name)
		for _, d := range ds.AllDeps() {
			reg(d)
		}
		_ = files.RegisterFile(RefOf(rt, name).File)
	}
	for _, d := range spec.AllDeps() {
		reg(d)
	}
	for _, e := range spec.Ext { // well-known types: the descriptors protobuf-go ships
		if f, err := protoregistry.GlobalFiles.FindFileByPath(e); err == nil {
			_ = files.RegisterFile(f)
			for i := 0; i < f.Imports().Len(); i++ {
				_ = files.RegisterFile(f.Imports().Get(i).FileDescriptor)
			}
		}
	}
	fd, err := protodesc.NewFile(corpus.Build(spec, rt), files)
	if err != nil {
		panic(fmt.Sprintf("corpus file %s does not validate: %v", k, err))
	}
	r := &Ref{File: fd, Types: &protoregistry.Types{}, exts: map[protoreflect.FullName][]protoreflect.ExtensionType{}}
	add := func(xd protoreflect.ExtensionDescriptor) {
		xt := dynamicpb.NewExtensionType(xd)
		_ = r.Types.RegisterExtension(xt)
		r.exts[xd.ContainingMessage().FullName()] = append(r.exts[xd.ContainingMessage().FullName()], xt)
	}
	for i := 0; i < fd.Extensions().Len(); i++ {
		add(fd.Extensions().Get(i))
	}
	var walk func(ms protoreflect.MessageDescriptors)
	walk = func(ms protoreflect.MessageDescriptors) {
		for i := 0; i < ms.Len(); i++ {
			m := ms.Get(i)
			for j := 0; j < m.Extensions().Len(); j++ {
				add(m.Extensions().Get(j))
			}
			walk(m.Messages())
		}
	}
	walk(fd.Messages())
	refCache[k] = r
	return r
}

// RefDesc returns the reference descriptor of the type (built from the corpus definition).
func (t *Type) RefDesc() protoreflect.MessageDescriptor {
	r := RefOf(t.RT, t.File)
	d := r.File.Messages().ByName(protoreflect.Name(firstName(t.Name)))
	rest := t.Name[len(firstName(t.Name)):]
	for rest != "" {
		rest = rest[1:]
		n := firstName(rest)
		d = d.Messages().ByName(protoreflect.Name(n))
		rest = rest[len(n):]
	}
	if d == nil {
		panic("no reference descriptor for " + t.String())
	}
	return d
}

func firstName(s string) string {
	for i := 0; i < len(s); i++ {
		if s[i] == '.' {
			return s[:i]
		}
	}
	return s
}

// Exts returns the reference extension types extending this message, by ascending number.
func (t *Type) Exts() []protoreflect.ExtensionType {
	xs := append([]protoreflect.ExtensionType{}, RefOf(t.RT, t.File).exts[t.RefDesc().FullName()]...)
	sort.Slice(xs, func(i, j int) bool { return xs[i].TypeDescriptor().Number() < xs[j].TypeDescriptor().Number() })
	return xs
}

// Resolver returns the extension resolver for reference decoding of this type.
func (t *Type) Resolver() *protoregistry.Types { return RefOf(t.RT, t.File).Types }

// SetExts copies the extension fields of the tree src into the generated struct x through the owning
// runtime's own API (never through generated fast-marshal code).
func SetExts(t *Type, x any, src protoreflect.Message) (err error) {
	defer func() {
		if p := recover(); p != nil {
			err = fmt.Errorf("panic while setting extension: %v", p)
		}
	}()
	src.Range(func(fd protoreflect.FieldDescriptor, v protoreflect.Value) bool {
		if !fd.IsExtension() {
			return true
		}
		switch t.RT {
		case corpus.Gogo:
			descs := gogoproto.RegisteredExtensions(x.(gogoproto.Message))
			d := descs[int32(fd.Number())]
			if d == nil {
				err = fmt.Errorf("gogo extension %d not registered", fd.Number())
				return false
			}
			gv := toGo(reflect.TypeOf(d.ExtensionType), fd, v)
			if e := gogoproto.SetExtension(x.(gogoproto.Message), d, gv.Interface()); e != nil {
				err = e
				return false
			}
		default:
			m := Reflect(x)
			xt, e := protoregistry.GlobalTypes.FindExtensionByNumber(m.Descriptor().FullName(), fd.Number())
			if e != nil {
				err = fmt.Errorf("extension %d of %s not registered: %v", fd.Number(), m.Descriptor().FullName(), e)
				return false
			}
			xd := xt.TypeDescriptor()
			switch {
			case fd.IsList():
				l := xt.New().List()
				for i := 0; i < v.List().Len(); i++ {
					if fd.Message() != nil {
						e := l.NewElement()
						Copy(e.Message(), v.List().Get(i).Message())
						l.Append(e)
					} else {
						l.Append(cloneScalar(v.List().Get(i)))
					}
				}
				m.Set(xd, protoreflect.ValueOfList(l))
			case fd.Message() != nil:
				nv := xt.New()
				Copy(nv.Message(), v.Message())
				m.Set(xd, nv)
			default:
				m.Set(xd, cloneScalar(v))
			}
		}
		return true
	})
	return err
}

// toGo converts a protoreflect value into a Go value of type T (the v1-API representation:
// *scalar, []byte, *Msg, []scalar, []*Msg).
func toGo(T reflect.Type, fd protoreflect.FieldDescriptor, v protoreflect.Value) reflect.Value {
	scalar := func(T reflect.Type, v protoreflect.Value) reflect.Value {
		out := reflect.New(T).Elem()
		switch T.Kind() {
		case reflect.Bool:
			out.SetBool(v.Bool())
		case reflect.Int32, reflect.Int64:
			if fd.Kind() == protoreflect.EnumKind {
				out.SetInt(int64(v.Enum()))
			} else {
				out.SetInt(v.Int())
			}
		case reflect.Uint32, reflect.Uint64:
			out.SetUint(v.Uint())
		case reflect.Float32, reflect.Float64:
			out.SetFloat(v.Float())
		case reflect.String:
			out.SetString(v.String())
		case reflect.Slice: // []byte
			out.SetBytes(append([]byte{}, v.Bytes()...))
		case reflect.Ptr: // *Msg
			nm := reflect.New(T.Elem())
			Copy(Reflect(nm.Interface()), v.Message())
			out.Set(nm)
		default:
			panic("toGo: unsupported " + T.String())
		}
		return out
	}
	if fd.IsList() {
		out := reflect.MakeSlice(T, 0, v.List().Len())
		for i := 0; i < v.List().Len(); i++ {
			out = reflect.Append(out, scalar(T.Elem(), v.List().Get(i)))
		}
		return out
	}
	if T.Kind() == reflect.Ptr && T.Elem().Kind() != reflect.Struct {
		p := reflect.New(T.Elem())
		p.Elem().Set(scalar(T.Elem(), v))
		return p
	}
	return scalar(T, v)
}

// fromGo is the inverse of toGo.
func fromGo(g reflect.Value, fd protoreflect.FieldDescriptor, newList func() protoreflect.List, newMsg func() protoreflect.Message) protoreflect.Value {
	scalar := func(g reflect.Value) protoreflect.Value {
		switch g.Kind() {
		case reflect.Bool:
			return protoreflect.ValueOfBool(g.Bool())
		case reflect.Int32:
			if fd.Kind() == protoreflect.EnumKind {
				return protoreflect.ValueOfEnum(protoreflect.EnumNumber(g.Int()))
			}
			return protoreflect.ValueOfInt32(int32(g.Int()))
		case reflect.Int64:
			return protoreflect.ValueOfInt64(g.Int())
		case reflect.Uint32:
			return protoreflect.ValueOfUint32(uint32(g.Uint()))
		case reflect.Uint64:
			return protoreflect.ValueOfUint64(g.Uint())
		case reflect.Float32:
			return protoreflect.ValueOfFloat32(float32(g.Float()))
		case reflect.Float64:
			return protoreflect.ValueOfFloat64(g.Float())
		case reflect.String:
			return protoreflect.ValueOfString(g.String())
		case reflect.Slice:
			return protoreflect.ValueOfBytes(append([]byte{}, g.Bytes()...))
		case reflect.Ptr:
			m := newMsg()
			if !g.IsNil() {
				Copy(m, Reflect(g.Interface()))
			}
			return protoreflect.ValueOfMessage(m)
		}
		panic("fromGo: unsupported " + g.Type().String())
	}
	if fd.IsList() {
		l := newList()
		for i := 0; i < g.Len(); i++ {
			l.Append(scalar(g.Index(i)))
		}
		return protoreflect.ValueOfList(l)
	}
	if g.Kind() == reflect.Ptr && g.Type().Elem().Kind() != reflect.Struct {
		return scalar(g.Elem())
	}
	return scalar(g)
}

// TreeOf reads a generated struct back into a reference tree (dynamicpb over the reference
// descriptor), including extension fields, through reflection / the owning runtime's API only.
func TreeOf(t *Type, x any) (d *dynamicpb.Message, err error) {
	defer func() {
		if p := recover(); p != nil {
			err = fmt.Errorf("panic while reading the struct back: %v", p)
		}
	}()
	d = dynamicpb.NewMessage(t.RefDesc())
	m := Reflect(x)
	Copy(d, m) // regular fields + unknown bytes
	byNum := map[protoreflect.FieldNumber]protoreflect.ExtensionType{}
	for _, xt := range t.Exts() {
		byNum[xt.TypeDescriptor().Number()] = xt
	}
	setFrom := func(num protoreflect.FieldNumber, get func(xt protoreflect.ExtensionType) protoreflect.Value) {
		xt := byNum[num]
		if xt == nil {
			err = fmt.Errorf("struct holds extension %d unknown to the reference", num)
			return
		}
		d.Set(xt.TypeDescriptor(), get(xt))
	}
	if t.RT == corpus.Gogo {
		gm := x.(gogoproto.Message)
		descs, e := gogoproto.ExtensionDescs(gm)
		if e != nil {
			if len(byNum) == 0 {
				return d, nil
			}
			return d, e
		}
		for _, desc := range descs {
			if desc.ExtensionType == nil {
				continue // unrecognised extension: bytes stay in the extension map; reported by the caller through marshal comparison
			}
			gv, e := gogoproto.GetExtension(gm, desc)
			if e != nil {
				return d, e
			}
			setFrom(protoreflect.FieldNumber(desc.Field), func(xt protoreflect.ExtensionType) protoreflect.Value {
				xd := xt.TypeDescriptor()
				return fromGo(reflect.ValueOf(gv), xd, func() protoreflect.List { return xt.New().List() }, func() protoreflect.Message { return dynamicpb.NewMessage(xd.Message()) })
			})
		}
		return d, err
	}
	m.Range(func(fd protoreflect.FieldDescriptor, v protoreflect.Value) bool {
		if !fd.IsExtension() {
			return true
		}
		setFrom(fd.Number(), func(xt protoreflect.ExtensionType) protoreflect.Value {
			xd := xt.TypeDescriptor()
			switch {
			case fd.IsList():
				l := xt.New().List()
				for i := 0; i < v.List().Len(); i++ {
					if fd.Message() != nil {
						e := l.NewElement()
						Copy(e.Message(), v.List().Get(i).Message())
						l.Append(e)
					} else {
						l.Append(cloneScalar(v.List().Get(i)))
					}
				}
				return protoreflect.ValueOfList(l)
			case fd.Message() != nil:
				nm := dynamicpb.NewMessage(xd.Message())
				Copy(nm, v.Message())
				return protoreflect.ValueOfMessage(nm)
			}
			return cloneScalar(v)
		})
		return err == nil
	})
	return d, err
}

// ExtCases enumerates extension value trees of an extendable type: each extension alone at each
// value of its domain, then all extensions together.
func ExtCases(t *Type, thorough bool) []Case {
	var out []Case
	xts := t.Exts()
	if len(xts) == 0 {
		return nil
	}
	md := t.RefDesc()
	all := dynamicpb.NewMessage(md)
	for _, xt := range xts {
		xd := xt.TypeDescriptor()
		ss := fieldSetters(xd, 1, thorough)
		for _, s := range ss {
			if xd.IsList() && len(s.name) > 5 && s.name[:4] == "list" && s.name != "list2" && s.name != "list3" && s.name[:6] != "list1:" && s.name != "list16-cycle" {
				continue // one long list suffices for extensions
			}
			m := dynamicpb.NewMessage(md)
			s.apply(m)
			out = append(out, Case{fmt.Sprintf("ext:%s=%s", xd.Name(), s.name), m})
		}
		ss[min(1, len(ss)-1)].apply(all)
	}
	out = append(out, Case{"ext:all-set", all})
	// extension next to a regular field
	if f := md.Fields().ByNumber(1); f != nil && !f.IsList() && f.Message() == nil {
		m := dynamicpb.NewMessage(md)
		Copy(m, all)
		m.Set(f, scalarDomain(f, false)[1].v)
		out = append(out, Case{"ext:all-set+base", m})
	}
	return out
}
