// Package gcore is the shared plumbing of the generated-code checks (C04-C10, C16, C17): access to
// the corpus message types of every runtime through protoreflect, runtime-neutral value trees
// (dynamicpb messages over the type's own descriptor), bit-exact tree comparison and value domains.
// No comparison ever goes through csproto or generated code; no oracle goes through Clone/Merge.
package gcore

import (
	"bytes"
	"fmt"
	"math"
	"reflect"
	"sort"
	"strings"

	gogoproto "github.com/gogo/protobuf/proto"
	"google.golang.org/protobuf/proto"
	"google.golang.org/protobuf/reflect/protoreflect"
	"google.golang.org/protobuf/reflect/protoregistry"
	"google.golang.org/protobuf/runtime/protoimpl"
	"google.golang.org/protobuf/types/descriptorpb"
	"google.golang.org/protobuf/types/dynamicpb"

	"verif/mc/corpus"
	"verif/mc/gen/all"
)

// Type is one generated message type of the corpus.
type Type struct {
	RT   corpus.Runtime
	File string
	Name string // local message name, e.g. "Scalars" or "A.Tags"
	Full protoreflect.FullName
	Desc protoreflect.MessageDescriptor
	newF func() any
}

func (t *Type) String() string { return fmt.Sprintf("%s/%s/%s", t.RT, t.File, t.Name) }

// New returns a fresh Go struct pointer of the generated type.
func (t *Type) New() any { return t.newF() }

// Reflect returns the protoreflect view of a generated struct (native for google types, legacy
// wrapper for gogo and legacy-v1 structs: neither path calls generated Marshal/Unmarshal/Size).
func Reflect(x any) protoreflect.Message {
	if m, ok := x.(proto.Message); ok {
		return m.ProtoReflect()
	}
	return protoimpl.X.ProtoMessageV2Of(x).ProtoReflect()
}

// Linked reports whether runtime/file was linked into this binary.
func Linked(rt corpus.Runtime, file string) bool {
	for _, l := range all.Linked {
		if l == string(rt)+"/"+file {
			return true
		}
	}
	return false
}

// Types returns every message type of the linked corpus packages (map-entry types excluded).
func Types() []*Type {
	var out []*Type
	for _, rt := range corpus.Runtimes {
		for _, spec := range corpus.Files() {
			if !spec.For(rt) || !Linked(rt, spec.Name) {
				continue
			}
			if rt == corpus.Gogo && len(spec.AllDeps()) > 0 {
				// protobuf-go's legacy wrapper cannot resolve a gogo file's imports (gogo files are not in the
				// global registry), so gogo messages with imported types cannot be populated/read by reflection:
				// they are generated and compiled (C16) but not part of the behavioural corpus
				continue
			}
			fd := corpus.Build(spec, rt)
			var names []string
			for _, m := range fd.MessageType {
				names = append(names, localNames("", m)...)
			}
			for _, n := range names {
				full := protoreflect.FullName(corpus.ProtoPackage(spec, rt) + "." + n)
				t := &Type{RT: rt, File: spec.Name, Name: n, Full: full}
				switch rt {
				case corpus.Gogo:
					gt := gogoproto.MessageType(string(full))
					if gt == nil {
						panic("gogo type not registered: " + string(full))
					}
					t.newF = func() any { return reflect.New(gt.Elem()).Interface() }
				case corpus.Legacy:
					mt, err := protoregistry.GlobalTypes.FindMessageByName(full)
					if err != nil {
						panic("legacy type not registered: " + string(full))
					}
					t.newF = func() any { return protoimpl.X.ProtoMessageV1Of(mt.New().Interface()) }
				default:
					mt, err := protoregistry.GlobalTypes.FindMessageByName(full)
					if err != nil {
						panic("type not registered: " + string(full))
					}
					t.newF = func() any { return mt.New().Interface() }
				}
				t.Desc = Reflect(t.New()).Descriptor()
				out = append(out, t)
			}
		}
	}
	return out
}

func localNames(prefix string, m *descriptorpb.DescriptorProto) []string {
	if m.GetOptions().GetMapEntry() {
		return nil
	}
	n := prefix + m.GetName()
	out := []string{n}
	for _, c := range m.NestedType {
		out = append(out, localNames(n+".", c)...)
	}
	return out
}

// ---------------------------------------------------------------------------------------------
// copying between messages of equal shape (by field number), without Merge/Clone

// Copy sets dst (assumed empty) to the contents of src. Both must describe the same schema shape.
func Copy(dst, src protoreflect.Message) {
	dd := dst.Descriptor()
	src.Range(func(fd protoreflect.FieldDescriptor, v protoreflect.Value) bool {
		var dfd protoreflect.FieldDescriptor
		if fd.IsExtension() {
			return true // extensions are handled by the extension-specific checks
		}
		dfd = dd.Fields().ByNumber(fd.Number())
		if dfd == nil {
			panic(fmt.Sprintf("Copy: %s has no field %d", dd.FullName(), fd.Number()))
		}
		switch {
		case fd.IsList():
			dl := dst.Mutable(dfd).List()
			sl := v.List()
			for i := 0; i < sl.Len(); i++ {
				if fd.Message() != nil {
					e := dl.NewElement()
					Copy(e.Message(), sl.Get(i).Message())
					dl.Append(e)
				} else {
					dl.Append(cloneScalar(sl.Get(i)))
				}
			}
		case fd.IsMap():
			dm := dst.Mutable(dfd).Map()
			v.Map().Range(func(k protoreflect.MapKey, mv protoreflect.Value) bool {
				if fd.MapValue().Message() != nil {
					e := dm.NewValue()
					Copy(e.Message(), mv.Message())
					dm.Set(cloneKey(k), e)
				} else {
					dm.Set(cloneKey(k), cloneScalar(mv))
				}
				return true
			})
		case fd.Message() != nil:
			Copy(dst.Mutable(dfd).Message(), v.Message())
		default:
			dst.Set(dfd, cloneScalar(v))
		}
		return true
	})
	if u := src.GetUnknown(); len(u) > 0 {
		dst.SetUnknown(append(protoreflect.RawFields{}, u...))
	}
}

func cloneScalar(v protoreflect.Value) protoreflect.Value {
	switch x := v.Interface().(type) {
	case []byte:
		return protoreflect.ValueOfBytes(append([]byte{}, x...))
	case string:
		// a string header copied by value still points at the same bytes: a decoder that built the string over the caller's
		// buffer would change the "copy" together with the original
		return protoreflect.ValueOfString(strings.Clone(x))
	}
	return v
}

func cloneKey(k protoreflect.MapKey) protoreflect.MapKey {
	if s, ok := k.Interface().(string); ok {
		return protoreflect.ValueOfString(strings.Clone(s)).MapKey()
	}
	return k
}

// ToDyn converts any message into a dynamicpb message over desc.
func ToDyn(desc protoreflect.MessageDescriptor, src protoreflect.Message) *dynamicpb.Message {
	d := dynamicpb.NewMessage(desc)
	Copy(d, src)
	return d
}

// ---------------------------------------------------------------------------------------------
// bit-exact tree comparison

// Diff returns "" if a and b hold the same tree: same presence for every field, floats compared by
// bits (NaN == NaN, +0 != -0), nil and empty bytes equal, map entries unordered, unknown bytes equal.
func Diff(a, b protoreflect.Message) string { return diff("", a, b) }

func diff(path string, a, b protoreflect.Message) string {
	fds := a.Descriptor().Fields()
	for i := 0; i < fds.Len(); i++ {
		fa := fds.Get(i)
		fb := b.Descriptor().Fields().ByNumber(fa.Number())
		if fb == nil {
			return fmt.Sprintf("%s: field %d missing on one side", path, fa.Number())
		}
		p := path + "." + string(fa.Name())
		ha, hb := a.Has(fa), b.Has(fb)
		if ha != hb {
			return fmt.Sprintf("%s: presence differs (%v vs %v)", p, ha, hb)
		}
		if !ha {
			continue
		}
		va, vb := a.Get(fa), b.Get(fb)
		switch {
		case fa.IsList():
			la, lb := va.List(), vb.List()
			if la.Len() != lb.Len() {
				return fmt.Sprintf("%s: list length %d vs %d", p, la.Len(), lb.Len())
			}
			for j := 0; j < la.Len(); j++ {
				if d := diffValue(fmt.Sprintf("%s[%d]", p, j), fa, la.Get(j), lb.Get(j)); d != "" {
					return d
				}
			}
		case fa.IsMap():
			ma, mb := va.Map(), vb.Map()
			if ma.Len() != mb.Len() {
				return fmt.Sprintf("%s: map size %d vs %d", p, ma.Len(), mb.Len())
			}
			d := ""
			ma.Range(func(k protoreflect.MapKey, x protoreflect.Value) bool {
				if !mb.Has(k) {
					d = fmt.Sprintf("%s: key %v only on one side", p, k.Interface())
					return false
				}
				d = diffValue(fmt.Sprintf("%s[%v]", p, k.Interface()), fa.MapValue(), x, mb.Get(k))
				return d == ""
			})
			if d != "" {
				return d
			}
		default:
			if d := diffValue(p, fa, va, vb); d != "" {
				return d
			}
		}
	}
	// extension fields (matched by number)
	type xv struct {
		fd protoreflect.FieldDescriptor
		v  protoreflect.Value
	}
	collect := func(m protoreflect.Message) map[protoreflect.FieldNumber]xv {
		out := map[protoreflect.FieldNumber]xv{}
		m.Range(func(fd protoreflect.FieldDescriptor, v protoreflect.Value) bool {
			if fd.IsExtension() {
				out[fd.Number()] = xv{fd, v}
			}
			return true
		})
		return out
	}
	ea, eb := collect(a), collect(b)
	for n, x := range ea {
		y, ok := eb[n]
		p := fmt.Sprintf("%s.[ext %d %s]", path, n, x.fd.Name())
		if !ok {
			return p + ": extension present only on the first side"
		}
		if x.fd.IsList() {
			la, lb := x.v.List(), y.v.List()
			if la.Len() != lb.Len() {
				return fmt.Sprintf("%s: list length %d vs %d", p, la.Len(), lb.Len())
			}
			for j := 0; j < la.Len(); j++ {
				if d := diffValue(fmt.Sprintf("%s[%d]", p, j), x.fd, la.Get(j), lb.Get(j)); d != "" {
					return d
				}
			}
		} else if d := diffValue(p, x.fd, x.v, y.v); d != "" {
			return d
		}
	}
	for n, y := range eb {
		if _, ok := ea[n]; !ok {
			return fmt.Sprintf("%s.[ext %d %s]: extension present only on the second side", path, n, y.fd.Name())
		}
	}
	if !bytes.Equal(a.GetUnknown(), b.GetUnknown()) {
		return fmt.Sprintf("%s: unknown fields differ (%x vs %x)", path, []byte(a.GetUnknown()), []byte(b.GetUnknown()))
	}
	return ""
}

func diffValue(p string, fd protoreflect.FieldDescriptor, a, b protoreflect.Value) string {
	switch fd.Kind() {
	case protoreflect.MessageKind, protoreflect.GroupKind:
		return diff(p, a.Message(), b.Message())
	case protoreflect.FloatKind:
		if math.Float32bits(float32(a.Float())) != math.Float32bits(float32(b.Float())) {
			return fmt.Sprintf("%s: float %v vs %v", p, a.Float(), b.Float())
		}
	case protoreflect.DoubleKind:
		if math.Float64bits(a.Float()) != math.Float64bits(b.Float()) {
			return fmt.Sprintf("%s: double %v vs %v", p, a.Float(), b.Float())
		}
	case protoreflect.BytesKind:
		if !bytes.Equal(a.Bytes(), b.Bytes()) {
			return fmt.Sprintf("%s: bytes %x vs %x", p, a.Bytes(), b.Bytes())
		}
	case protoreflect.EnumKind:
		if a.Enum() != b.Enum() {
			return fmt.Sprintf("%s: enum %d vs %d", p, a.Enum(), b.Enum())
		}
	default:
		if a.Interface() != b.Interface() {
			return fmt.Sprintf("%s: %v vs %v", p, short(a.Interface()), short(b.Interface()))
		}
	}
	return ""
}

func short(x any) string {
	s := fmt.Sprint(x)
	if len(s) > 40 {
		return fmt.Sprintf("%s...(%d bytes)", s[:40], len(s))
	}
	return s
}

// Describe renders a message compactly for reports (deterministic).
func Describe(m protoreflect.Message) string {
	var parts []string
	m.Range(func(fd protoreflect.FieldDescriptor, v protoreflect.Value) bool {
		parts = append(parts, fmt.Sprintf("%s=%s", fd.Name(), describeValue(fd, v)))
		return true
	})
	sort.Strings(parts)
	if u := m.GetUnknown(); len(u) > 0 {
		parts = append(parts, fmt.Sprintf("unknown=%x", []byte(u)))
	}
	return "{" + strings.Join(parts, " ") + "}"
}

func describeValue(fd protoreflect.FieldDescriptor, v protoreflect.Value) string {
	switch {
	case fd.IsList():
		l := v.List()
		var xs []string
		for i := 0; i < l.Len() && i < 4; i++ {
			xs = append(xs, describeScalar(fd, l.Get(i)))
		}
		return fmt.Sprintf("[%s]#%d", strings.Join(xs, ","), l.Len())
	case fd.IsMap():
		var xs []string
		v.Map().Range(func(k protoreflect.MapKey, x protoreflect.Value) bool {
			xs = append(xs, fmt.Sprintf("%v:%s", k.Interface(), describeScalar(fd.MapValue(), x)))
			return true
		})
		sort.Strings(xs)
		return "map[" + strings.Join(xs, ",") + "]"
	}
	return describeScalar(fd, v)
}

func describeScalar(fd protoreflect.FieldDescriptor, v protoreflect.Value) string {
	switch fd.Kind() {
	case protoreflect.MessageKind, protoreflect.GroupKind:
		return Describe(v.Message())
	case protoreflect.BytesKind:
		b := v.Bytes()
		if len(b) > 8 {
			return fmt.Sprintf("bytes(%d)", len(b))
		}
		return fmt.Sprintf("0x%x", b)
	case protoreflect.StringKind:
		s := v.String()
		if len(s) > 8 {
			return fmt.Sprintf("string(%d)", len(s))
		}
		return fmt.Sprintf("%q", s)
	case protoreflect.FloatKind:
		return fmt.Sprintf("f32:%#x", math.Float32bits(float32(v.Float())))
	case protoreflect.DoubleKind:
		return fmt.Sprintf("f64:%#x", math.Float64bits(v.Float()))
	}
	return fmt.Sprint(v.Interface())
}
