package gcore

import (
	"fmt"
	"math"
	"strings"

	"google.golang.org/protobuf/encoding/protowire"
	"google.golang.org/protobuf/proto"
	"google.golang.org/protobuf/reflect/protoreflect"
	"google.golang.org/protobuf/types/dynamicpb"
)

// Case is one enumerated message value (a dynamicpb tree) with a stable id.
type Case struct {
	ID  string
	Msg *dynamicpb.Message
}

type nv struct {
	name string
	v    protoreflect.Value
}

func strOf(n int) string { return strings.Repeat("abcdefghijklmnopqrstuvwxyz0123456789", n/36+1)[:n] }

// scalarDomain: boundary values of one kind, simplest first. index 0 is always the zero value.
// BigLists adds lists of 4097 (thorough: 2049, 8193) scalar elements to the value domains. Off by default: only the
// marshal / unmarshal checks of the generated code (C04-C07, C10) ask for them.
var BigLists bool

func scalarDomain(fd protoreflect.FieldDescriptor, thorough bool) []nv {
	out := scalarDomain0(fd, thorough)
	if fd.HasDefault() && !fd.IsList() { // proto2 [default = x]: the field explicitly SET to its default value
		out = append(out, nv{"dflt", cloneScalar(fd.Default())})
	}
	return out
}

func scalarDomain0(fd protoreflect.FieldDescriptor, thorough bool) []nv {
	V := protoreflect.ValueOf
	switch fd.Kind() {
	case protoreflect.BoolKind:
		return []nv{{"false", V(false)}, {"true", V(true)}}
	case protoreflect.Int32Kind, protoreflect.Sint32Kind, protoreflect.Sfixed32Kind:
		return []nv{{"0", V(int32(0))}, {"1", V(int32(1))}, {"-1", V(int32(-1))}, {"127", V(int32(127))}, {"128", V(int32(128))}, {"63", V(int32(63))}, {"64", V(int32(64))}, {"-64", V(int32(-64))}, {"-65", V(int32(-65))}, {"-8192", V(int32(-8192))}, {"max", V(int32(math.MaxInt32))}, {"min", V(int32(math.MinInt32))}}
	case protoreflect.Int64Kind, protoreflect.Sint64Kind, protoreflect.Sfixed64Kind:
		return []nv{{"0", V(int64(0))}, {"1", V(int64(1))}, {"-1", V(int64(-1))}, {"128", V(int64(128))}, {"64", V(int64(64))}, {"-64", V(int64(-64))}, {"-65", V(int64(-65))}, {"-2^34", V(int64(-1 << 34))}, {"2^31", V(int64(1 << 31))}, {"-2^31-1", V(int64(-1<<31 - 1))}, {"max", V(int64(math.MaxInt64))}, {"min", V(int64(math.MinInt64))}}
	case protoreflect.Uint32Kind, protoreflect.Fixed32Kind:
		return []nv{{"0", V(uint32(0))}, {"1", V(uint32(1))}, {"127", V(uint32(127))}, {"128", V(uint32(128))}, {"2^31", V(uint32(1 << 31))}, {"max", V(uint32(math.MaxUint32))}}
	case protoreflect.Uint64Kind, protoreflect.Fixed64Kind:
		return []nv{{"0", V(uint64(0))}, {"1", V(uint64(1))}, {"128", V(uint64(128))}, {"2^32", V(uint64(1 << 32))}, {"2^63", V(uint64(1 << 63))}, {"max", V(uint64(math.MaxUint64))}}
	case protoreflect.FloatKind:
		return []nv{{"+0", V(float32(0))}, {"1", V(float32(1))}, {"-0", V(float32(math.Copysign(0, -1)))}, {"-1", V(float32(-1))}, {"+inf", V(float32(math.Inf(1)))}, {"-inf", V(float32(math.Inf(-1)))}, {"nan", V(float32(math.NaN()))}, {"subnormal", V(float32(math.SmallestNonzeroFloat32))}, {"max", V(float32(math.MaxFloat32))}}
	case protoreflect.DoubleKind:
		return []nv{{"+0", V(float64(0))}, {"1", V(float64(1))}, {"-0", V(math.Copysign(0, -1))}, {"-1", V(float64(-1))}, {"+inf", V(math.Inf(1))}, {"-inf", V(math.Inf(-1))}, {"nan", V(math.NaN())}, {"subnormal", V(math.SmallestNonzeroFloat64)}, {"max", V(math.MaxFloat64)}}
	case protoreflect.StringKind:
		out := []nv{{"empty", V("")}, {"a", V("a")}, {"len127", V(strOf(127))}, {"len128", V(strOf(128))}}
		if thorough {
			out = append(out, nv{"len16384", V(strOf(16384))})
		}
		return out
	case protoreflect.BytesKind:
		out := []nv{{"empty", V([]byte{})}, {"a", V([]byte("a"))}, {"len127", V([]byte(strOf(127)))}, {"len128", V([]byte(strOf(128)))}, {"zeros", V([]byte{0, 0, 0})}}
		if thorough {
			out = append(out, nv{"len16384", V([]byte(strOf(16384)))})
		}
		return out
	case protoreflect.EnumKind:
		return []nv{{"0", V(protoreflect.EnumNumber(0))}, {"1", V(protoreflect.EnumNumber(1))}, {"big", V(protoreflect.EnumNumber(math.MaxInt32))}, {"neg", V(protoreflect.EnumNumber(-1))}, {"undefined7", V(protoreflect.EnumNumber(7))}}
	}
	panic("scalarDomain: " + fd.Kind().String())
}

// msgDomain: sub-message values, simplest first. depth limits recursion.
func msgDomain(md protoreflect.MessageDescriptor, depth int, thorough bool) []nv {
	mk := func() *dynamicpb.Message { return dynamicpb.NewMessage(md) }
	out := []nv{{"empty", protoreflect.ValueOfMessage(mk())}}
	var firstScalar, firstMsg, firstRepMsg protoreflect.FieldDescriptor
	fds := md.Fields()
	for i := 0; i < fds.Len(); i++ {
		f := fds.Get(i)
		switch {
		case f.IsMap():
		case f.IsList():
			if f.Message() != nil && firstRepMsg == nil {
				firstRepMsg = f
			}
		case f.Message() != nil:
			if firstMsg == nil && f.ContainingOneof() == nil {
				firstMsg = f
			}
		default:
			if firstScalar == nil && f.ContainingOneof() == nil {
				firstScalar = f
			}
		}
	}
	if firstScalar == nil { // oneof-only messages (google.protobuf.Value): take the first scalar member
		for i := 0; i < fds.Len(); i++ {
			if f := fds.Get(i); !f.IsList() && !f.IsMap() && f.Message() == nil {
				firstScalar = f
				break
			}
		}
	}
	one := func() *dynamicpb.Message {
		m := mk()
		// set every required scalar, plus the first scalar
		for i := 0; i < fds.Len(); i++ {
			f := fds.Get(i)
			if f.Cardinality() == protoreflect.Required && f.Message() == nil {
				m.Set(f, scalarDomain(f, false)[1].v)
			}
		}
		if firstScalar != nil {
			m.Set(firstScalar, scalarDomain(firstScalar, false)[1].v)
		}
		return m
	}
	out = append(out, nv{"one", protoreflect.ValueOfMessage(one())})
	// scalar field explicitly set to its zero value (matters for explicit-presence fields)
	if firstScalar != nil && firstScalar.HasPresence() {
		m := mk()
		m.Set(firstScalar, scalarDomain(firstScalar, false)[0].v)
		out = append(out, nv{"zero-set", protoreflect.ValueOfMessage(m)})
	}
	if depth > 0 && firstMsg != nil {
		m := one()
		sub := msgDomain(firstMsg.Message(), depth-1, thorough)
		m.Set(firstMsg, sub[1].v)
		out = append(out, nv{"deep", protoreflect.ValueOfMessage(m)})
		m2 := mk()
		m2.Set(firstMsg, sub[0].v) // holds an EMPTY nested message
		out = append(out, nv{"holds-empty", protoreflect.ValueOfMessage(m2)})
	}
	// deep nesting: a chain of 120 messages through a self-referential field, and a google.protobuf.Struct nested 150 objects
	// deep (300 message levels: Struct -> Value -> Struct ...). Far below the reference runtime's limit of 10 000, far above
	// what hand-written examples reach; decoders that recurse through a runtime call per level meet that runtime's limits
	if depth > 0 && firstMsg != nil && firstMsg.Message().FullName() == md.FullName() {
		inner := one()
		for i := 0; i < 120; i++ {
			outer := one()
			outer.Set(firstMsg, protoreflect.ValueOfMessage(inner))
			inner = outer
		}
		out = append(out, nv{"chain-of-120", protoreflect.ValueOfMessage(inner)})
	}
	if depth > 0 && md.FullName() == "google.protobuf.Struct" {
		ff := fds.ByName("fields")
		vd := ff.MapValue().Message()
		inner := mk()
		for i := 0; i < 150; i++ {
			v := dynamicpb.NewMessage(vd)
			v.Set(vd.Fields().ByName("struct_value"), protoreflect.ValueOfMessage(inner))
			outer := mk()
			outer.Mutable(ff).Map().Set(protoreflect.ValueOfString("k").MapKey(), protoreflect.ValueOfMessage(v))
			inner = outer
		}
		out = append(out, nv{"struct-150-objects-deep", protoreflect.ValueOfMessage(inner)})
	}
	if depth > 0 && firstRepMsg != nil {
		m := one()
		l := m.Mutable(firstRepMsg).List()
		sub := msgDomain(firstRepMsg.Message(), depth-1, thorough)
		l.Append(sub[0].v)
		l.Append(sub[1].v)
		out = append(out, nv{"kids", protoreflect.ValueOfMessage(m)})
	}
	return out
}

func elemDomain(fd protoreflect.FieldDescriptor, depth int, thorough bool) []nv {
	if fd.Message() != nil {
		return msgDomain(fd.Message(), depth, thorough)
	}
	return scalarDomain(fd, thorough)
}

// setter applies one field value to a message.
type setter struct {
	name  string
	apply func(m protoreflect.Message)
	zero  bool // leaves the field at (or sets it to) its zero/empty value
}

func cloneValue(fd protoreflect.FieldDescriptor, v protoreflect.Value) protoreflect.Value {
	if fd.Message() != nil {
		d := dynamicpb.NewMessage(fd.Message())
		Copy(d, v.Message())
		return protoreflect.ValueOfMessage(d)
	}
	return cloneScalar(v)
}

// fieldSetters enumerates the value domain of one field (any cardinality).
func fieldSetters(fd protoreflect.FieldDescriptor, depth int, thorough bool) []setter {
	var out []setter
	switch {
	case fd.IsMap():
		kd, vd := fd.MapKey(), fd.MapValue()
		keys := scalarDomain(kd, false)
		vals := elemDomain(vd, depth, thorough)
		put := func(name string, zero bool, kv ...nv) {
			out = append(out, setter{name, func(m protoreflect.Message) {
				mp := m.Mutable(fd).Map()
				for i := 0; i+1 < len(kv); i += 2 {
					mp.Set(kv[i].v.MapKey(), cloneValue(vd, kv[i+1].v))
				}
			}, zero})
		}
		put("map-zero-entry", false, keys[0], vals[0])
		for i := 1; i < len(vals); i++ {
			put("map-k1-v:"+vals[i].name, false, keys[1], vals[i])
		}
		for i := 1; i < len(keys); i++ {
			put("map-k:"+keys[i].name+"-v1", false, keys[i], vals[min(1, len(vals)-1)])
		}
		if len(keys) > 2 {
			put("map-two-entries", false, keys[1], vals[min(1, len(vals)-1)], keys[2], vals[0])
		}
		// string keys: an entry whose encoded length is exactly 127 and 128 bytes (1-byte / 2-byte entry header)
		if kd.Kind() == protoreflect.StringKind {
			v1 := vals[min(1, len(vals)-1)]
			for _, target := range []int{127, 128} {
				for L := 90; L <= 127; L++ {
					probe := dynamicpb.NewMessage(fd.ContainingMessage())
					probe.Mutable(fd).Map().Set(protoreflect.ValueOfString(strOf(L)).MapKey(), cloneValue(vd, v1.v))
					b, err := proto.MarshalOptions{AllowPartial: true}.Marshal(probe)
					if err != nil {
						break
					}
					// field = key || varint(entryLen) || entry
					hdr := protowire.SizeTag(fd.Number())
					_, n := protowire.ConsumeVarint(b[hdr:])
					if len(b)-hdr-n == target {
						put(fmt.Sprintf("map-entry-size-%d", target), false, nv{fmt.Sprintf("len%d", L), protoreflect.ValueOfString(strOf(L))}, v1)
						break
					}
				}
			}
		}
	case fd.IsList():
		dom := elemDomain(fd, depth, thorough)
		app := func(name string, vs ...nv) {
			vs = append([]nv{}, vs...)
			out = append(out, setter{name, func(m protoreflect.Message) {
				l := m.Mutable(fd).List()
				for _, x := range vs {
					l.Append(cloneValue(fd, x.v))
				}
			}, false})
		}
		for _, x := range dom {
			app("list1:"+x.name, x)
		}
		app("list2", dom[min(1, len(dom)-1)], dom[0])
		app("list3", dom[0], dom[len(dom)-1], dom[0])
		lens := []int{15, 16, 17, 31, 32, 33, 127, 128}
		if thorough {
			lens = append(lens, 129, 2048)
		}
		if fd.Message() == nil && BigLists {
			// beyond every small chunk size a generator might introduce (scratch arrays, batching): 2^12 + 1 elements
			lens = append(lens, 4097)
			if thorough && fd.Kind() != protoreflect.StringKind && fd.Kind() != protoreflect.BytesKind {
				// (strings / bytes stay at 4097 elements, numeric kinds at 8193: with 65537 elements sixteen workers holding several
				// copies of such messages were killed for memory - a death of the harness, not a verdict)
				lens = append(lens, 2049, 8193)
			}
		}
		// packed payloads of exactly 127 / 128 (thorough: 16383 / 16384) BYTES made of the widest encoding of the kind plus
		// one-byte fillers: the length prefix grows by one byte at these payload sizes whatever the element count is
		// (13 ten-byte negatives are already 130 bytes)
		if fd.IsPacked() {
			size := func(x nv) int {
				probe := dynamicpb.NewMessage(fd.ContainingMessage())
				probe.Mutable(fd).List().Append(cloneValue(fd, x.v))
				b, err := proto.MarshalOptions{AllowPartial: true}.Marshal(probe)
				if err != nil {
					return 0
				}
				return len(b) - protowire.SizeTag(fd.Number()) - 1
			}
			wide, narrow := dom[0], dom[0]
			for _, x := range dom {
				if size(x) > size(wide) {
					wide = x
				}
				if size(x) < size(narrow) {
					narrow = x
				}
			}
			if sw, sn := size(wide), size(narrow); sn == 1 && sw > 1 {
				targets := []int{127, 128}
				if thorough {
					targets = append(targets, 16383, 16384)
				}
				for _, T := range targets {
					var vs []nv
					for k := 0; k < T/sw; k++ {
						vs = append(vs, wide)
					}
					for k := 0; k < T%sw; k++ {
						vs = append(vs, narrow)
					}
					app(fmt.Sprintf("packed-payload-%d-bytes", T), vs...)
				}
			}
		}
		for _, n := range lens {
			vs := make([]nv, n)
			for i := range vs {
				vs[i] = dom[i%len(dom)]
			}
			app(fmt.Sprintf("list%d-cycle", n), vs...)
			if fd.Message() == nil {
				for i := range vs {
					vs[i] = dom[min(1, len(dom)-1)]
				}
				app(fmt.Sprintf("list%d-const", n), append([]nv{}, vs...)...)
			}
		}
	default:
		dom := elemDomain(fd, depth, thorough)
		for i, x := range dom {
			x := x
			out = append(out, setter{x.name, func(m protoreflect.Message) { m.Set(fd, cloneValue(fd, x.v)) }, i == 0 && fd.Message() == nil})
		}
	}
	return out
}

// Singles: the empty message, then every field alone at every value of its domain.
func Singles(md protoreflect.MessageDescriptor, thorough bool) []Case {
	out := []Case{{"empty", dynamicpb.NewMessage(md)}}
	fds := md.Fields()
	depth := 2
	if thorough {
		depth = 3
	}
	for i := 0; i < fds.Len(); i++ {
		fd := fds.Get(i)
		for _, s := range fieldSetters(fd, depth, thorough) {
			m := dynamicpb.NewMessage(md)
			s.apply(m)
			out = append(out, Case{fmt.Sprintf("%s=%s", fd.Name(), s.name), m})
		}
	}
	return out
}

// reduced returns up to 3 setters of a field (zero-ish, simple, extreme) for combination cases.
func reduced(fd protoreflect.FieldDescriptor) []setter {
	all := fieldSetters(fd, 1, false)
	if len(all) <= 3 {
		return all
	}
	return []setter{all[0], all[1], all[len(all)-1]}
}

// Pairs: every pair of fields over their reduced domains (oneof members of the same oneof excluded).
func Pairs(md protoreflect.MessageDescriptor) []Case {
	var out []Case
	fds := md.Fields()
	for i := 0; i < fds.Len(); i++ {
		for j := i + 1; j < fds.Len(); j++ {
			fi, fj := fds.Get(i), fds.Get(j)
			if fi.ContainingOneof() != nil && fi.ContainingOneof() == fj.ContainingOneof() {
				continue
			}
			for _, a := range reduced(fi) {
				for _, b := range reduced(fj) {
					m := dynamicpb.NewMessage(md)
					a.apply(m)
					b.apply(m)
					out = append(out, Case{fmt.Sprintf("%s=%s,%s=%s", fi.Name(), a.name, fj.Name(), b.name), m})
				}
			}
		}
	}
	return out
}

// Specials: all fields at their first / second / last domain value at once.
func Specials(md protoreflect.MessageDescriptor) []Case {
	var out []Case
	fds := md.Fields()
	for _, which := range []string{"all-first", "all-second", "all-last"} {
		m := dynamicpb.NewMessage(md)
		seenOneof := map[protoreflect.FullName]bool{}
		for i := 0; i < fds.Len(); i++ {
			fd := fds.Get(i)
			if oo := fd.ContainingOneof(); oo != nil && !oo.IsSynthetic() {
				if seenOneof[oo.FullName()] {
					continue
				}
				seenOneof[oo.FullName()] = true
			}
			ss := fieldSetters(fd, 1, false)
			var s setter
			switch which {
			case "all-first":
				s = ss[0]
			case "all-second":
				s = ss[min(1, len(ss)-1)]
			default:
				s = ss[len(ss)-1]
				if fd.IsList() { // keep "all-last" small: use the 3-element list
					for _, c := range ss {
						if c.name == "list3" {
							s = c
						}
					}
				}
			}
			s.apply(m)
		}
		out = append(out, Case{which, m})
		if which == "all-second" {
			// every list field set at once with lengths that fall / rise along the declaration order (k, k-1 ... 1 and
			// 1, 2 ... k for k list fields): scratch storage shared between the fields of one message shows when a later list is shorter
			// (or longer) than an earlier one
			var lists []protoreflect.FieldDescriptor
			for i := 0; i < fds.Len(); i++ {
				if fd := fds.Get(i); fd.IsList() && fd.Message() == nil {
					lists = append(lists, fd)
				}
			}
			if len(lists) >= 2 {
				for _, dir := range []string{"lists-of-falling-length", "lists-of-rising-length"} {
					lm := dynamicpb.NewMessage(md)
					for i, fd := range lists {
						n := len(lists) - i
						if dir == "lists-of-rising-length" {
							n = 1 + i
						}
						if n > 20 {
							n = 20
						}
						dom := elemDomain(fd, 1, false)
						l := lm.Mutable(fd).List()
						for k := 0; k < n; k++ {
							l.Append(cloneValue(fd, dom[(k+1+i)%len(dom)].v))
						}
					}
					FillRequired(lm)
					out = append(out, Case{dir, lm})
				}
			}
		}
	}
	return out
}

// FillRequired sets every unset required field (recursively for set message fields) to a simple value.
func FillRequired(m protoreflect.Message) {
	fds := m.Descriptor().Fields()
	for i := 0; i < fds.Len(); i++ {
		fd := fds.Get(i)
		if fd.Cardinality() == protoreflect.Required && !m.Has(fd) {
			if fd.Message() != nil {
				sub := dynamicpb.NewMessage(fd.Message())
				FillRequired(sub)
				m.Set(fd, protoreflect.ValueOfMessage(sub))
			} else {
				m.Set(fd, scalarDomain(fd, false)[1].v)
			}
		}
	}
}

// SetZero sets a singular scalar field explicitly to the zero / empty value of its kind (present on the wire in proto2).
func SetZero(m protoreflect.Message, fd protoreflect.FieldDescriptor) {
	m.Set(fd, scalarDomain0(fd, false)[0].v)
}

// SetSimple sets a singular scalar field to the second value of its domain.
func SetSimple(m protoreflect.Message, fd protoreflect.FieldDescriptor) {
	m.Set(fd, scalarDomain(fd, false)[1].v)
}
