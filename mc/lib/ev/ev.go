// Package ev is the shared reporting layer of every check: counters, samples, violation
// classification against /verif/known_findings.txt, replay artefacts, evidence file, exit code.
package ev

import (
	"bufio"
	"encoding/json"
	"fmt"
	"os"
	"path/filepath"
	"runtime/debug"
	"sort"
	"strconv"
	"strings"
	"sync"
	"sync/atomic"
	"time"
)

// VerifDir is the root of the verification tree (env VERIF_DIR, default /verif).
func VerifDir() string {
	if d := os.Getenv("VERIF_DIR"); d != "" {
		return d
	}
	return "/verif"
}

// Run collects what one check run covered.
type Run struct {
	ID    string
	Level string
	Tier  string
	Seed  int

	start time.Time

	evals      atomic.Int64
	nontrivial atomic.Int64
	states     atomic.Int64
	trans      atomic.Int64
	traces     atomic.Int64

	mu          sync.Mutex
	rule        string
	samples     []any
	maxSamples  int
	extra       map[string]any
	assumptions []string
	exhaustive  bool
	capsHit     []string

	known      map[string]string // sig -> text (for this property)
	knownHits  map[string]int64
	knownFirst map[string]string
	viol       []Violation
	violCount  int64
	violSigs   map[string]int64
	internal   []string
	distinct   map[string]struct{}
}

// Violation is one failing case.
type Violation struct {
	Sig    string `json:"sig"`
	CaseID string `json:"case_id"`
	Detail any    `json:"detail"`
	Replay string `json:"replay,omitempty"`
}

// Start begins a run for property id at the given level ("exploration" | "model_checking").
func Start(id, level string) *Run {
	tier := os.Getenv("VERIF_TIER")
	for i, a := range os.Args {
		if a == "--tier" && i+1 < len(os.Args) {
			tier = os.Args[i+1]
		}
		if strings.HasPrefix(a, "--tier=") {
			tier = strings.TrimPrefix(a, "--tier=")
		}
	}
	if tier != "thorough" {
		tier = "quick"
	}
	seed, _ := strconv.Atoi(os.Getenv("VERIF_SEED"))
	r := &Run{ID: id, Level: level, Tier: tier, Seed: seed, start: time.Now(), maxSamples: 12,
		extra: map[string]any{}, known: map[string]string{}, knownHits: map[string]int64{}, knownFirst: map[string]string{},
		violSigs: map[string]int64{}, exhaustive: true, distinct: map[string]struct{}{}}
	r.loadKnown()
	return r
}

func (r *Run) loadKnown() {
	f, err := os.Open(filepath.Join(VerifDir(), "known_findings.txt"))
	if err != nil {
		return
	}
	defer f.Close()
	sc := bufio.NewScanner(f)
	sc.Buffer(make([]byte, 1<<20), 1<<20)
	for sc.Scan() {
		line := strings.TrimSpace(sc.Text())
		if !strings.HasPrefix(line, "known:") {
			continue
		}
		fs := strings.Fields(strings.TrimPrefix(line, "known:"))
		if len(fs) < 2 || fs[0] != "property="+r.ID || !strings.HasPrefix(fs[1], "sig=") {
			continue
		}
		r.known[strings.TrimPrefix(fs[1], "sig=")] = strings.Join(fs[2:], " ")
	}
}

// Thorough reports whether the thorough tier was requested.
func (r *Run) Thorough() bool { return r.Tier == "thorough" }

// Pick returns q in the quick tier and t in the thorough tier.
func Pick[T any](r *Run, q, t T) T {
	if r.Thorough() {
		return t
	}
	return q
}

func (r *Run) Evals(n int64)       { r.evals.Add(n) }
func (r *Run) Nontrivial(n int64)  { r.nontrivial.Add(n) }
func (r *Run) States(n int64)      { r.states.Add(n) }
func (r *Run) Transitions(n int64) { r.trans.Add(n) }
func (r *Run) Traces(n int64)      { r.traces.Add(n) }

// Distinct counts key once towards distinct_nontrivial (for spaces small enough to keep a set).
func (r *Run) Distinct(key string) {
	r.mu.Lock()
	if _, ok := r.distinct[key]; !ok {
		r.distinct[key] = struct{}{}
		r.nontrivial.Add(1)
	}
	r.mu.Unlock()
}

func (r *Run) Rule(s string) { r.mu.Lock(); r.rule = s; r.mu.Unlock() }

// Sample records an actual explored case (first few only).
func (r *Run) Sample(x any) {
	r.mu.Lock()
	if len(r.samples) < r.maxSamples {
		r.samples = append(r.samples, x)
	}
	r.mu.Unlock()
}

// WantSample is a cheap pre-check so hot loops can avoid building sample values.
func (r *Run) WantSample() bool {
	r.mu.Lock()
	defer r.mu.Unlock()
	return len(r.samples) < r.maxSamples
}

func (r *Run) Set(key string, v any) { r.mu.Lock(); r.extra[key] = v; r.mu.Unlock() }

// AddTo adds n to an integer coverage key.
func (r *Run) AddTo(key string, n int64) {
	r.mu.Lock()
	cur, _ := r.extra[key].(int64)
	r.extra[key] = cur + n
	r.mu.Unlock()
}

func (r *Run) Assume(s string) { r.mu.Lock(); r.assumptions = append(r.assumptions, s); r.mu.Unlock() }

// Cap records that a cap was hit: the run is no longer called exhaustive.
func (r *Run) Cap(what string) {
	r.mu.Lock()
	r.exhaustive = false
	r.capsHit = append(r.capsHit, what)
	r.mu.Unlock()
}

// Internal records a harness error (reference disagreement, replay divergence): exit 2.
func (r *Run) Internal(format string, a ...any) {
	r.mu.Lock()
	if len(r.internal) < 20 {
		r.internal = append(r.internal, fmt.Sprintf(format, a...))
	}
	r.mu.Unlock()
}

// Fail reports a failing case. sig must identify the specific failing call site / input class /
// discrepancy (it is matched against known_findings.txt); caseID the exact case; detail is stored in
// the replay file.
func (r *Run) Fail(sig, caseID string, detail any) {
	r.mu.Lock()
	defer r.mu.Unlock()
	if _, ok := r.known[sig]; ok {
		r.knownHits[sig]++
		if _, seen := r.knownFirst[sig]; !seen {
			r.knownFirst[sig] = caseID
		}
		return
	}
	r.violCount++
	r.violSigs[sig]++
	if r.violSigs[sig] <= 3 && len(r.viol) < 40 {
		v := Violation{Sig: sig, CaseID: caseID, Detail: detail}
		dir := filepath.Join(VerifDir(), "replays", r.ID)
		_ = os.MkdirAll(dir, 0o755)
		name := fmt.Sprintf("%s-%d.json", sanitize(sig), r.violSigs[sig])
		v.Replay = filepath.Join(dir, name)
		b, _ := json.MarshalIndent(map[string]any{"property": r.ID, "sig": sig, "case_id": caseID, "tier": r.Tier, "detail": detail,
			"generator_options": strings.TrimSpace(os.Getenv("VERIF_GEN_OPTS"))}, "", " ")
		_ = os.WriteFile(v.Replay, b, 0o644)
		r.viol = append(r.viol, v)
	}
}

// FailMore adds n further failing cases of an already reported signature (details not kept).
func (r *Run) FailMore(sig, firstID string, n int64) {
	r.mu.Lock()
	defer r.mu.Unlock()
	if _, ok := r.known[sig]; ok {
		r.knownHits[sig] += n
		return
	}
	r.violCount += n
	r.violSigs[sig] += n
}

func sanitize(s string) string {
	var b strings.Builder
	for _, c := range s {
		switch {
		case c >= 'a' && c <= 'z', c >= 'A' && c <= 'Z', c >= '0' && c <= '9', c == '-', c == '_', c == '.':
			b.WriteRune(c)
		default:
			b.WriteByte('_')
		}
	}
	if b.Len() > 80 {
		return b.String()[:80]
	}
	return b.String()
}

// Violations returns how many unlisted violations were reported so far.
func (r *Run) Violations() int64 { r.mu.Lock(); defer r.mu.Unlock(); return r.violCount }

// Finish writes the evidence file, prints KNOWN-FINDING / VIOLATION lines and exits.
func (r *Run) Finish() {
	r.mu.Lock()
	defer r.mu.Unlock()
	cov := map[string]any{}
	for k, v := range r.extra {
		cov[k] = v
	}
	if alt := os.Getenv("VERIF_ARCH_ALT"); alt != "" {
		cov["other_target_architectures"] = alt // the same check built and run for other GOARCH values first (vcheck, ARCH marker)
	}
	if a := os.Getenv("VERIF_ARCH"); a != "" {
		cov["target_architecture"] = a
	}
	cov["evaluations"] = r.evals.Load()
	cov["distinct_nontrivial"] = r.nontrivial.Load()
	cov["rule"] = r.rule
	if len(r.samples) == 0 {
		r.samples = append(r.samples, "no sample recorded")
	}
	cov["samples"] = r.samples
	cov["exhaustive"] = r.exhaustive
	if len(r.capsHit) > 0 {
		cov["caps_hit"] = r.capsHit
	}
	if r.Level == "model_checking" {
		cov["states"] = r.states.Load()
		cov["transitions"] = r.trans.Load()
		cov["traces_validated_against_impl"] = r.traces.Load()
	}
	kf := map[string]any{}
	sigs := make([]string, 0, len(r.knownHits))
	for s := range r.knownHits {
		sigs = append(sigs, s)
	}
	sort.Strings(sigs)
	for _, s := range sigs {
		kf[s] = map[string]any{"failing_cases": r.knownHits[s], "first_case": r.knownFirst[s], "text": r.known[s]}
	}
	if len(kf) > 0 {
		cov["known_findings_hit"] = kf
	}
	if len(r.viol) > 0 {
		cov["violations_detail"] = r.viol
	}
	if len(r.internal) > 0 {
		cov["internal_errors"] = r.internal
	}
	evd := map[string]any{
		"property_id": r.ID, "tier": r.Tier, "seed": r.Seed, "level": r.Level, "coverage": cov,
		"assumptions": append([]string{}, r.assumptions...), "wall_s": time.Since(r.start).Seconds(), "violations": r.violCount,
	}
	b, _ := json.MarshalIndent(evd, "", " ")
	dir := filepath.Join(VerifDir(), "evidence")
	_ = os.MkdirAll(dir, 0o755)
	if err := os.WriteFile(filepath.Join(dir, r.ID+".json"), append(b, '\n'), 0o644); err != nil {
		fmt.Fprintln(os.Stderr, "cannot write evidence:", err)
		os.Exit(2)
	}
	fmt.Printf("%s tier=%s evaluations=%d distinct_nontrivial=%d states=%d transitions=%d exhaustive=%v wall=%.1fs\n",
		r.ID, r.Tier, r.evals.Load(), r.nontrivial.Load(), r.states.Load(), r.trans.Load(), r.exhaustive, time.Since(r.start).Seconds())
	for _, s := range sigs {
		fmt.Printf("KNOWN-FINDING: property=%s sig=%s cases=%d first=%s :: %s\n", r.ID, s, r.knownHits[s], r.knownFirst[s], r.known[s])
	}
	if len(r.internal) > 0 {
		for _, e := range r.internal {
			fmt.Println("INTERNAL-ERROR:", e)
		}
		os.Exit(2)
	}
	if r.violCount > 0 {
		vs := make([]string, 0, len(r.violSigs))
		for s := range r.violSigs {
			vs = append(vs, s)
		}
		sort.Strings(vs)
		for _, s := range vs {
			fmt.Printf("violation-class sig=%s cases=%d\n", s, r.violSigs[s])
		}
		for _, v := range r.viol {
			d, _ := json.Marshal(v.Detail)
			if len(d) > 400 {
				d = append(d[:400], "..."...)
			}
			fmt.Printf("VIOLATION property=%s replay=%s sig=%s case=%s detail=%s\n", r.ID, v.Replay, v.Sig, v.CaseID, d)
		}
		os.Exit(1)
	}
	os.Exit(0)
}

// Parallel runs f(shard) for shard in [0,n) on up to workers goroutines.
func Parallel(n, workers int, f func(shard int)) {
	if workers < 1 {
		workers = 1
	}
	var wg sync.WaitGroup
	ch := make(chan int)
	for w := 0; w < workers; w++ {
		wg.Add(1)
		go func() {
			defer wg.Done()
			for s := range ch {
				f(s)
			}
		}()
	}
	for i := 0; i < n; i++ {
		ch <- i
	}
	close(ch)
	wg.Wait()
}

// Deadline helps long loops stop with exhaustive=false instead of running forever.
type Deadline struct{ t time.Time }

func NewDeadline(d time.Duration) Deadline { return Deadline{time.Now().Add(d)} }
func (d Deadline) Passed() bool            { return time.Now().After(d.t) }

// BigHeap turns the percentage-driven collector off in favour of a soft memory limit. Enumeration loops
// whose live heap is tiny but which allocate a real Encoder/Decoder per case otherwise spend most of
// their time in back-to-back GC cycles (16 workers, a few hundred KiB of live data).
func BigHeap(limit int64) {
	debug.SetGCPercent(-1)
	debug.SetMemoryLimit(limit)
}
