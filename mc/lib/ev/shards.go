package ev

import (
	"bufio"
	"encoding/json"
	"fmt"
	"os"
	"os/exec"
	"runtime/debug"
	"strconv"
	"strings"
	"sync"
	"sync/atomic"
	"syscall"
	"time"
)

// Shard is the worker side of a sharded run: a subprocess with an address-space limit whose death
// (fatal out-of-memory, stack overflow) is survived and attributed by the parent.
type Shard struct {
	Index, N int
	Trace    bool
	progress atomic.Int64 // bumped by Cur/Tick; the watchdog ends a worker that makes no progress at all
	Tier     string
	mu       sync.Mutex
	w        *bufio.Writer
	counts   map[string]int64
	samples  int
	failN    map[string]int64
	failID   map[string]string
}

type shardMsg struct {
	T      string `json:"t"`
	Sig    string `json:"sig,omitempty"`
	ID     string `json:"id,omitempty"`
	Detail any    `json:"detail,omitempty"`
	Key    string `json:"key,omitempty"`
	N      int64  `json:"n,omitempty"`
}

// ShardFromArgs returns the worker context if this process was started as "--shard i/n".
func ShardFromArgs() *Shard {
	var s *Shard
	for i, a := range os.Args {
		if a == "--shard" && i+1 < len(os.Args) {
			parts := strings.Split(os.Args[i+1], "/")
			idx, _ := strconv.Atoi(parts[0])
			n, _ := strconv.Atoi(parts[1])
			s = &Shard{Index: idx, N: n, w: bufio.NewWriterSize(os.Stdout, 1<<16), counts: map[string]int64{}}
		}
	}
	if s == nil {
		return nil
	}
	go s.watchdog()
	s.Tier = "quick"
	for i, a := range os.Args {
		if a == "--trace" {
			s.Trace = true
		}
		if a == "--tier" && i+1 < len(os.Args) {
			s.Tier = os.Args[i+1]
		}
		if a == "--aslimit" && i+1 < len(os.Args) {
			if lim, err := strconv.ParseUint(os.Args[i+1], 10, 64); err == nil && lim > 0 {
				_ = syscall.Setrlimit(syscall.RLIMIT_AS, &syscall.Rlimit{Cur: lim, Max: lim})
				if os.Getenv("GOGC") == "" {
					// workers allocate a real codec object per case over a small live heap: collect less
					// often, but start collecting in earnest well below the address-space limit
					debug.SetGCPercent(800)
					debug.SetMemoryLimit(int64(lim / 5)) // 16 workers x 1.6 GiB stay far below the memory of the machine even when two checks overlap
				}
			}
		}
	}
	return s
}

func (s *Shard) Thorough() bool { return s.Tier == "thorough" }

func (s *Shard) send(m shardMsg, flush bool) {
	b, _ := json.Marshal(m)
	s.mu.Lock()
	s.w.Write(b)
	s.w.WriteByte('\n')
	if flush {
		s.w.Flush()
	}
	s.mu.Unlock()
}

// Fail reports a failing case to the parent.
// The first 10 failures per signature are forwarded in full, the rest only counted.
func (s *Shard) Fail(sig, id string, detail any) {
	s.mu.Lock()
	if s.failN == nil {
		s.failN, s.failID = map[string]int64{}, map[string]string{}
	}
	s.failN[sig]++
	n := s.failN[sig]
	if n == 11 {
		s.failID[sig] = id
	}
	s.mu.Unlock()
	if n <= 10 {
		s.send(shardMsg{T: "fail", Sig: sig, ID: id, Detail: detail}, false)
	}
}

// Failed reports whether sig already exceeded the forwarding limit (lets hot loops skip building details).
func (s *Shard) Failed(sig string) bool {
	s.mu.Lock()
	defer s.mu.Unlock()
	return s.failN[sig] >= 10
}

// Count adds n to a named counter ("evals", "nontrivial", "states", "transitions", "traces" are
// mapped to the run's counters, others to coverage keys).
func (s *Shard) Count(key string, n int64) { s.mu.Lock(); s.counts[key] += n; s.mu.Unlock() }

// Sample forwards at most 3 samples per shard.
func (s *Shard) Sample(x any) {
	s.mu.Lock()
	ok := s.samples < 3
	s.samples++
	s.mu.Unlock()
	if ok {
		s.send(shardMsg{T: "sample", Detail: x}, false)
	}
}

// Cur announces, in trace mode only, the case about to be executed (flushed, so it survives a crash).
func (s *Shard) Cur(sig, id string) {
	s.progress.Add(1)
	if s.Trace {
		s.send(shardMsg{T: "cur", Sig: sig, ID: id}, true)
	}
}

// Tick tells the watchdog that the worker is alive (for loops that do not call Cur).
func (s *Shard) Tick() { s.progress.Add(1) }

// watchdog: a worker that completes no case at all for stallLimit is stuck in the code under test (a loop that never
// ends, a lock that is never released). It ends itself like a crashed worker; the parent then re-runs the shard in
// trace mode, where every case is announced before it runs, and attributes the death to the case it stopped in
// (worker-death/<sig>). Cases take micro- to milliseconds; the limit only has to exceed any scheduling hiccup.
const stallLimit = 10 * time.Minute

func (s *Shard) watchdog() {
	last, since := s.progress.Load(), time.Now()
	for {
		time.Sleep(5 * time.Second)
		if cur := s.progress.Load(); cur != last {
			last, since = cur, time.Now()
			continue
		}
		if time.Since(since) > stallLimit {
			fmt.Fprintf(os.Stderr, "worker %d/%d: no case completed for %v: giving up (stuck in the code under test)\n", s.Index, s.N, stallLimit)
			os.Exit(3)
		}
	}
}

// Internal reports a harness error.
func (s *Shard) Internal(format string, a ...any) {
	s.send(shardMsg{T: "internal", ID: fmt.Sprintf(format, a...)}, true)
}

// Done flushes counters; must be the last call of a worker.
func (s *Shard) Done() {
	for k, v := range s.counts {
		s.send(shardMsg{T: "count", Key: k, N: v}, false)
	}
	for sig, n := range s.failN {
		if n > 10 {
			s.send(shardMsg{T: "failmore", Sig: sig, ID: s.failID[sig], N: n - 10}, false)
		}
	}
	s.send(shardMsg{T: "done"}, true)
	os.Exit(0)
}

// RunShards starts n worker subprocesses of this binary (at most par at a time) and merges their
// reports into r. A worker that dies without "done" is re-run in trace mode to find the case that
// killed it; that case is reported as a failure with sig "worker-death/<sig of the case>".
func (r *Run) RunShards(n, par int, asLimit uint64, extra ...string) {
	var wg sync.WaitGroup
	sem := make(chan struct{}, par)
	for i := 0; i < n; i++ {
		wg.Add(1)
		sem <- struct{}{}
		go func(i int) {
			defer wg.Done()
			defer func() { <-sem }()
			done, _, _, tail := r.runShard(i, n, asLimit, false, extra)
			if !done {
				done2, lastSig, lastID, tail2 := r.runShard(i, n, asLimit, true, extra)
				if done2 {
					r.Internal("shard %d/%d died once (%s) but completed in trace mode", i, n, tail)
					return
				}
				if lastID == "" {
					r.Internal("shard %d/%d died before its first case: %s", i, n, tail2)
					return
				}
				r.Fail("worker-death/"+lastSig, lastID, map[string]any{"shard": fmt.Sprintf("%d/%d", i, n), "stderr_tail": tail2})
			}
		}(i)
	}
	wg.Wait()
}

func (r *Run) runShard(i, n int, asLimit uint64, trace bool, extra []string) (done bool, lastSig, lastID, tail string) {
	args := []string{"--shard", fmt.Sprintf("%d/%d", i, n), "--tier", r.Tier, "--aslimit", strconv.FormatUint(asLimit, 10)}
	if trace {
		args = append(args, "--trace")
	}
	args = append(args, extra...)
	cmd := exec.Command(os.Args[0], args...)
	cmd.Env = append(os.Environ(), "GOMAXPROCS=2", "GOTRACEBACK=single")
	stdout, _ := cmd.StdoutPipe()
	var errb tailBuf
	cmd.Stderr = &errb
	if err := cmd.Start(); err != nil {
		r.Internal("cannot start shard: %v", err)
		return true, "", "", ""
	}
	sc := bufio.NewScanner(stdout)
	sc.Buffer(make([]byte, 1<<20), 1<<26)
	for sc.Scan() {
		var m shardMsg
		if json.Unmarshal(sc.Bytes(), &m) != nil {
			continue
		}
		switch m.T {
		case "fail":
			if !trace {
				r.Fail(m.Sig, m.ID, m.Detail)
			}
		case "failmore":
			if !trace {
				r.FailMore(m.Sig, m.ID, m.N)
			}
		case "sample":
			if !trace {
				r.Sample(m.Detail)
			}
		case "internal":
			r.Internal("%s", m.ID)
		case "cur":
			lastSig, lastID = m.Sig, m.ID
		case "count":
			if trace {
				break
			}
			switch m.Key {
			case "evals":
				r.Evals(m.N)
			case "nontrivial":
				r.Nontrivial(m.N)
			case "states":
				r.States(m.N)
			case "transitions":
				r.Transitions(m.N)
			case "traces":
				r.Traces(m.N)
			case "state_cap_hit":
				if m.N > 0 {
					r.Cap(fmt.Sprintf("%d state insertions were refused because one buffer's state graph exceeded the per-buffer cap (a field of the object under test takes a new value on every call): exploration incomplete", m.N))
				}
			case "replay_diverged":
				// executions of the schedule explorer that could not reproduce their recorded prefix: the code
				// under test keeps state across executions outside the harness' control; exploration incomplete
				if m.N > 0 {
					r.Cap(fmt.Sprintf("%d executions did not reproduce the prefix they replay (state kept by the code under test across executions): exploration incomplete", m.N))
				}
			default:
				r.AddTo(m.Key, m.N)
			}
		case "done":
			done = true
		}
	}
	_ = cmd.Wait()
	return done, lastSig, lastID, errb.String()
}

type tailBuf struct {
	mu sync.Mutex
	b  []byte
}

func (t *tailBuf) Write(p []byte) (int, error) {
	t.mu.Lock()
	t.b = append(t.b, p...)
	if len(t.b) > 1200 {
		t.b = t.b[:1200] // keep the head: a Go fatal error prints its reason first
	}
	t.mu.Unlock()
	return len(p), nil
}
func (t *tailBuf) String() string { t.mu.Lock(); defer t.mu.Unlock(); return string(t.b) }
