// mkoverlay derives a `go build -overlay` file from the CURRENT contents of the repository:
// every non-test .go file of the listed packages that imports "sync" (or "sync/atomic" with -atomic)
// is copied with only that import path changed to the virtual shim packages, and the shim packages
// themselves are mapped into the csproto module.
//
//	mkoverlay -repo /repo -out <dir> [-atomic] [-extra dir=importSuffix ...] pkgdir...
package main

import (
	"encoding/json"
	"flag"
	"fmt"
	"go/parser"
	"go/token"
	"os"
	"path/filepath"
	"sort"
	"strings"
)

const shimBase = "github.com/CrowdStrike/csproto/zzverif/"

func main() {
	repo := flag.String("repo", "/repo", "repository root")
	out := flag.String("out", "", "output directory (overlay.json and rewritten files)")
	shim := flag.String("shim", "/verif/mc/shim", "directory holding shim package sources")
	atomic := flag.Bool("atomic", false, "also rewrite sync/atomic")
	var files multi
	flag.Var(&files, "file", "additional single .go file (absolute path, may live outside the repo) to rewrite in place of itself")
	flag.Parse()
	if *out == "" {
		fmt.Fprintln(os.Stderr, "mkoverlay: -out required")
		os.Exit(2)
	}
	must(os.MkdirAll(*out, 0o755))
	replace := map[string]string{}
	n := 0
	rewrite := func(path string) {
		src, err := os.ReadFile(path)
		must(err)
		fset := token.NewFileSet()
		f, err := parser.ParseFile(fset, path, src, parser.ImportsOnly)
		if err != nil {
			// leave unparsable files alone: the compiler will report them
			return
		}
		type edit struct {
			from, to int
			text     string
		}
		var edits []edit
		for _, im := range f.Imports {
			p := strings.Trim(im.Path.Value, "\"`")
			var np string
			switch {
			case p == "sync":
				np = shimBase + "vsync"
			case p == "sync/atomic" && *atomic:
				np = shimBase + "vatomic"
			default:
				continue
			}
			name := ""
			if im.Name == nil {
				name = filepath.Base(p) + " " // keep the identifier used in the file
			}
			edits = append(edits, edit{fset.Position(im.Path.Pos()).Offset, fset.Position(im.Path.End()).Offset, name + "\"" + np + "\""})
		}
		if len(edits) == 0 {
			return
		}
		sort.Slice(edits, func(i, j int) bool { return edits[i].from > edits[j].from })
		for _, e := range edits {
			src = append(append(append([]byte{}, src[:e.from]...), e.text...), src[e.to:]...)
		}
		n++
		dst := filepath.Join(*out, fmt.Sprintf("rw%03d_%s", n, filepath.Base(path)))
		must(os.WriteFile(dst, src, 0o644))
		replace[path] = dst
	}
	for _, pkg := range flag.Args() {
		dir := filepath.Join(*repo, pkg)
		ents, err := os.ReadDir(dir)
		must(err)
		for _, e := range ents {
			if e.IsDir() || !strings.HasSuffix(e.Name(), ".go") || strings.HasSuffix(e.Name(), "_test.go") {
				continue
			}
			rewrite(filepath.Join(dir, e.Name()))
		}
	}
	for _, f := range files {
		rewrite(f)
	}
	// virtual shim packages inside the csproto module
	for _, sp := range []string{"vsync", "vatomic"} {
		ents, err := os.ReadDir(filepath.Join(*shim, sp))
		if err != nil {
			continue
		}
		for _, e := range ents {
			if strings.HasSuffix(e.Name(), ".go") {
				replace[filepath.Join(*repo, "zzverif", sp, e.Name())] = filepath.Join(*shim, sp, e.Name())
			}
		}
	}
	b, _ := json.MarshalIndent(map[string]any{"Replace": replace}, "", " ")
	must(os.WriteFile(filepath.Join(*out, "overlay.json"), b, 0o644))
	fmt.Println(filepath.Join(*out, "overlay.json"))
}

type multi []string

func (m *multi) String() string     { return strings.Join(*m, ",") }
func (m *multi) Set(s string) error { *m = append(*m, s); return nil }

func must(err error) {
	if err != nil {
		fmt.Fprintln(os.Stderr, "mkoverlay:", err)
		os.Exit(2)
	}
}
