// gencorpus drives protoc plug-ins without protoc: it hands each plug-in a hand-built
// CodeGeneratorRequest for the corpus files and writes the responses.
//
//	gencorpus pb  -plugins <dir> -out /verif/mc/gen            third-party message types (*.pb.go) + import stubs
//	gencorpus fm  -plugin <protoc-gen-fastmarshal> -out <dir> [-opts k=v,...] [-rt gogo,gv2] [-files p3,p2]
//	              fast-marshal code from the CURRENT generator; prints a JSON status (per file: error or
//	              generated file names) and writes <dir>/overlay.json mapping them next to the pb.go files
package main

import (
	"bytes"
	"encoding/json"
	"flag"
	"fmt"
	"os"
	"os/exec"
	"path/filepath"
	"sort"
	"strings"

	"google.golang.org/protobuf/proto"
	"google.golang.org/protobuf/types/descriptorpb"
	"google.golang.org/protobuf/types/pluginpb"

	"verif/mc/corpus"
)

func runPlugin(bin string, fds []*descriptorpb.FileDescriptorProto, param string) (*pluginpb.CodeGeneratorResponse, error) {
	fd := fds[len(fds)-1]
	req := &pluginpb.CodeGeneratorRequest{
		FileToGenerate:  []string{fd.GetName()},
		ProtoFile:       fds,
		CompilerVersion: &pluginpb.Version{Major: proto.Int32(3), Minor: proto.Int32(21), Patch: proto.Int32(12)},
	}
	if param != "" {
		req.Parameter = proto.String(param)
	}
	in, err := proto.Marshal(req)
	if err != nil {
		return nil, err
	}
	cmd := exec.Command(bin)
	cmd.Stdin = bytes.NewReader(in)
	var out, errb bytes.Buffer
	cmd.Stdout, cmd.Stderr = &out, &errb
	if err := cmd.Run(); err != nil {
		e := errb.String()
		if len(e) > 600 {
			e = e[:600] + "...(truncated)"
		}
		return nil, fmt.Errorf("plug-in exited: %v: %s", err, e)
	}
	resp := &pluginpb.CodeGeneratorResponse{}
	if err := proto.Unmarshal(out.Bytes(), resp); err != nil {
		return nil, fmt.Errorf("bad response: %v", err)
	}
	return resp, nil
}

func trunc(s string, n int) string {
	if len(s) > n {
		return s[:n] + "...(truncated)"
	}
	return s
}

func must(err error) {
	if err != nil {
		fmt.Fprintln(os.Stderr, "gencorpus:", err)
		os.Exit(2)
	}
}

func pluginFor(rt corpus.Runtime, dir string) string {
	switch rt {
	case corpus.Gogo, corpus.Legacy:
		return filepath.Join(dir, "protoc-gen-gogo")
	case corpus.GV1:
		return filepath.Join(dir, "protoc-gen-go-v1")
	}
	return filepath.Join(dir, "protoc-gen-go-v2")
}

func cmdPB(args []string) {
	fs := flag.NewFlagSet("pb", flag.ExitOnError)
	plugins := fs.String("plugins", "/verif/build/plugins", "directory with third-party plug-in binaries")
	out := fs.String("out", "/verif/mc/gen", "output root")
	fs.Parse(args)
	for _, rt := range corpus.Runtimes {
		for _, spec := range corpus.Files() {
			if !spec.For(rt) {
				continue
			}
			resp, err := runPlugin(pluginFor(rt, *plugins), corpus.BuildWithDeps(spec, rt), "paths=source_relative")
			must(err)
			if resp.Error != nil {
				must(fmt.Errorf("%s/%s: third-party generator error: %s", rt, spec.Name, trunc(resp.GetError(), 500)))
			}
			for _, f := range resp.File {
				content := f.GetContent()
				if rt == corpus.Legacy {
					content = strings.ReplaceAll(content, `proto "github.com/gogo/protobuf/proto"`, `proto "github.com/golang/protobuf/proto"`)
					content = strings.ReplaceAll(content, "proto.GoGoProtoPackageIsVersion3", "proto.ProtoPackageIsVersion3")
					content = strings.ReplaceAll(content, "// source:", "// (re-targeted to github.com/golang/protobuf for the legacy flavour) source:")
				}
				p := filepath.Join(*out, f.GetName())
				must(os.MkdirAll(filepath.Dir(p), 0o755))
				must(os.WriteFile(p, []byte(content), 0o644))
			}
			// blank-import stub selected by a build tag, so that the harness only links packages whose
			// fast-marshal code compiled in this run
			stubDir := filepath.Join(*out, "all")
			must(os.MkdirAll(stubDir, 0o755))
			tag := fmt.Sprintf("g_%s_%s", rt, spec.Name)
			stub := fmt.Sprintf("//go:build %s\n\npackage all\n\nimport _ %q\n\nfunc init() { Linked = append(Linked, %q) }\n", tag, corpus.GoImportPath(spec, rt), string(rt)+"/"+spec.Name)
			must(os.WriteFile(filepath.Join(stubDir, tag+".go"), []byte(stub), 0o644))
		}
	}
	must(os.WriteFile(filepath.Join(*out, "all", "all.go"), []byte("// Package all links the corpus packages selected by build tags g_<runtime>_<file>.\npackage all\n\n// Linked lists the corpus packages (runtime/file) linked into this binary.\nvar Linked []string\n"), 0o644))
}

// Status is the per-file outcome of one fastmarshal generation.
type Status struct {
	Runtime string   `json:"runtime"`
	File    string   `json:"file"`
	Opts    string   `json:"opts"`
	Error   string   `json:"error,omitempty"`
	Files   []string `json:"files,omitempty"`
	Deps    []string `json:"deps,omitempty"` // corpus files this one imports (same runtime)
	Pkg     string   `json:"pkg"`            // directory / Go package the file belongs to (several files may share one)
}

func cmdFM(args []string) {
	fs := flag.NewFlagSet("fm", flag.ExitOnError)
	plugin := fs.String("plugin", "", "protoc-gen-fastmarshal binary")
	out := fs.String("out", "", "output directory")
	opts := fs.String("opts", "", "extra generator options (comma separated), apiversion is added per runtime")
	rts := fs.String("rt", "gogo,gv2,legacy,gv1", "runtimes")
	files := fs.String("files", "", "corpus files (default all)")
	genRoot := fs.String("genroot", "/verif/mc/gen", "where the pb.go files live (overlay targets)")
	fs.Parse(args)
	must(os.MkdirAll(*out, 0o755))
	replace := map[string]string{}
	var status []Status
	want := map[string]bool{}
	for _, f := range strings.Split(*files, ",") {
		if f != "" {
			want[f] = true
		}
	}
	for _, rtn := range strings.Split(*rts, ",") {
		rt := corpus.Runtime(rtn)
		for _, spec := range corpus.Files() {
			if (len(want) > 0 && !want[spec.Name]) || !spec.For(rt) {
				continue
			}
			param := "paths=source_relative,apiversion=" + rt.APIVersion()
			if *opts != "" {
				param += "," + *opts
			}
			st := Status{Runtime: rtn, File: spec.Name, Opts: param, Deps: spec.AllDeps(), Pkg: spec.Pkg()}
			resp, err := runPlugin(*plugin, corpus.BuildWithDeps(spec, rt), param)
			switch {
			case err != nil:
				st.Error = trunc(err.Error(), 700)
			case resp.Error != nil:
				st.Error = trunc(resp.GetError(), 700)
			default:
				for _, f := range resp.File {
					p := filepath.Join(*out, f.GetName())
					must(os.MkdirAll(filepath.Dir(p), 0o755))
					// a duplicated name would silently overwrite: keep both for the C16 verdict
					if _, err := os.Stat(p); err == nil {
						p += ".dup"
					}
					must(os.WriteFile(p, []byte(f.GetContent()), 0o644))
					st.Files = append(st.Files, f.GetName())
					if !strings.HasSuffix(p, ".dup") {
						replace[filepath.Join(*genRoot, f.GetName())] = p
					}
				}
			}
			status = append(status, st)
		}
	}
	b, _ := json.MarshalIndent(map[string]any{"Replace": replace}, "", " ")
	must(os.WriteFile(filepath.Join(*out, "overlay.json"), b, 0o644))
	sort.Slice(status, func(i, j int) bool { return status[i].Runtime+status[i].File < status[j].Runtime+status[j].File })
	sb, _ := json.MarshalIndent(status, "", " ")
	must(os.WriteFile(filepath.Join(*out, "status.json"), sb, 0o644))
	fmt.Println(filepath.Join(*out, "status.json"))
}

func main() {
	if len(os.Args) < 2 {
		fmt.Fprintln(os.Stderr, "usage: gencorpus pb|fm ...")
		os.Exit(2)
	}
	switch os.Args[1] {
	case "pb":
		cmdPB(os.Args[2:])
	case "fm":
		cmdFM(os.Args[2:])
	default:
		fmt.Fprintln(os.Stderr, "unknown subcommand")
		os.Exit(2)
	}
}
