//go:build g_gogo_p2extfile

package all

import _ "verif/mc/gen/gogo/p2extfile"

func init() { Linked = append(Linked, "gogo/p2extfile") }
