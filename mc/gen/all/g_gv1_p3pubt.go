//go:build g_gv1_p3pubt

package all

import _ "verif/mc/gen/gv1/p3pubt"

func init() { Linked = append(Linked, "gv1/p3pubt") }
