//go:build g_gv1_p3imp

package all

import _ "verif/mc/gen/gv1/p3imp"

func init() { Linked = append(Linked, "gv1/p3imp") }
