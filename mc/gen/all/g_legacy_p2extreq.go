//go:build g_legacy_p2extreq

package all

import _ "verif/mc/gen/legacy/p2extreq"

func init() { Linked = append(Linked, "legacy/p2extreq") }
