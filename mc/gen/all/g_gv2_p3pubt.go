//go:build g_gv2_p3pubt

package all

import _ "verif/mc/gen/gv2/p3pubt"

func init() { Linked = append(Linked, "gv2/p3pubt") }
