//go:build g_gv1_p3mapimp

package all

import _ "verif/mc/gen/gv1/p3mapimp"

func init() { Linked = append(Linked, "gv1/p3mapimp") }
