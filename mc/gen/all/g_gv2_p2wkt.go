//go:build g_gv2_p2wkt

package all

import _ "verif/mc/gen/gv2/p2wkt"

func init() { Linked = append(Linked, "gv2/p2wkt") }
