//go:build g_legacy_p3

package all

import _ "verif/mc/gen/legacy/p3"

func init() { Linked = append(Linked, "legacy/p3") }
