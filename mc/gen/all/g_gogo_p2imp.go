//go:build g_gogo_p2imp

package all

import _ "verif/mc/gen/gogo/p2imp"

func init() { Linked = append(Linked, "gogo/p2imp") }
