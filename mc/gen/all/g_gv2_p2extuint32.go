//go:build g_gv2_p2extuint32

package all

import _ "verif/mc/gen/gv2/p2extuint32"

func init() { Linked = append(Linked, "gv2/p2extuint32") }
