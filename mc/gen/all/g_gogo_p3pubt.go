//go:build g_gogo_p3pubt

package all

import _ "verif/mc/gen/gogo/p3pubt"

func init() { Linked = append(Linked, "gogo/p3pubt") }
