//go:build g_gv2_p3

package all

import _ "verif/mc/gen/gv2/p3"

func init() { Linked = append(Linked, "gv2/p3") }
