//go:build g_legacy_p3mapbool

package all

import _ "verif/mc/gen/legacy/p3mapbool"

func init() { Linked = append(Linked, "legacy/p3mapbool") }
