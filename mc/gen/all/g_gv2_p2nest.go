//go:build g_gv2_p2nest

package all

import _ "verif/mc/gen/gv2/p2nest"

func init() { Linked = append(Linked, "gv2/p2nest") }
