//go:build g_gv1_p3pkg

package all

import _ "verif/mc/gen/gv1/p3pkg"

func init() { Linked = append(Linked, "gv1/p3pkg") }
