//go:build g_legacy_p3big

package all

import _ "verif/mc/gen/legacy/p3big"

func init() { Linked = append(Linked, "legacy/p3big") }
