//go:build g_gv1_p2desc

package all

import _ "verif/mc/gen/gv1/p2desc"

func init() { Linked = append(Linked, "gv1/p2desc") }
