//go:build g_gv1_names

package all

import _ "verif/mc/gen/gv1/names"

func init() { Linked = append(Linked, "gv1/names") }
