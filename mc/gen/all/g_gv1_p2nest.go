//go:build g_gv1_p2nest

package all

import _ "verif/mc/gen/gv1/p2nest"

func init() { Linked = append(Linked, "gv1/p2nest") }
