//go:build g_gv1_p2def

package all

import _ "verif/mc/gen/gv1/p2def"

func init() { Linked = append(Linked, "gv1/p2def") }
