//go:build g_gv2_p2desc

package all

import _ "verif/mc/gen/gv2/p2desc"

func init() { Linked = append(Linked, "gv2/p2desc") }
