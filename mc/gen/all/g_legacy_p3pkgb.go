//go:build g_legacy_p3pkgb

package all

import _ "verif/mc/gen/legacy/p3pkg"

func init() { Linked = append(Linked, "legacy/p3pkgb") }
