//go:build g_gv1_p3puba

package all

import _ "verif/mc/gen/gv1/p3puba"

func init() { Linked = append(Linked, "gv1/p3puba") }
