//go:build g_gv1_p3wkt

package all

import _ "verif/mc/gen/gv1/p3wkt"

func init() { Linked = append(Linked, "gv1/p3wkt") }
