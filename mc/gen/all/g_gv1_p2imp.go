//go:build g_gv1_p2imp

package all

import _ "verif/mc/gen/gv1/p2imp"

func init() { Linked = append(Linked, "gv1/p2imp") }
