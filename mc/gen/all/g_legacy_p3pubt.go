//go:build g_legacy_p3pubt

package all

import _ "verif/mc/gen/legacy/p3pubt"

func init() { Linked = append(Linked, "legacy/p3pubt") }
