//go:build g_gv2_p3imp

package all

import _ "verif/mc/gen/gv2/p3imp"

func init() { Linked = append(Linked, "gv2/p3imp") }
