//go:build g_legacy_p2big

package all

import _ "verif/mc/gen/legacy/p2big"

func init() { Linked = append(Linked, "legacy/p2big") }
