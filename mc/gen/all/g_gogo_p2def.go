//go:build g_gogo_p2def

package all

import _ "verif/mc/gen/gogo/p2def"

func init() { Linked = append(Linked, "gogo/p2def") }
