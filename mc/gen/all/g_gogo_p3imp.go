//go:build g_gogo_p3imp

package all

import _ "verif/mc/gen/gogo/p3imp"

func init() { Linked = append(Linked, "gogo/p3imp") }
