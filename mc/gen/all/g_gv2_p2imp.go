//go:build g_gv2_p2imp

package all

import _ "verif/mc/gen/gv2/p2imp"

func init() { Linked = append(Linked, "gv2/p2imp") }
