//go:build g_gogo_p2

package all

import _ "verif/mc/gen/gogo/p2"

func init() { Linked = append(Linked, "gogo/p2") }
