//go:build g_legacy_p2pkgb

package all

import _ "verif/mc/gen/legacy/p2pkg"

func init() { Linked = append(Linked, "legacy/p2pkgb") }
