//go:build g_gv1_p2names

package all

import _ "verif/mc/gen/gv1/p2names"

func init() { Linked = append(Linked, "gv1/p2names") }
