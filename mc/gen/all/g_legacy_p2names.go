//go:build g_legacy_p2names

package all

import _ "verif/mc/gen/legacy/p2names"

func init() { Linked = append(Linked, "legacy/p2names") }
