//go:build g_gogo_p3big

package all

import _ "verif/mc/gen/gogo/p3big"

func init() { Linked = append(Linked, "gogo/p3big") }
