//go:build g_legacy_p2

package all

import _ "verif/mc/gen/legacy/p2"

func init() { Linked = append(Linked, "legacy/p2") }
