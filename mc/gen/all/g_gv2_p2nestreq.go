//go:build g_gv2_p2nestreq

package all

import _ "verif/mc/gen/gv2/p2nestreq"

func init() { Linked = append(Linked, "gv2/p2nestreq") }
