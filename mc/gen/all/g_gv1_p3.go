//go:build g_gv1_p3

package all

import _ "verif/mc/gen/gv1/p3"

func init() { Linked = append(Linked, "gv1/p3") }
