//go:build g_gogo_names

package all

import _ "verif/mc/gen/gogo/names"

func init() { Linked = append(Linked, "gogo/names") }
