//go:build g_gv2_p3opt

package all

import _ "verif/mc/gen/gv2/p3opt"

func init() { Linked = append(Linked, "gv2/p3opt") }
