//go:build g_legacy_p2extrep

package all

import _ "verif/mc/gen/legacy/p2extrep"

func init() { Linked = append(Linked, "legacy/p2extrep") }
