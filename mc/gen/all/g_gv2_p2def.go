//go:build g_gv2_p2def

package all

import _ "verif/mc/gen/gv2/p2def"

func init() { Linked = append(Linked, "gv2/p2def") }
