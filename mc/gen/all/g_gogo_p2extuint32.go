//go:build g_gogo_p2extuint32

package all

import _ "verif/mc/gen/gogo/p2extuint32"

func init() { Linked = append(Linked, "gogo/p2extuint32") }
