//go:build g_legacy_p2extuint32

package all

import _ "verif/mc/gen/legacy/p2extuint32"

func init() { Linked = append(Linked, "legacy/p2extuint32") }
