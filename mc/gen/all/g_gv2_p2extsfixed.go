//go:build g_gv2_p2extsfixed

package all

import _ "verif/mc/gen/gv2/p2extsfixed"

func init() { Linked = append(Linked, "gv2/p2extsfixed") }
