//go:build g_legacy_p3puba

package all

import _ "verif/mc/gen/legacy/p3puba"

func init() { Linked = append(Linked, "legacy/p3puba") }
