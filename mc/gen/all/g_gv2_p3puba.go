//go:build g_gv2_p3puba

package all

import _ "verif/mc/gen/gv2/p3puba"

func init() { Linked = append(Linked, "gv2/p3puba") }
