//go:build g_gv1_p2extsfixed

package all

import _ "verif/mc/gen/gv1/p2extsfixed"

func init() { Linked = append(Linked, "gv1/p2extsfixed") }
