//go:build g_legacy_p2def

package all

import _ "verif/mc/gen/legacy/p2def"

func init() { Linked = append(Linked, "legacy/p2def") }
