//go:build g_gv2_p3wkt

package all

import _ "verif/mc/gen/gv2/p3wkt"

func init() { Linked = append(Linked, "gv2/p3wkt") }
