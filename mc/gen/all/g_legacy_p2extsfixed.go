//go:build g_legacy_p2extsfixed

package all

import _ "verif/mc/gen/legacy/p2extsfixed"

func init() { Linked = append(Linked, "legacy/p2extsfixed") }
