//go:build g_gv2_p3pkgb

package all

import _ "verif/mc/gen/gv2/p3pkg"

func init() { Linked = append(Linked, "gv2/p3pkgb") }
