//go:build g_gv1_p2pkg

package all

import _ "verif/mc/gen/gv1/p2pkg"

func init() { Linked = append(Linked, "gv1/p2pkg") }
