//go:build g_gogo_p3pubc

package all

import _ "verif/mc/gen/gogo/p3pubc"

func init() { Linked = append(Linked, "gogo/p3pubc") }
