//go:build g_legacy_p3imp

package all

import _ "verif/mc/gen/legacy/p3imp"

func init() { Linked = append(Linked, "legacy/p3imp") }
