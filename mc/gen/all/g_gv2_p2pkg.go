//go:build g_gv2_p2pkg

package all

import _ "verif/mc/gen/gv2/p2pkg"

func init() { Linked = append(Linked, "gv2/p2pkg") }
