//go:build g_gv2_p2extreq

package all

import _ "verif/mc/gen/gv2/p2extreq"

func init() { Linked = append(Linked, "gv2/p2extreq") }
