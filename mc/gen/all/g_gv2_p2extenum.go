//go:build g_gv2_p2extenum

package all

import _ "verif/mc/gen/gv2/p2extenum"

func init() { Linked = append(Linked, "gv2/p2extenum") }
