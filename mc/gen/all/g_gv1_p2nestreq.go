//go:build g_gv1_p2nestreq

package all

import _ "verif/mc/gen/gv1/p2nestreq"

func init() { Linked = append(Linked, "gv1/p2nestreq") }
