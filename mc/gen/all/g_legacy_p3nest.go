//go:build g_legacy_p3nest

package all

import _ "verif/mc/gen/legacy/p3nest"

func init() { Linked = append(Linked, "legacy/p3nest") }
