//go:build g_legacy_names

package all

import _ "verif/mc/gen/legacy/names"

func init() { Linked = append(Linked, "legacy/names") }
