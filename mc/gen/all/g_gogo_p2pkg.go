//go:build g_gogo_p2pkg

package all

import _ "verif/mc/gen/gogo/p2pkg"

func init() { Linked = append(Linked, "gogo/p2pkg") }
