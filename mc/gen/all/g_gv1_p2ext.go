//go:build g_gv1_p2ext

package all

import _ "verif/mc/gen/gv1/p2ext"

func init() { Linked = append(Linked, "gv1/p2ext") }
