//go:build g_gogo_p2extreq

package all

import _ "verif/mc/gen/gogo/p2extreq"

func init() { Linked = append(Linked, "gogo/p2extreq") }
