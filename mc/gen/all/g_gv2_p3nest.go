//go:build g_gv2_p3nest

package all

import _ "verif/mc/gen/gv2/p3nest"

func init() { Linked = append(Linked, "gv2/p3nest") }
