//go:build g_gogo_p2extenum

package all

import _ "verif/mc/gen/gogo/p2extenum"

func init() { Linked = append(Linked, "gogo/p2extenum") }
