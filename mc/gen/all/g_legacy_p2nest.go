//go:build g_legacy_p2nest

package all

import _ "verif/mc/gen/legacy/p2nest"

func init() { Linked = append(Linked, "legacy/p2nest") }
