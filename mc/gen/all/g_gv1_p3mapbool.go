//go:build g_gv1_p3mapbool

package all

import _ "verif/mc/gen/gv1/p3mapbool"

func init() { Linked = append(Linked, "gv1/p3mapbool") }
