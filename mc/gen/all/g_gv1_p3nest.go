//go:build g_gv1_p3nest

package all

import _ "verif/mc/gen/gv1/p3nest"

func init() { Linked = append(Linked, "gv1/p3nest") }
