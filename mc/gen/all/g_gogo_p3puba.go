//go:build g_gogo_p3puba

package all

import _ "verif/mc/gen/gogo/p3puba"

func init() { Linked = append(Linked, "gogo/p3puba") }
