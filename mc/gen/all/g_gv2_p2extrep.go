//go:build g_gv2_p2extrep

package all

import _ "verif/mc/gen/gv2/p2extrep"

func init() { Linked = append(Linked, "gv2/p2extrep") }
