//go:build g_gv2_p3big

package all

import _ "verif/mc/gen/gv2/p3big"

func init() { Linked = append(Linked, "gv2/p3big") }
