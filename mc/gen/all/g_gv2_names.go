//go:build g_gv2_names

package all

import _ "verif/mc/gen/gv2/names"

func init() { Linked = append(Linked, "gv2/names") }
