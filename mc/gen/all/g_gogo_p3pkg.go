//go:build g_gogo_p3pkg

package all

import _ "verif/mc/gen/gogo/p3pkg"

func init() { Linked = append(Linked, "gogo/p3pkg") }
