//go:build g_gv2_p3mapbool

package all

import _ "verif/mc/gen/gv2/p3mapbool"

func init() { Linked = append(Linked, "gv2/p3mapbool") }
