//go:build g_gogo_p2extsfixed

package all

import _ "verif/mc/gen/gogo/p2extsfixed"

func init() { Linked = append(Linked, "gogo/p2extsfixed") }
