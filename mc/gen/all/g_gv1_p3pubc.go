//go:build g_gv1_p3pubc

package all

import _ "verif/mc/gen/gv1/p3pubc"

func init() { Linked = append(Linked, "gv1/p3pubc") }
