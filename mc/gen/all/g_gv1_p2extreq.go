//go:build g_gv1_p2extreq

package all

import _ "verif/mc/gen/gv1/p2extreq"

func init() { Linked = append(Linked, "gv1/p2extreq") }
