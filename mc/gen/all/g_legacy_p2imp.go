//go:build g_legacy_p2imp

package all

import _ "verif/mc/gen/legacy/p2imp"

func init() { Linked = append(Linked, "legacy/p2imp") }
