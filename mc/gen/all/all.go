// Package all links the corpus packages selected by build tags g_<runtime>_<file>.
package all

// Linked lists the corpus packages (runtime/file) linked into this binary.
var Linked []string
