//go:build g_gv2_p2names

package all

import _ "verif/mc/gen/gv2/p2names"

func init() { Linked = append(Linked, "gv2/p2names") }
