//go:build g_gv1_p2extenum

package all

import _ "verif/mc/gen/gv1/p2extenum"

func init() { Linked = append(Linked, "gv1/p2extenum") }
