//go:build g_gv1_p2big

package all

import _ "verif/mc/gen/gv1/p2big"

func init() { Linked = append(Linked, "gv1/p2big") }
