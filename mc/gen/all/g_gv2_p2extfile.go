//go:build g_gv2_p2extfile

package all

import _ "verif/mc/gen/gv2/p2extfile"

func init() { Linked = append(Linked, "gv2/p2extfile") }
