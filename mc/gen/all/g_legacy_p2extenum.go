//go:build g_legacy_p2extenum

package all

import _ "verif/mc/gen/legacy/p2extenum"

func init() { Linked = append(Linked, "legacy/p2extenum") }
