//go:build g_gv1_p3opt

package all

import _ "verif/mc/gen/gv1/p3opt"

func init() { Linked = append(Linked, "gv1/p3opt") }
