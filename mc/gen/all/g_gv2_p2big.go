//go:build g_gv2_p2big

package all

import _ "verif/mc/gen/gv2/p2big"

func init() { Linked = append(Linked, "gv2/p2big") }
