//go:build g_gv2_p2

package all

import _ "verif/mc/gen/gv2/p2"

func init() { Linked = append(Linked, "gv2/p2") }
