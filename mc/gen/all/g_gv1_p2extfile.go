//go:build g_gv1_p2extfile

package all

import _ "verif/mc/gen/gv1/p2extfile"

func init() { Linked = append(Linked, "gv1/p2extfile") }
