//go:build g_gv1_p3big

package all

import _ "verif/mc/gen/gv1/p3big"

func init() { Linked = append(Linked, "gv1/p3big") }
