//go:build g_gogo_p2nest

package all

import _ "verif/mc/gen/gogo/p2nest"

func init() { Linked = append(Linked, "gogo/p2nest") }
