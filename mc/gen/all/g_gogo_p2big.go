//go:build g_gogo_p2big

package all

import _ "verif/mc/gen/gogo/p2big"

func init() { Linked = append(Linked, "gogo/p2big") }
