//go:build g_gv2_p3pubc

package all

import _ "verif/mc/gen/gv2/p3pubc"

func init() { Linked = append(Linked, "gv2/p3pubc") }
