//go:build g_gv1_p2

package all

import _ "verif/mc/gen/gv1/p2"

func init() { Linked = append(Linked, "gv1/p2") }
