//go:build g_gogo_p2nestreq

package all

import _ "verif/mc/gen/gogo/p2nestreq"

func init() { Linked = append(Linked, "gogo/p2nestreq") }
