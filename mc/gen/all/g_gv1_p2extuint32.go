//go:build g_gv1_p2extuint32

package all

import _ "verif/mc/gen/gv1/p2extuint32"

func init() { Linked = append(Linked, "gv1/p2extuint32") }
