//go:build g_gv2_p3mapimp

package all

import _ "verif/mc/gen/gv2/p3mapimp"

func init() { Linked = append(Linked, "gv2/p3mapimp") }
