//go:build g_gogo_p2ext

package all

import _ "verif/mc/gen/gogo/p2ext"

func init() { Linked = append(Linked, "gogo/p2ext") }
