//go:build g_legacy_p2nestreq

package all

import _ "verif/mc/gen/legacy/p2nestreq"

func init() { Linked = append(Linked, "legacy/p2nestreq") }
