//go:build g_gv1_p2wkt

package all

import _ "verif/mc/gen/gv1/p2wkt"

func init() { Linked = append(Linked, "gv1/p2wkt") }
