//go:build g_gogo_p3mapbool

package all

import _ "verif/mc/gen/gogo/p3mapbool"

func init() { Linked = append(Linked, "gogo/p3mapbool") }
