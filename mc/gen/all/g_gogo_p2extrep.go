//go:build g_gogo_p2extrep

package all

import _ "verif/mc/gen/gogo/p2extrep"

func init() { Linked = append(Linked, "gogo/p2extrep") }
