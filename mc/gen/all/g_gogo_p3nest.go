//go:build g_gogo_p3nest

package all

import _ "verif/mc/gen/gogo/p3nest"

func init() { Linked = append(Linked, "gogo/p3nest") }
