//go:build g_legacy_p2ext

package all

import _ "verif/mc/gen/legacy/p2ext"

func init() { Linked = append(Linked, "legacy/p2ext") }
