//go:build g_gv1_p2extrep

package all

import _ "verif/mc/gen/gv1/p2extrep"

func init() { Linked = append(Linked, "gv1/p2extrep") }
