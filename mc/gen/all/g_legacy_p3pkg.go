//go:build g_legacy_p3pkg

package all

import _ "verif/mc/gen/legacy/p3pkg"

func init() { Linked = append(Linked, "legacy/p3pkg") }
