//go:build g_gogo_p2names

package all

import _ "verif/mc/gen/gogo/p2names"

func init() { Linked = append(Linked, "gogo/p2names") }
