//go:build g_legacy_p2extfile

package all

import _ "verif/mc/gen/legacy/p2extfile"

func init() { Linked = append(Linked, "legacy/p2extfile") }
