//go:build g_legacy_p3pubc

package all

import _ "verif/mc/gen/legacy/p3pubc"

func init() { Linked = append(Linked, "legacy/p3pubc") }
