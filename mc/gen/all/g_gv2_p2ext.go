//go:build g_gv2_p2ext

package all

import _ "verif/mc/gen/gv2/p2ext"

func init() { Linked = append(Linked, "gv2/p2ext") }
