//go:build g_gogo_p3

package all

import _ "verif/mc/gen/gogo/p3"

func init() { Linked = append(Linked, "gogo/p3") }
