// Package corpus defines the schema corpus (the finite feature matrix the generated-code properties
// quantify over) as programmatically built FileDescriptorProtos, one instance per target runtime.
package corpus

import (
	"fmt"
	"strings"

	"google.golang.org/protobuf/proto"
	"google.golang.org/protobuf/reflect/protodesc"
	"google.golang.org/protobuf/reflect/protoregistry"
	"google.golang.org/protobuf/types/descriptorpb"

	// the well-known types a corpus file may import (FileSpec.Ext)
	_ "google.golang.org/protobuf/types/known/anypb"
	_ "google.golang.org/protobuf/types/known/durationpb"
	_ "google.golang.org/protobuf/types/known/emptypb"
	_ "google.golang.org/protobuf/types/known/fieldmaskpb"
	_ "google.golang.org/protobuf/types/known/structpb"
	_ "google.golang.org/protobuf/types/known/timestamppb"
	_ "google.golang.org/protobuf/types/known/wrapperspb"
)

// Runtime identifies a target flavour.
type Runtime string

const (
	Gogo   Runtime = "gogo"   // protoc-gen-gogo structs, fastmarshal apiversion=v1
	GV2    Runtime = "gv2"    // protobuf-go protoc-gen-go, apiversion=v2
	GV1    Runtime = "gv1"    // golang/protobuf 1.5.4 protoc-gen-go (APIv2 messages), apiversion=v2
	Legacy Runtime = "legacy" // genuine golang/protobuf v1 style structs (gogo output re-targeted), apiversion=v1
)

// Runtimes lists the flavours in generation order.
var Runtimes = []Runtime{Gogo, GV2, Legacy, GV1}

// APIVersion returns the fastmarshal apiversion option for a runtime.
func (r Runtime) APIVersion() string {
	if r == Gogo || r == Legacy {
		return "v1"
	}
	return "v2"
}

type T = descriptorpb.FieldDescriptorProto_Type
type L = descriptorpb.FieldDescriptorProto_Label

const (
	Opt = descriptorpb.FieldDescriptorProto_LABEL_OPTIONAL
	Req = descriptorpb.FieldDescriptorProto_LABEL_REQUIRED
	Rep = descriptorpb.FieldDescriptorProto_LABEL_REPEATED
)

// Kind is one of the 17 field kinds.
type Kind struct {
	Name string
	T    T
}

var Kinds = []Kind{
	{"bool", descriptorpb.FieldDescriptorProto_TYPE_BOOL},
	{"int32", descriptorpb.FieldDescriptorProto_TYPE_INT32},
	{"int64", descriptorpb.FieldDescriptorProto_TYPE_INT64},
	{"uint32", descriptorpb.FieldDescriptorProto_TYPE_UINT32},
	{"uint64", descriptorpb.FieldDescriptorProto_TYPE_UINT64},
	{"sint32", descriptorpb.FieldDescriptorProto_TYPE_SINT32},
	{"sint64", descriptorpb.FieldDescriptorProto_TYPE_SINT64},
	{"fixed32", descriptorpb.FieldDescriptorProto_TYPE_FIXED32},
	{"fixed64", descriptorpb.FieldDescriptorProto_TYPE_FIXED64},
	{"sfixed32", descriptorpb.FieldDescriptorProto_TYPE_SFIXED32},
	{"sfixed64", descriptorpb.FieldDescriptorProto_TYPE_SFIXED64},
	{"float", descriptorpb.FieldDescriptorProto_TYPE_FLOAT},
	{"double", descriptorpb.FieldDescriptorProto_TYPE_DOUBLE},
	{"string", descriptorpb.FieldDescriptorProto_TYPE_STRING},
	{"bytes", descriptorpb.FieldDescriptorProto_TYPE_BYTES},
	{"enum", descriptorpb.FieldDescriptorProto_TYPE_ENUM},
	{"message", descriptorpb.FieldDescriptorProto_TYPE_MESSAGE},
}

func numericPackable(k Kind) bool {
	return k.Name != "string" && k.Name != "bytes" && k.Name != "message"
}

var mapKeyKinds = []string{"int32", "int64", "uint32", "uint64", "sint32", "sint64", "fixed32", "fixed64", "sfixed32", "sfixed64", "string"}

func kindByName(n string) Kind {
	for _, k := range Kinds {
		if k.Name == n {
			return k
		}
	}
	panic("kind " + n)
}

// FileSpec describes one corpus file independent of the runtime.
type FileSpec struct {
	Name   string
	Syntax string // "proto2" | "proto3"
	build  func(b *fb)
	// Cells is a short description of the features the file holds.
	Cells string
	// Only restricts the file to some runtimes (nil = all). proto3 optional is not supported by
	// protoc-gen-gogo 1.3.2 (protoc refuses to run it on such files), so it is outside the gogo/legacy matrix.
	Only []Runtime
	// Deps lists corpus files this file imports.
	Deps []string
	// Ext lists external .proto files (well-known types, taken from protobuf-go's global registry) this
	// file imports; their message types have NO generated fast-marshal methods.
	Ext []string
	// PkgOf names the corpus file whose proto package AND Go package this file joins (a package spread over several
	// .proto files, as most real packages are); empty = a package of its own, named like the file.
	PkgOf string
	// Public lists corpus files this file imports with "import public" (their types are usable by every file that imports
	// THIS file, without importing them directly).
	Public []string
	// GoName is the Go package NAME when it differs from the last element of the Go import path (go_package "path;name").
	GoName string
}

// AllDeps lists the corpus files this file imports, plainly or publicly.
func (s FileSpec) AllDeps() []string {
	return append(append([]string{}, s.Deps...), s.Public...)
}

// GoPkgName is the Go package name of the generated code.
func (s FileSpec) GoPkgName() string {
	if s.GoName != "" {
		return s.GoName
	}
	return s.Pkg()
}

// Pkg is the name of the (proto and Go) package the file belongs to.
func (s FileSpec) Pkg() string {
	if s.PkgOf != "" {
		return s.PkgOf
	}
	return s.Name
}

// ExtFile returns the descriptor of an external dependency.
func ExtFile(path string) *descriptorpb.FileDescriptorProto {
	f, err := protoregistry.GlobalFiles.FindFileByPath(path)
	if err != nil {
		panic("external corpus dependency " + path + ": " + err.Error())
	}
	return protodesc.ToFileDescriptorProto(f)
}

// For reports whether the file is part of the matrix of runtime rt.
func (f FileSpec) For(rt Runtime) bool {
	if len(f.Only) == 0 {
		return true
	}
	for _, r := range f.Only {
		if r == rt {
			return true
		}
	}
	return false
}

type fb struct {
	fd  *descriptorpb.FileDescriptorProto
	pkg string
}

// typeName resolves a local type name; "@file.Type" refers to a type of another corpus file of the same runtime.
func (b *fb) typeName(local string) string {
	if strings.HasPrefix(local, ".") { // absolute (external) type name
		return local
	}
	if strings.HasPrefix(local, "@") {
		parts := strings.SplitN(local[1:], ".", 2)
		return "." + b.pkg[:strings.LastIndex(b.pkg, ".")] + "." + parts[0] + "." + parts[1]
	}
	return "." + b.pkg + "." + local
}

type mb struct {
	b    *fb
	m    *descriptorpb.DescriptorProto
	path string // local name including the enclosing messages
}

func (b *fb) msg(name string) *mb {
	m := &descriptorpb.DescriptorProto{Name: proto.String(name)}
	b.fd.MessageType = append(b.fd.MessageType, m)
	return &mb{b, m, name}
}

func (m *mb) nested(name string) *mb {
	n := &descriptorpb.DescriptorProto{Name: proto.String(name)}
	m.m.NestedType = append(m.m.NestedType, n)
	return &mb{m.b, n, m.path + "." + name}
}

func (b *fb) enum(name string, vals map[string]int32, order []string) {
	e := &descriptorpb.EnumDescriptorProto{Name: proto.String(name)}
	for _, n := range order {
		e.Value = append(e.Value, &descriptorpb.EnumValueDescriptorProto{Name: proto.String(n), Number: proto.Int32(vals[n])})
	}
	b.fd.EnumType = append(b.fd.EnumType, e)
}

type fopt struct {
	packed   *bool
	oneof    *int32
	p3opt    bool
	typeName string
	extendee string
	def      string // proto2 default value (descriptor syntax)
}

func (m *mb) field(name string, num int32, label L, k Kind, o fopt) *descriptorpb.FieldDescriptorProto {
	f := mkField(m.b, name, num, label, k, o)
	m.m.Field = append(m.m.Field, f)
	if o.p3opt {
		idx := int32(len(m.m.OneofDecl))
		m.m.OneofDecl = append(m.m.OneofDecl, &descriptorpb.OneofDescriptorProto{Name: proto.String("_" + name)})
		f.OneofIndex = proto.Int32(idx)
		f.Proto3Optional = proto.Bool(true)
	}
	return f
}

func mkField(b *fb, name string, num int32, label L, k Kind, o fopt) *descriptorpb.FieldDescriptorProto {
	f := &descriptorpb.FieldDescriptorProto{Name: proto.String(name), Number: proto.Int32(num), Label: label.Enum(), Type: k.T.Enum(), JsonName: proto.String(jsonName(name))}
	switch k.Name {
	case "enum":
		tn := o.typeName
		if tn == "" {
			tn = "Color"
		}
		f.TypeName = proto.String(b.typeName(tn))
	case "message":
		tn := o.typeName
		if tn == "" {
			tn = "Child"
		}
		f.TypeName = proto.String(b.typeName(tn))
	}
	if o.packed != nil {
		f.Options = &descriptorpb.FieldOptions{Packed: o.packed}
	}
	if o.oneof != nil {
		f.OneofIndex = o.oneof
	}
	if o.extendee != "" {
		f.Extendee = proto.String(b.typeName(o.extendee))
	}
	if o.def != "" {
		f.DefaultValue = proto.String(o.def)
	}
	return f
}

func jsonName(s string) string {
	parts := strings.Split(s, "_")
	for i := 1; i < len(parts); i++ {
		if parts[i] != "" {
			parts[i] = strings.ToUpper(parts[i][:1]) + parts[i][1:]
		}
	}
	return strings.Join(parts, "")
}

func camel(s string) string {
	parts := strings.Split(s, "_")
	for i := range parts {
		if parts[i] != "" {
			parts[i] = strings.ToUpper(parts[i][:1]) + parts[i][1:]
		}
	}
	return strings.Join(parts, "")
}

// mapField adds map<K,V> name = num to m (with the synthesized entry message).
func (m *mb) mapField(name string, num int32, key, val Kind, valType string) {
	entry := camel(name) + "Entry"
	e := &descriptorpb.DescriptorProto{Name: proto.String(entry), Options: &descriptorpb.MessageOptions{MapEntry: proto.Bool(true)}}
	e.Field = append(e.Field, mkField(m.b, "key", 1, Opt, key, fopt{}))
	e.Field = append(e.Field, mkField(m.b, "value", 2, Opt, val, fopt{typeName: valType}))
	m.m.NestedType = append(m.m.NestedType, e)
	f := &descriptorpb.FieldDescriptorProto{Name: proto.String(name), Number: proto.Int32(num), Label: Rep.Enum(), Type: descriptorpb.FieldDescriptorProto_TYPE_MESSAGE.Enum(),
		TypeName: proto.String("." + m.b.pkg + "." + m.fullLocalName() + "." + entry), JsonName: proto.String(jsonName(name))}
	m.m.Field = append(m.m.Field, f)
}

func (m *mb) fullLocalName() string { return m.path }

// enum declares an enum nested in the message.
func (m *mb) enum(name string, vals map[string]int32, order []string) {
	e := &descriptorpb.EnumDescriptorProto{Name: proto.String(name)}
	for _, n := range order {
		e.Value = append(e.Value, &descriptorpb.EnumValueDescriptorProto{Name: proto.String(n), Number: proto.Int32(vals[n])})
	}
	m.m.EnumType = append(m.m.EnumType, e)
}

func (m *mb) oneofDecl(name string) *int32 {
	idx := int32(len(m.m.OneofDecl))
	m.m.OneofDecl = append(m.m.OneofDecl, &descriptorpb.OneofDescriptorProto{Name: proto.String(name)})
	return &idx
}

func tr(b bool) *bool { return &b }

func addChildAndColor(b *fb, childName, colorName string, proto2 bool) {
	b.enum(colorName, map[string]int32{"ZERO": 0, "RED": 1, "BIG": 2147483647, "NEG": -1}, []string{"ZERO", "RED", "BIG", "NEG"})
	c := b.msg(childName)
	c.field("a", 1, Opt, kindByName("int32"), fopt{})
	c.field("s", 2, Opt, kindByName("string"), fopt{})
	c.field("next", 3, Opt, kindByName("message"), fopt{typeName: childName})
	c.field("kids", 4, Rep, kindByName("message"), fopt{typeName: childName})
}

// Files returns the corpus.
func Files() []FileSpec {
	var out []FileSpec
	out = append(out, FileSpec{Name: "p3", Syntax: "proto3", Cells: "proto3: implicit scalars, optionals, repeated (packed default), repeated packed=false, oneof, map values, map keys, recursion, field-number boundaries, empty message",
		build: func(b *fb) {
			addChildAndColor(b, "Child", "Color", false)
			s := b.msg("Scalars")
			for i, k := range Kinds {
				s.field("f_"+k.Name, int32(i+1), Opt, k, fopt{})
			}
			r := b.msg("Repeated")
			for i, k := range Kinds {
				r.field("f_"+k.Name, int32(i+1), Rep, k, fopt{})
			}
			u := b.msg("Unpacked")
			for i, k := range Kinds {
				if numericPackable(k) {
					u.field("f_"+k.Name, int32(i+1), Rep, k, fopt{packed: tr(false)})
				}
			}
			oo := b.msg("Oneofs")
			oi := oo.oneofDecl("choice")
			for i, k := range Kinds {
				oo.field("f_"+k.Name, int32(i+1), Opt, k, fopt{oneof: oi})
			}
			oo.field("tail", 100, Opt, kindByName("int32"), fopt{})
			mv := b.msg("MapsV")
			for i, k := range Kinds {
				mv.mapField("m_"+k.Name, int32(i+1), kindByName("string"), k, "")
			}
			mk := b.msg("MapsK")
			for i, kn := range mapKeyKinds {
				mk.mapField("k_"+kn, int32(i+1), kindByName(kn), kindByName("int32"), "")
			}
			mk.mapField("k_int64_msg", 30, kindByName("int64"), kindByName("message"), "")
			mk.mapField("k_sfixed32_str", 31, kindByName("sfixed32"), kindByName("string"), "")
			b.msg("Empty")
			n := b.msg("Nums")
			for _, num := range []int32{1, 15, 16, 2047, 2048, 18999, 20000, 1<<29 - 1} {
				n.field(fmt.Sprintf("n%d", num), num, Opt, kindByName("uint32"), fopt{})
			}
			n.field("s2048", 2049, Opt, kindByName("string"), fopt{})
			n.field("r20001", 20001, Rep, kindByName("sint64"), fopt{})
		}})
	out = append(out, FileSpec{Name: "p3opt", Syntax: "proto3", Cells: "proto3 optional (explicit presence) for every kind", Only: []Runtime{GV2, GV1},
		build: func(b *fb) {
			addChildAndColor(b, "Child", "Color", false)
			o := b.msg("Optionals")
			for i, k := range Kinds {
				if k.Name == "message" {
					o.field("f_"+k.Name, int32(i+1), Opt, k, fopt{})
					continue
				}
				o.field("f_"+k.Name, int32(i+1), Opt, k, fopt{p3opt: true})
			}
			o.field("plain", 50, Opt, kindByName("int32"), fopt{})
		}})
	out = append(out, FileSpec{Name: "p3mapbool", Syntax: "proto3", Cells: "proto3: map<bool,V>",
		build: func(b *fb) {
			m := b.msg("BoolMaps")
			m.mapField("b_int32", 1, kindByName("bool"), kindByName("int32"), "")
			m.mapField("b_string", 2, kindByName("bool"), kindByName("string"), "")
		}})
	out = append(out, FileSpec{Name: "p2", Syntax: "proto2", Cells: "proto2: optional, required, repeated (unpacked default), packed=true, oneof, map values, recursion, required in nested positions",
		build: func(b *fb) {
			addChildAndColor(b, "Child", "Color", true)
			s := b.msg("Scalars")
			for i, k := range Kinds {
				s.field("f_"+k.Name, int32(i+1), Opt, k, fopt{})
			}
			rq := b.msg("Required")
			for i, k := range Kinds {
				rq.field("f_"+k.Name, int32(i+1), Req, k, fopt{})
			}
			r := b.msg("Repeated")
			for i, k := range Kinds {
				r.field("f_"+k.Name, int32(i+1), Rep, k, fopt{})
			}
			p := b.msg("Packed")
			for i, k := range Kinds {
				if numericPackable(k) {
					p.field("f_"+k.Name, int32(i+1), Rep, k, fopt{packed: tr(true)})
				}
			}
			oo := b.msg("Oneofs")
			oi := oo.oneofDecl("choice")
			for i, k := range Kinds {
				oo.field("f_"+k.Name, int32(i+1), Opt, k, fopt{oneof: oi})
			}
			oo.field("tail", 100, Opt, kindByName("int32"), fopt{})
			mv := b.msg("MapsV")
			for i, k := range Kinds {
				mv.mapField("m_"+k.Name, int32(i+1), kindByName("string"), k, "")
			}
			rc := b.msg("ReqChild")
			rc.field("a", 1, Req, kindByName("int32"), fopt{})
			rc.field("s", 2, Opt, kindByName("string"), fopt{})
			rh := b.msg("ReqHolder")
			rh.field("one", 1, Opt, kindByName("message"), fopt{typeName: "ReqChild"})
			rh.field("many", 2, Rep, kindByName("message"), fopt{typeName: "ReqChild"})
			rh.mapField("m", 3, kindByName("string"), kindByName("message"), "ReqChild")
			ri := rh.oneofDecl("pick")
			rh.field("o", 4, Opt, kindByName("message"), fopt{typeName: "ReqChild", oneof: ri})
			rh.field("x", 5, Opt, kindByName("int32"), fopt{})
			rm := b.msg("ReqMix") // some required, some optional: every subset of unset required fields is enumerated
			rm.field("r1", 1, Req, kindByName("int32"), fopt{})
			rm.field("r2", 2, Req, kindByName("string"), fopt{})
			rm.field("r3", 3, Req, kindByName("bytes"), fopt{})
			rm.field("r4", 4, Req, kindByName("message"), fopt{typeName: "Child"})
			rm.field("r5", 5, Req, kindByName("enum"), fopt{})
			rm.field("r6", 6, Req, kindByName("double"), fopt{})
			rm.field("o7", 7, Opt, kindByName("int32"), fopt{})
			rmo := b.msg("ReqMsgOnly") // the ONLY required field is message-typed
			rmo.field("c", 1, Req, kindByName("message"), fopt{typeName: "Child"})
			rmo.field("name", 2, Opt, kindByName("string"), fopt{})
			b.msg("Empty")
		}})
	out = append(out, FileSpec{Name: "p2ext", Syntax: "proto2", Cells: "proto2 extensions nested in a message of the file: optional varint/zigzag/bool/string/bytes/message kinds and repeated",
		build: func(b *fb) {
			addChildAndColor(b, "Child", "Color", true)
			e := b.msg("Extendable")
			e.field("base", 1, Opt, kindByName("int32"), fopt{})
			e.m.ExtensionRange = append(e.m.ExtensionRange, &descriptorpb.DescriptorProto_ExtensionRange{Start: proto.Int32(100), End: proto.Int32(536870912)})
			sc := b.msg("ExtScope")
			for i, kn := range []string{"int32", "int64", "uint64", "sint32", "sint64", "bool", "string", "bytes", "message", "fixed32", "fixed64", "float", "double"} {
				sc.m.Extension = append(sc.m.Extension, mkField(b, "x_"+kn, int32(100+i), Opt, kindByName(kn), fopt{extendee: "Extendable"}))
			}
		}})
	for _, rk := range []struct {
		name  string
		kinds []string
		rep   bool
	}{{"p2extuint32", []string{"uint32"}, false}, {"p2extenum", []string{"enum"}, false}, {"p2extsfixed", []string{"sfixed32", "sfixed64"}, false}, {"p2extrep", []string{"int32", "string"}, true}} {
		rk := rk
		out = append(out, FileSpec{Name: rk.name, Syntax: "proto2", Cells: "proto2 extension kinds suspected not to compile / round-trip: " + strings.Join(rk.kinds, ",") + map[bool]string{true: " (repeated)", false: ""}[rk.rep],
			build: func(b *fb) {
				addChildAndColor(b, "Child", "Color", true)
				e := b.msg("Extendable")
				e.field("base", 1, Opt, kindByName("int32"), fopt{})
				e.m.ExtensionRange = append(e.m.ExtensionRange, &descriptorpb.DescriptorProto_ExtensionRange{Start: proto.Int32(100), End: proto.Int32(536870912)})
				sc := b.msg("ExtScope")
				for i, kn := range rk.kinds {
					label := Opt
					if rk.rep {
						label = Rep
					}
					sc.m.Extension = append(sc.m.Extension, mkField(b, "x_"+kn, int32(100+i), label, kindByName(kn), fopt{extendee: "Extendable"}))
				}
			}})
	}
	out = append(out, FileSpec{Name: "p2extfile", Syntax: "proto2", Cells: "proto2 extension declared at file scope",
		build: func(b *fb) {
			e := b.msg("Extendable")
			e.field("base", 1, Opt, kindByName("int32"), fopt{})
			e.m.ExtensionRange = append(e.m.ExtensionRange, &descriptorpb.DescriptorProto_ExtensionRange{Start: proto.Int32(100), End: proto.Int32(536870912)})
			b.fd.Extension = append(b.fd.Extension, mkField(b, "top_int32", 100, Opt, kindByName("int32"), fopt{extendee: "Extendable"}))
			b.fd.Extension = append(b.fd.Extension, mkField(b, "top_string", 101, Opt, kindByName("string"), fopt{extendee: "Extendable"}))
		}})
	out = append(out, FileSpec{Name: "names", Syntax: "proto3", Cells: "proto3: equal short message names at different nesting levels and in different case; fields named like methods",
		build: func(b *fb) {
			a := b.msg("A")
			a.field("x", 1, Opt, kindByName("int32"), fopt{})
			at := a.nested("Tags")
			at.field("a", 1, Opt, kindByName("string"), fopt{})
			a.field("t", 2, Opt, kindByName("message"), fopt{typeName: "A.Tags"})
			bb := b.msg("B")
			bt := bb.nested("Tags")
			bt.field("b", 1, Opt, kindByName("int64"), fopt{})
			bb.field("t", 1, Opt, kindByName("message"), fopt{typeName: "B.Tags"})
			t := b.msg("Tags")
			t.field("c", 1, Opt, kindByName("bool"), fopt{})
			t2 := b.msg("TAGS")
			t2.field("d", 1, Opt, kindByName("uint32"), fopt{})
			sp := b.msg("Special")
			for i, n := range []string{"reset", "string", "marshal", "descriptor", "proto_message", "unmarshal"} {
				sp.field(n, int32(i+1), Opt, kindByName("int32"), fopt{})
			}
		}})
	out = append(out, FileSpec{Name: "p2names", Syntax: "proto2", Cells: "proto2: equal short message names (file-per-message naming), plain file without extensions",
		build: func(b *fb) {
			a := b.msg("A")
			a.field("x", 1, Opt, kindByName("int32"), fopt{})
			at := a.nested("Tags")
			at.field("a", 1, Opt, kindByName("string"), fopt{})
			t := b.msg("Tags")
			t.field("c", 1, Req, kindByName("bool"), fopt{})
		}})
	out = append(out, FileSpec{Name: "p2nestreq", Syntax: "proto2", Cells: "proto2: the ONLY messages with required fields are nested ones",
		build: func(b *fb) {
			o := b.msg("Outer")
			o.field("x", 1, Opt, kindByName("int32"), fopt{})
			in := o.nested("Inner")
			in.field("a", 1, Req, kindByName("int32"), fopt{})
			in.field("s", 2, Opt, kindByName("string"), fopt{})
			o.field("in", 2, Opt, kindByName("message"), fopt{typeName: "Outer.Inner"})
			o.field("ins", 3, Rep, kindByName("message"), fopt{typeName: "Outer.Inner"})
			p := b.msg("Plain")
			p.field("y", 1, Opt, kindByName("string"), fopt{})
			// three levels: Top -> Outer (nothing required itself) -> Inner (required): the verdict crosses a level that has
			// nothing to check of its own, in singular, repeated, map-value and oneof positions
			tp := b.msg("Top")
			tp.field("o", 1, Opt, kindByName("message"), fopt{typeName: "Outer"})
			tp.field("os", 2, Rep, kindByName("message"), fopt{typeName: "Outer"})
			tp.mapField("m", 3, kindByName("string"), kindByName("message"), "Outer")
			ti := tp.oneofDecl("pick")
			tp.field("oo", 4, Opt, kindByName("message"), fopt{typeName: "Outer", oneof: ti})
			tp.field("name", 5, Opt, kindByName("string"), fopt{})
		}})
	out = append(out, FileSpec{Name: "p3imp", Syntax: "proto3", Deps: []string{"p3"}, Cells: "proto3: enum and message types imported from another Go package in singular, repeated, map-value and oneof positions",
		build: func(b *fb) {
			m := b.msg("Imp")
			m.field("c", 1, Opt, kindByName("enum"), fopt{typeName: "@p3.Color"})
			m.field("m", 2, Opt, kindByName("message"), fopt{typeName: "@p3.Child"})
			m.field("rc", 3, Rep, kindByName("enum"), fopt{typeName: "@p3.Color"})
			m.field("rm", 4, Rep, kindByName("message"), fopt{typeName: "@p3.Child"})
			m.mapField("mc", 5, kindByName("string"), kindByName("enum"), "@p3.Color")
			m.mapField("mm", 6, kindByName("int32"), kindByName("message"), "@p3.Child")
			oi := m.oneofDecl("pick")
			m.field("oc", 7, Opt, kindByName("enum"), fopt{typeName: "@p3.Color", oneof: oi})
			m.field("om", 8, Opt, kindByName("message"), fopt{typeName: "@p3.Child", oneof: oi})
			m.field("os", 9, Opt, kindByName("string"), fopt{oneof: oi})
			m.field("local", 10, Opt, kindByName("message"), fopt{typeName: "Loc"})
			l := b.msg("Loc")
			l.field("c", 1, Opt, kindByName("enum"), fopt{typeName: "@p3.Color"})
		}})
	out = append(out, FileSpec{Name: "p2imp", Syntax: "proto2", Deps: []string{"p2"}, Cells: "proto2: imported enum/message types (optional, required, repeated, oneof) and an extension of an imported type",
		build: func(b *fb) {
			m := b.msg("Imp")
			m.field("c", 1, Opt, kindByName("enum"), fopt{typeName: "@p2.Color"})
			m.field("m", 2, Req, kindByName("message"), fopt{typeName: "@p2.Child"})
			m.field("rc", 3, Rep, kindByName("enum"), fopt{typeName: "@p2.Color"})
			m.field("pc", 4, Rep, kindByName("enum"), fopt{typeName: "@p2.Color", packed: tr(true)})
			oi := m.oneofDecl("pick")
			m.field("oc", 7, Opt, kindByName("enum"), fopt{typeName: "@p2.Color", oneof: oi})
			m.field("om", 8, Opt, kindByName("message"), fopt{typeName: "@p2.ReqChild", oneof: oi})
		}})
	// field numbers of 2^28 and above (five-byte keys; number << 3 no longer fits 31 bits) in EVERY shape, not only singular
	// scalars: lists of strings / bytes / unpacked varints / zig-zags / messages, packed lists, maps, oneof members
	for _, syn := range []string{"proto3", "proto2"} {
		syn := syn
		name := map[string]string{"proto3": "p3big", "proto2": "p2big"}[syn]
		out = append(out, FileSpec{Name: name, Syntax: syn, Cells: syn + ": field numbers >= 2^28 in repeated, packed, unpacked, map, oneof and message positions",
			build: func(b *fb) {
				const base = 1 << 28
				m := b.msg("Big")
				m.field("s", base, Opt, kindByName("string"), fopt{})
				m.field("u", base+1, Opt, kindByName("uint32"), fopt{})
				m.field("z", base+2, Opt, kindByName("sint64"), fopt{})
				m.field("f", base+3, Opt, kindByName("fixed32"), fopt{})
				m.field("child", base+4, Opt, kindByName("message"), fopt{typeName: "Big"})
				m.field("rs", base+5, Rep, kindByName("string"), fopt{})
				m.field("rb", base+6, Rep, kindByName("bytes"), fopt{})
				m.field("ru", base+7, Rep, kindByName("uint32"), fopt{packed: tr(false)})
				m.field("rz", base+8, Rep, kindByName("sint32"), fopt{packed: tr(false)})
				m.field("rm", base+9, Rep, kindByName("message"), fopt{typeName: "Big"})
				m.field("pi", base+10, Rep, kindByName("int32"), fopt{packed: tr(true)})
				m.field("pf", base+11, Rep, kindByName("fixed64"), fopt{packed: tr(true)})
				m.mapField("ms", base+12, kindByName("string"), kindByName("string"), "")
				m.mapField("mm", base+13, kindByName("int32"), kindByName("message"), "Big")
				oi := m.oneofDecl("pick")
				m.field("os", 1<<29-3, Opt, kindByName("string"), fopt{oneof: oi})
				m.field("om", 1<<29-2, Opt, kindByName("message"), fopt{typeName: "Big", oneof: oi})
				m.field("last", 1<<29-1, Rep, kindByName("bool"), fopt{packed: tr(false)})
				// two packed enum lists (and an unpacked one) in one message: per-kind scratch storage shared between fields
				b.enum("Tone", map[string]int32{"TONE_ZERO": 0, "TONE_ONE": 1, "TONE_BIG": 2147483647, "TONE_NEG": -1}, []string{"TONE_ZERO", "TONE_ONE", "TONE_BIG", "TONE_NEG"})
				m.field("pe1", 3, Rep, kindByName("enum"), fopt{typeName: "Tone", packed: tr(true)})
				m.field("pe2", 4, Rep, kindByName("enum"), fopt{typeName: "Tone", packed: tr(true)})
				m.field("ue", 5, Rep, kindByName("enum"), fopt{typeName: "Tone", packed: tr(false)})
				m.field("pi2", 6, Rep, kindByName("int32"), fopt{packed: tr(true)})
			}})
	}
	// "import public": app -> api -(public)-> types. The app file uses types of a file it does not import itself, and that
	// file's Go package name differs from the last element of its import path (go_package "path;name").
	out = append(out, FileSpec{Name: "p3pubt", Syntax: "proto3", GoName: "pubtypes", Cells: "proto3: types re-exported through a public import; Go package name differs from the directory name",
		build: func(b *fb) {
			b.enum("Mode", map[string]int32{"MODE_ZERO": 0, "MODE_ONE": 1, "MODE_BIG": 2147483647, "MODE_NEG": -1}, []string{"MODE_ZERO", "MODE_ONE", "MODE_BIG", "MODE_NEG"})
			st := b.msg("Stamp")
			st.field("sec", 1, Opt, kindByName("int64"), fopt{})
			st.field("label", 2, Opt, kindByName("string"), fopt{})
		}})
	out = append(out, FileSpec{Name: "p3puba", Syntax: "proto3", Public: []string{"p3pubt"}, Cells: "proto3: a file with `import public`",
		build: func(b *fb) {
			a := b.msg("Api")
			a.field("s", 1, Opt, kindByName("message"), fopt{typeName: "@p3pubt.Stamp"})
			a.field("n", 2, Opt, kindByName("int32"), fopt{})
		}})
	out = append(out, FileSpec{Name: "p3pubc", Syntax: "proto3", Deps: []string{"p3puba"}, Cells: "proto3: fields (singular, repeated, packed enum, map value, oneof) whose types are reachable only through the public import of an imported file",
		build: func(b *fb) {
			m := b.msg("App")
			m.field("at", 1, Opt, kindByName("message"), fopt{typeName: "@p3pubt.Stamp"})
			m.field("mode", 2, Opt, kindByName("enum"), fopt{typeName: "@p3pubt.Mode"})
			m.field("stamps", 3, Rep, kindByName("message"), fopt{typeName: "@p3pubt.Stamp"})
			m.field("modes", 4, Rep, kindByName("enum"), fopt{typeName: "@p3pubt.Mode"})
			m.mapField("by_name", 5, kindByName("string"), kindByName("message"), "@p3pubt.Stamp")
			oi := m.oneofDecl("pick")
			m.field("os", 6, Opt, kindByName("message"), fopt{typeName: "@p3pubt.Stamp", oneof: oi})
			m.field("om", 7, Opt, kindByName("enum"), fopt{typeName: "@p3pubt.Mode", oneof: oi})
			m.field("api", 8, Opt, kindByName("message"), fopt{typeName: "@p3puba.Api"})
		}})
	// one Go package spread over two .proto files: the second file's fields, map values, oneof members (and, in proto2,
	// required fields and an extension) have types that are declared in the FIRST file of the same package
	out = append(out, FileSpec{Name: "p3pkg", Syntax: "proto3", Cells: "proto3: first file of a two-file package (types used by the sibling file)",
		build: func(b *fb) {
			b.enum("Kind", map[string]int32{"KIND_ZERO": 0, "KIND_ONE": 1, "KIND_NEG": -2}, []string{"KIND_ZERO", "KIND_ONE", "KIND_NEG"})
			m := b.msg("Base")
			m.field("id", 1, Opt, kindByName("int32"), fopt{})
			m.field("name", 2, Opt, kindByName("string"), fopt{})
			m.field("k", 3, Opt, kindByName("enum"), fopt{typeName: "Kind"})
			m.field("next", 4, Opt, kindByName("message"), fopt{typeName: "Base"})
		}})
	out = append(out, FileSpec{Name: "p3pkgb", Syntax: "proto3", PkgOf: "p3pkg", Deps: []string{"p3pkg"}, Cells: "proto3: second file of the package: message and enum types of the SIBLING file in singular, repeated, map-value and oneof positions",
		build: func(b *fb) {
			m := b.msg("User")
			m.field("k", 1, Opt, kindByName("enum"), fopt{typeName: "Kind"})
			m.field("b", 2, Opt, kindByName("message"), fopt{typeName: "Base"})
			m.field("rk", 3, Rep, kindByName("enum"), fopt{typeName: "Kind"})
			m.field("rb", 4, Rep, kindByName("message"), fopt{typeName: "Base"})
			m.mapField("mk", 5, kindByName("string"), kindByName("enum"), "Kind")
			m.mapField("mb", 6, kindByName("int32"), kindByName("message"), "Base")
			oi := m.oneofDecl("pick")
			m.field("ok", 7, Opt, kindByName("enum"), fopt{typeName: "Kind", oneof: oi})
			m.field("ob", 8, Opt, kindByName("message"), fopt{typeName: "Base", oneof: oi})
			m.field("os", 9, Opt, kindByName("string"), fopt{oneof: oi})
			m.field("local", 10, Opt, kindByName("message"), fopt{typeName: "Loc"})
			l := b.msg("Loc")
			l.field("b", 1, Opt, kindByName("message"), fopt{typeName: "Base"})
		}})
	out = append(out, FileSpec{Name: "p2pkg", Syntax: "proto2", Cells: "proto2: first file of a two-file package (an extendable message, a message with a required field, an enum)",
		build: func(b *fb) {
			b.enum("Kind", map[string]int32{"KIND_ZERO": 0, "KIND_ONE": 1, "KIND_NEG": -2}, []string{"KIND_ZERO", "KIND_ONE", "KIND_NEG"})
			m := b.msg("Base")
			m.field("id", 1, Req, kindByName("int32"), fopt{})
			m.field("name", 2, Opt, kindByName("string"), fopt{})
			x := b.msg("Extendable")
			x.field("a", 1, Opt, kindByName("int32"), fopt{})
			x.m.ExtensionRange = append(x.m.ExtensionRange, &descriptorpb.DescriptorProto_ExtensionRange{Start: proto.Int32(100), End: proto.Int32(200)})
		}})
	out = append(out, FileSpec{Name: "p2pkgb", Syntax: "proto2", PkgOf: "p2pkg", Deps: []string{"p2pkg"}, Cells: "proto2: second file of the package: required / optional / repeated / oneof fields and message-scoped extensions whose types (and extendee) live in the SIBLING file",
		build: func(b *fb) {
			m := b.msg("User")
			m.field("b", 1, Req, kindByName("message"), fopt{typeName: "Base"})
			m.field("k", 2, Opt, kindByName("enum"), fopt{typeName: "Kind"})
			m.field("rb", 3, Rep, kindByName("message"), fopt{typeName: "Base"})
			m.field("pk", 4, Rep, kindByName("enum"), fopt{typeName: "Kind", packed: tr(true)})
			oi := m.oneofDecl("pick")
			m.field("ob", 5, Opt, kindByName("message"), fopt{typeName: "Base", oneof: oi})
			m.field("ok", 6, Opt, kindByName("enum"), fopt{typeName: "Kind", oneof: oi})
			sc := b.msg("Scope")
			sc.m.Extension = append(sc.m.Extension, mkField(b, "x_base", 100, Opt, kindByName("message"), fopt{typeName: "Base", extendee: "Extendable"}))
			sc.m.Extension = append(sc.m.Extension, mkField(b, "x_kind", 101, Opt, kindByName("enum"), fopt{typeName: "Kind", extendee: "Extendable"}))
		}})
	wkt := func(n string) string { return ".google.protobuf." + n }
	wktFiles := []string{"google/protobuf/timestamp.proto", "google/protobuf/duration.proto", "google/protobuf/wrappers.proto", "google/protobuf/any.proto",
		"google/protobuf/field_mask.proto", "google/protobuf/empty.proto", "google/protobuf/struct.proto"}
	out = append(out, FileSpec{Name: "p3wkt", Syntax: "proto3", Only: []Runtime{GV2, GV1}, Ext: wktFiles,
		Cells: "proto3: well-known types (messages WITHOUT fast-marshal methods: nested encode/decode goes through the runtime) in singular, repeated, map-value and oneof positions; imported enum NullValue",
		build: func(b *fb) {
			m := b.msg("Wkt")
			M := kindByName("message")
			for i, n := range []string{"Timestamp", "Duration", "Int64Value", "StringValue", "BytesValue", "BoolValue", "DoubleValue", "UInt32Value", "FloatValue", "Any", "FieldMask", "Empty", "Struct", "Value", "ListValue"} {
				m.field("f_"+strings.ToLower(n), int32(i+1), Opt, M, fopt{typeName: wkt(n)})
			}
			m.field("r_ts", 20, Rep, M, fopt{typeName: wkt("Timestamp")})
			m.field("r_sv", 21, Rep, M, fopt{typeName: wkt("StringValue")})
			m.mapField("m_ts", 22, kindByName("string"), M, wkt("Timestamp"))
			m.mapField("m_any", 23, kindByName("int32"), M, wkt("Any"))
			oi := m.oneofDecl("pick")
			m.field("o_ts", 24, Opt, M, fopt{typeName: wkt("Timestamp"), oneof: oi})
			m.field("o_d", 25, Opt, M, fopt{typeName: wkt("Duration"), oneof: oi})
			m.field("o_s", 26, Opt, kindByName("string"), fopt{oneof: oi})
			m.field("nv", 27, Opt, kindByName("enum"), fopt{typeName: wkt("NullValue")})
			m.field("r_nv", 28, Rep, kindByName("enum"), fopt{typeName: wkt("NullValue")})
			m.field("tail", 29, Opt, kindByName("int32"), fopt{})
			h := b.msg("Holder") // a fast-marshal message between the root and the well-known type
			h.field("w", 1, Opt, M, fopt{typeName: "Wkt"})
			h.field("ws", 2, Rep, M, fopt{typeName: "Wkt"})
			h.field("ts", 3, Opt, M, fopt{typeName: wkt("Timestamp")})
		}})
	out = append(out, FileSpec{Name: "p3mapimp", Syntax: "proto3", Only: []Runtime{GV2, GV1}, Ext: []string{"google/protobuf/duration.proto", "google/protobuf/struct.proto"},
		Cells: "proto3: the ONLY references to other packages are map values (message and enum valued)",
		build: func(b *fb) {
			m := b.msg("OnlyMaps")
			m.mapField("md", 1, kindByName("string"), kindByName("message"), wkt("Duration"))
			m.mapField("mn", 2, kindByName("int32"), kindByName("enum"), wkt("NullValue"))
			m.field("x", 3, Opt, kindByName("int32"), fopt{})
		}})
	out = append(out, FileSpec{Name: "p2wkt", Syntax: "proto2", Only: []Runtime{GV2, GV1}, Ext: []string{wktFiles[0], wktFiles[1], wktFiles[2], wktFiles[5], wktFiles[6]},
		Cells: "proto2: required / optional / repeated well-known-type fields and an extension whose value is a well-known type",
		build: func(b *fb) {
			m := b.msg("Wkt2")
			M := kindByName("message")
			m.field("ts", 1, Req, M, fopt{typeName: wkt("Timestamp")})
			m.field("d", 2, Opt, M, fopt{typeName: wkt("Duration")})
			m.field("r", 3, Rep, M, fopt{typeName: wkt("Int32Value")})
			m.field("n", 4, Opt, kindByName("int32"), fopt{})
			x := b.msg("Extendable")
			x.field("a", 1, Opt, kindByName("int32"), fopt{})
			x.m.ExtensionRange = append(x.m.ExtensionRange, &descriptorpb.DescriptorProto_ExtensionRange{Start: proto.Int32(100), End: proto.Int32(200)})
			sc := b.msg("Scope")
			sc.m.Extension = append(sc.m.Extension, mkField(b, "x_ts", 100, Opt, M, fopt{typeName: wkt("Timestamp"), extendee: "Extendable"}))
			sc.m.Extension = append(sc.m.Extension, mkField(b, "x_sv", 101, Opt, M, fopt{typeName: wkt("StringValue"), extendee: "Extendable"}))
			// packages that NO regular field of the file refers to: only the extensions need the import
			sc.m.Extension = append(sc.m.Extension, mkField(b, "x_em", 102, Opt, M, fopt{typeName: wkt("Empty"), extendee: "Extendable"}))
			sc.m.Extension = append(sc.m.Extension, mkField(b, "x_nv", 103, Opt, kindByName("enum"), fopt{typeName: wkt("NullValue"), extendee: "Extendable"}))
		}})
	// a generated parent holding RUNTIME-ONLY proto2 children that have required fields (descriptor.proto's
	// UninterpretedOption.NamePart: required name_part, required is_extension): required-field enforcement has to cross
	// from the generated code into the runtime and back (singular, repeated, map value, oneof, one level further down)
	out = append(out, FileSpec{Name: "p2desc", Syntax: "proto2", Only: []Runtime{GV2, GV1}, Ext: []string{"google/protobuf/descriptor.proto"},
		Cells: "proto2: fields whose message type has required fields but no fast-marshal code (descriptor.proto)",
		build: func(b *fb) {
			M := kindByName("message")
			np := ".google.protobuf.UninterpretedOption.NamePart"
			h := b.msg("Holder")
			h.field("one", 1, Opt, M, fopt{typeName: np})
			h.field("many", 2, Rep, M, fopt{typeName: np})
			h.mapField("m", 3, kindByName("string"), M, np)
			oi := h.oneofDecl("pick")
			h.field("o", 4, Opt, M, fopt{typeName: np, oneof: oi})
			h.field("x", 5, Opt, kindByName("int32"), fopt{})
			h.field("uo", 6, Opt, M, fopt{typeName: ".google.protobuf.UninterpretedOption"})
		}})
	out = append(out, FileSpec{Name: "p2extreq", Syntax: "proto2", Cells: "proto2: an extension whose value is a message with a required field (required-field enforcement in the extension position)",
		build: func(b *fb) {
			rc := b.msg("ReqChild")
			rc.field("a", 1, Req, kindByName("int32"), fopt{})
			rc.field("s", 2, Opt, kindByName("string"), fopt{})
			x := b.msg("Extendable")
			x.field("base", 1, Opt, kindByName("int32"), fopt{})
			x.m.ExtensionRange = append(x.m.ExtensionRange, &descriptorpb.DescriptorProto_ExtensionRange{Start: proto.Int32(100), End: proto.Int32(200)})
			sc := b.msg("ExtScope")
			sc.m.Extension = append(sc.m.Extension, mkField(b, "x_req", 100, Opt, kindByName("message"), fopt{typeName: "ReqChild", extendee: "Extendable"}))
			sc.m.Extension = append(sc.m.Extension, mkField(b, "x_plain", 101, Opt, kindByName("int32"), fopt{extendee: "Extendable"}))
		}})
	nestedTypes := func(b *fb, proto2 bool) {
		E := kindByName("enum")
		M := kindByName("message")
		o := b.msg("Outer")
		o.enum("Mode", map[string]int32{"M0": 0, "M1": 1, "M_NEG": -1}, []string{"M0", "M1", "M_NEG"})
		in := o.nested("Inner")
		in.enum("Deep", map[string]int32{"D0": 0, "D1": 1}, []string{"D0", "D1"})
		in.field("d", 1, Opt, E, fopt{typeName: "Outer.Inner.Deep"})
		in.field("m", 2, Opt, E, fopt{typeName: "Outer.Mode"})
		in.field("rd", 3, Rep, E, fopt{typeName: "Outer.Inner.Deep"})
		in.mapField("md", 4, kindByName("string"), E, "Outer.Inner.Deep")
		in.mapField("mi", 5, kindByName("int32"), M, "Outer.Inner")
		ii := in.oneofDecl("pick")
		in.field("od", 6, Opt, E, fopt{typeName: "Outer.Inner.Deep", oneof: ii})
		in.field("oi", 7, Opt, M, fopt{typeName: "Outer.Inner", oneof: ii})
		in.field("os", 8, Opt, kindByName("string"), fopt{oneof: ii})
		o.field("mode", 1, Opt, E, fopt{typeName: "Outer.Mode"})
		o.field("modes", 2, Rep, E, fopt{typeName: "Outer.Mode"})
		o.mapField("mm", 3, kindByName("string"), E, "Outer.Mode")
		o.field("in", 4, Opt, M, fopt{typeName: "Outer.Inner"})
		o.field("ins", 5, Rep, M, fopt{typeName: "Outer.Inner"})
		o.mapField("min", 6, kindByName("string"), M, "Outer.Inner")
		oi := o.oneofDecl("sel")
		o.field("om", 7, Opt, E, fopt{typeName: "Outer.Mode", oneof: oi})
		o.field("odp", 8, Opt, E, fopt{typeName: "Outer.Inner.Deep", oneof: oi})
		o.field("oin", 9, Opt, M, fopt{typeName: "Outer.Inner", oneof: oi})
		u := b.msg("User")
		u.field("mode", 1, Opt, E, fopt{typeName: "Outer.Mode"})
		u.field("deep", 2, Opt, E, fopt{typeName: "Outer.Inner.Deep"})
		u.field("ins", 3, Rep, M, fopt{typeName: "Outer.Inner"})
		u.mapField("m", 4, kindByName("uint64"), E, "Outer.Inner.Deep")
		if proto2 {
			u.field("pm", 5, Rep, E, fopt{typeName: "Outer.Mode", packed: tr(true)})
			u.field("req", 6, Req, E, fopt{typeName: "Outer.Inner.Deep"})
		}
	}
	out = append(out, FileSpec{Name: "p3nest", Syntax: "proto3", Cells: "proto3: enums and messages declared inside messages (two levels), used from inside and outside; maps and oneofs inside a nested message",
		build: func(b *fb) { nestedTypes(b, false) }})
	out = append(out, FileSpec{Name: "p2nest", Syntax: "proto2", Cells: "proto2: nested enum/message types as above plus packed and required nested enums, and extensions whose value is a nested enum / nested message",
		build: func(b *fb) {
			nestedTypes(b, true)
			x := b.msg("Extendable")
			x.field("a", 1, Opt, kindByName("int32"), fopt{})
			x.m.ExtensionRange = append(x.m.ExtensionRange, &descriptorpb.DescriptorProto_ExtensionRange{Start: proto.Int32(100), End: proto.Int32(200)})
			sc := b.msg("Scope")
			sc.m.Extension = append(sc.m.Extension, mkField(b, "x_mode", 100, Opt, kindByName("enum"), fopt{typeName: "Outer.Mode", extendee: "Extendable"}))
			sc.m.Extension = append(sc.m.Extension, mkField(b, "x_deep", 101, Opt, kindByName("enum"), fopt{typeName: "Outer.Inner.Deep", extendee: "Extendable"}))
			sc.m.Extension = append(sc.m.Extension, mkField(b, "x_inner", 102, Opt, kindByName("message"), fopt{typeName: "Outer.Inner", extendee: "Extendable"}))
		}})
	out = append(out, FileSpec{Name: "p2def", Syntax: "proto2", Cells: "proto2: explicit default values on optional fields of every scalar kind and on extensions (an unset field must stay unset on the wire, a field explicitly set to its default must be emitted)",
		build: func(b *fb) {
			addChildAndColor(b, "Child", "Color", true)
			d := b.msg("Defaults")
			defs := map[string]string{"bool": "true", "int32": "-5", "int64": "-6", "uint32": "7", "uint64": "8", "sint32": "-9", "sint64": "10", "fixed32": "11", "fixed64": "12",
				"sfixed32": "-13", "sfixed64": "14", "float": "1.5", "double": "-inf", "string": "dflt", "bytes": "\\001x", "enum": "RED"}
			for i, k := range Kinds {
				if k.Name == "message" {
					continue
				}
				d.field("f_"+k.Name, int32(i+1), Opt, k, fopt{def: defs[k.Name]})
			}
			x := b.msg("Extendable")
			x.field("a", 1, Opt, kindByName("int32"), fopt{def: "1"})
			x.m.ExtensionRange = append(x.m.ExtensionRange, &descriptorpb.DescriptorProto_ExtensionRange{Start: proto.Int32(100), End: proto.Int32(200)})
			sc := b.msg("Scope")
			for i, kn := range []string{"int32", "sint64", "bool", "string", "double", "enum", "fixed32"} {
				sc.m.Extension = append(sc.m.Extension, mkField(b, "x_"+kn, int32(100+i), Opt, kindByName(kn), fopt{extendee: "Extendable", def: defs[kn]}))
			}
		}})
	return out
}

// ProtoPath is the (virtual) .proto path of a corpus file for a runtime.
func ProtoPath(spec FileSpec, rt Runtime) string {
	return fmt.Sprintf("%s/%s/%s.proto", rt, spec.Pkg(), spec.Name)
}

// GoImportPath is the Go import path of the generated package.
func GoImportPath(spec FileSpec, rt Runtime) string {
	return fmt.Sprintf("verif/mc/gen/%s/%s", rt, spec.Pkg())
}

// ProtoPackage is the proto package name.
func ProtoPackage(spec FileSpec, rt Runtime) string {
	return fmt.Sprintf("verif.%s.%s", rt, spec.Pkg())
}

// Build returns the FileDescriptorProto of spec for runtime rt.
func Build(spec FileSpec, rt Runtime) *descriptorpb.FileDescriptorProto {
	pkg := ProtoPackage(spec, rt)
	fd := &descriptorpb.FileDescriptorProto{
		Name:    proto.String(ProtoPath(spec, rt)),
		Package: proto.String(pkg),
		Options: &descriptorpb.FileOptions{GoPackage: proto.String(GoImportPath(spec, rt) + ";" + spec.GoPkgName())},
	}
	if spec.Syntax == "proto3" {
		fd.Syntax = proto.String("proto3")
	} else {
		fd.Syntax = proto.String("proto2")
	}
	for _, d := range spec.Deps {
		ds, ok := Spec(d)
		if !ok {
			panic("unknown corpus dependency " + d)
		}
		fd.Dependency = append(fd.Dependency, ProtoPath(ds, rt))
	}
	for _, d := range spec.Public {
		ds, ok := Spec(d)
		if !ok {
			panic("unknown corpus dependency " + d)
		}
		fd.PublicDependency = append(fd.PublicDependency, int32(len(fd.Dependency)))
		fd.Dependency = append(fd.Dependency, ProtoPath(ds, rt))
	}
	fd.Dependency = append(fd.Dependency, spec.Ext...)
	spec.build(&fb{fd: fd, pkg: pkg})
	return fd
}

// BuildWithDeps returns the file's dependencies (in dependency order) followed by the file itself.
func BuildWithDeps(spec FileSpec, rt Runtime) []*descriptorpb.FileDescriptorProto {
	var out []*descriptorpb.FileDescriptorProto
	seen := map[string]bool{}
	add := func(fds ...*descriptorpb.FileDescriptorProto) {
		for _, f := range fds {
			if !seen[f.GetName()] {
				seen[f.GetName()] = true
				out = append(out, f)
			}
		}
	}
	for _, e := range spec.Ext {
		x := ExtFile(e)
		for _, dd := range x.Dependency { // well-known types only import each other one level deep
			add(ExtFile(dd))
		}
		add(x)
	}
	for _, d := range spec.AllDeps() {
		ds, _ := Spec(d)
		add(BuildWithDeps(ds, rt)...)
	}
	add(Build(spec, rt))
	return out
}

// Spec finds a file spec by name.
func Spec(name string) (FileSpec, bool) {
	for _, s := range Files() {
		if s.Name == name {
			return s, true
		}
	}
	return FileSpec{}, false
}
