#!/bin/bash
# genprep.sh <rundir> [generator opts]  -- regenerate fast-marshal code for the corpus from the CURRENT
# generator sources, find out which corpus packages compile, and print the build flags for the harness.
# Writes <rundir>/fm/{overlay.json,status.json}, <rundir>/compile.json, <rundir>/tags
set -u
export GOFLAGS=-mod=mod GOPROXY=off GOSUMDB=off GOTOOLCHAIN=local
run="$1"; opts="${2:-}"
mkdir -p "$run"
( cd "${VERIF_REPO:-/repo}" && go build -o "$run/protoc-gen-fastmarshal" ./cmd/protoc-gen-fastmarshal ) || { echo "BUILD-ERROR: protoc-gen-fastmarshal does not compile"; exit 2; }
cd "${VERIF_DIR:-/verif}/mc"
go build -o "$run/gencorpus" ./cmd/gencorpus || { echo "BUILD-ERROR gencorpus"; exit 2; }
"$run/gencorpus" fm -genroot "${VERIF_DIR:-/verif}/mc/gen" -plugin "$run/protoc-gen-fastmarshal" -out "$run/fm" ${opts:+-opts "$opts"} >/dev/null || { echo "BUILD-ERROR gencorpus fm"; exit 2; }
# compile every corpus package with its fast-marshal file; collect the failing ones
go build -overlay "$run/fm/overlay.json" ./gen/... > "$run/compile.out" 2>&1
python3 - "$run" <<'PY'
import json,re,sys,os
run=sys.argv[1]
status=json.load(open(run+'/fm/status.json'))
out=open(run+'/compile.out').read()
bad={}
cur=None
for line in out.splitlines():
    m=re.match(r'# verif/mc/gen/(\w+)/(\w+)',line)
    if m: cur=(m.group(1),m.group(2)); bad[cur]=[]; continue
    if cur and len(bad[cur])<6: bad[cur].append(line[:300])
# a cell whose own code is fine but which imports a corpus file that is not usable cannot be linked either
# (go build only names the root cause)
# compile errors are reported per package directory: every corpus file of that package is unusable
for (rt,pkg),errs in list(bad.items()):
    for s in status:
        if s['runtime']==rt and s.get('pkg',s['file'])==pkg and s['file']!=pkg:
            bad[(rt,s['file'])]=errs
# ... and a file that could not be generated takes the other files of its package with it (the package is linked as a whole)
for s in status:
    if s.get('error'):
        for t in status:
            if t['runtime']==s['runtime'] and t.get('pkg',t['file'])==s.get('pkg',s['file']) and t['file']!=s['file'] and not t.get('error'):
                bad.setdefault((t['runtime'],t['file']),['another file of the same package ('+s['file']+') could not be generated'])
broken=set(bad)|{(s['runtime'],s['file']) for s in status if s.get('error')}
changed=True
while changed:
    changed=False
    for s in status:
        key=(s['runtime'],s['file'])
        if key not in broken and any((s['runtime'],d) in broken for d in s.get('deps') or []):
            broken.add(key); changed=True
            bad[key]=['depends on a corpus file whose generated code is not usable: '+', '.join(d for d in s['deps'] if (s['runtime'],d) in broken)]
tags=[]; comp=[]
for s in status:
    key=(s['runtime'],s['file'])
    ok = not s.get('error') and key not in bad
    comp.append({'runtime':s['runtime'],'file':s['file'],'generated':not s.get('error'),'gen_error':(s.get('error') or '')[:300],'compiles':key not in bad if not s.get('error') else None,'compile_errors':bad.get(key,[])})
    if ok: tags.append('g_%s_%s'%key)
json.dump(comp,open(run+'/compile.json','w'),indent=1)
open(run+'/tags','w').write(' '.join(tags))
PY
