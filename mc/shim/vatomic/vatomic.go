// Package vatomic mirrors the functions of sync/atomic that generated fast-marshal code uses; every
// operation is a scheduling point of the controlled scheduler followed by the real atomic operation.
package vatomic

import (
	goatomic "sync/atomic"

	"github.com/CrowdStrike/csproto/zzverif/vsync"
)

func LoadInt32(addr *int32) int32 { vsync.Point("atomic.load"); return goatomic.LoadInt32(addr) }
func StoreInt32(addr *int32, val int32) {
	vsync.Point("atomic.store")
	goatomic.StoreInt32(addr, val)
}
func AddInt32(addr *int32, delta int32) int32 {
	vsync.Point("atomic.add")
	return goatomic.AddInt32(addr, delta)
}
func CompareAndSwapInt32(addr *int32, old, new int32) bool {
	vsync.Point("atomic.cas")
	return goatomic.CompareAndSwapInt32(addr, old, new)
}
func SwapInt32(addr *int32, new int32) int32 {
	vsync.Point("atomic.swap")
	return goatomic.SwapInt32(addr, new)
}
func LoadInt64(addr *int64) int64 { vsync.Point("atomic.load"); return goatomic.LoadInt64(addr) }
func StoreInt64(addr *int64, val int64) {
	vsync.Point("atomic.store")
	goatomic.StoreInt64(addr, val)
}
func AddInt64(addr *int64, delta int64) int64 {
	vsync.Point("atomic.add")
	return goatomic.AddInt64(addr, delta)
}
func LoadUint32(addr *uint32) uint32 { vsync.Point("atomic.load"); return goatomic.LoadUint32(addr) }
func StoreUint32(addr *uint32, val uint32) {
	vsync.Point("atomic.store")
	goatomic.StoreUint32(addr, val)
}

// Int32 / Int64 / Bool / Value mirror the typed atomics.
type Int32 struct{ v goatomic.Int32 }

func (x *Int32) Load() int32   { vsync.Point("atomic.load"); return x.v.Load() }
func (x *Int32) Store(v int32) { vsync.Point("atomic.store"); x.v.Store(v) }
func (x *Int32) Add(d int32) int32 {
	vsync.Point("atomic.add")
	return x.v.Add(d)
}
func (x *Int32) CompareAndSwap(o, n int32) bool {
	vsync.Point("atomic.cas")
	return x.v.CompareAndSwap(o, n)
}

type Bool struct{ v goatomic.Bool }

func (x *Bool) Load() bool   { vsync.Point("atomic.load"); return x.v.Load() }
func (x *Bool) Store(v bool) { vsync.Point("atomic.store"); x.v.Store(v) }

type Value struct{ v goatomic.Value }

func (x *Value) Load() any   { vsync.Point("atomic.load"); return x.v.Load() }
func (x *Value) Store(v any) { vsync.Point("atomic.store"); x.v.Store(v) }
