package vatomic

// The rest of the sync/atomic surface, so that ANY atomic a change introduces into an instrumented package becomes a
// scheduling point (every operation = Point + the real operation).

import (
	goatomic "sync/atomic"
	"unsafe"

	"github.com/CrowdStrike/csproto/zzverif/vsync"
)

func SwapInt64(addr *int64, new int64) int64 {
	vsync.Point("atomic.swap")
	return goatomic.SwapInt64(addr, new)
}
func CompareAndSwapInt64(addr *int64, old, new int64) bool {
	vsync.Point("atomic.cas")
	return goatomic.CompareAndSwapInt64(addr, old, new)
}
func AddUint32(addr *uint32, delta uint32) uint32 {
	vsync.Point("atomic.add")
	return goatomic.AddUint32(addr, delta)
}
func SwapUint32(addr *uint32, new uint32) uint32 {
	vsync.Point("atomic.swap")
	return goatomic.SwapUint32(addr, new)
}
func CompareAndSwapUint32(addr *uint32, old, new uint32) bool {
	vsync.Point("atomic.cas")
	return goatomic.CompareAndSwapUint32(addr, old, new)
}
func LoadUint64(addr *uint64) uint64 { vsync.Point("atomic.load"); return goatomic.LoadUint64(addr) }
func StoreUint64(addr *uint64, val uint64) {
	vsync.Point("atomic.store")
	goatomic.StoreUint64(addr, val)
}
func AddUint64(addr *uint64, delta uint64) uint64 {
	vsync.Point("atomic.add")
	return goatomic.AddUint64(addr, delta)
}
func SwapUint64(addr *uint64, new uint64) uint64 {
	vsync.Point("atomic.swap")
	return goatomic.SwapUint64(addr, new)
}
func CompareAndSwapUint64(addr *uint64, old, new uint64) bool {
	vsync.Point("atomic.cas")
	return goatomic.CompareAndSwapUint64(addr, old, new)
}
func LoadUintptr(addr *uintptr) uintptr {
	vsync.Point("atomic.load")
	return goatomic.LoadUintptr(addr)
}
func StoreUintptr(addr *uintptr, val uintptr) {
	vsync.Point("atomic.store")
	goatomic.StoreUintptr(addr, val)
}
func AddUintptr(addr *uintptr, delta uintptr) uintptr {
	vsync.Point("atomic.add")
	return goatomic.AddUintptr(addr, delta)
}
func SwapUintptr(addr *uintptr, new uintptr) uintptr {
	vsync.Point("atomic.swap")
	return goatomic.SwapUintptr(addr, new)
}
func CompareAndSwapUintptr(addr *uintptr, old, new uintptr) bool {
	vsync.Point("atomic.cas")
	return goatomic.CompareAndSwapUintptr(addr, old, new)
}
func LoadPointer(addr *unsafe.Pointer) unsafe.Pointer {
	vsync.Point("atomic.load")
	return goatomic.LoadPointer(addr)
}
func StorePointer(addr *unsafe.Pointer, val unsafe.Pointer) {
	vsync.Point("atomic.store")
	goatomic.StorePointer(addr, val)
}
func SwapPointer(addr *unsafe.Pointer, new unsafe.Pointer) unsafe.Pointer {
	vsync.Point("atomic.swap")
	return goatomic.SwapPointer(addr, new)
}
func CompareAndSwapPointer(addr *unsafe.Pointer, old, new unsafe.Pointer) bool {
	vsync.Point("atomic.cas")
	return goatomic.CompareAndSwapPointer(addr, old, new)
}

func (x *Int32) Swap(n int32) int32 { vsync.Point("atomic.swap"); return x.v.Swap(n) }

type Int64 struct{ v goatomic.Int64 }

func (x *Int64) Load() int64        { vsync.Point("atomic.load"); return x.v.Load() }
func (x *Int64) Store(v int64)      { vsync.Point("atomic.store"); x.v.Store(v) }
func (x *Int64) Add(d int64) int64  { vsync.Point("atomic.add"); return x.v.Add(d) }
func (x *Int64) Swap(n int64) int64 { vsync.Point("atomic.swap"); return x.v.Swap(n) }
func (x *Int64) CompareAndSwap(o, n int64) bool {
	vsync.Point("atomic.cas")
	return x.v.CompareAndSwap(o, n)
}

type Uint32 struct{ v goatomic.Uint32 }

func (x *Uint32) Load() uint32         { vsync.Point("atomic.load"); return x.v.Load() }
func (x *Uint32) Store(v uint32)       { vsync.Point("atomic.store"); x.v.Store(v) }
func (x *Uint32) Add(d uint32) uint32  { vsync.Point("atomic.add"); return x.v.Add(d) }
func (x *Uint32) Swap(n uint32) uint32 { vsync.Point("atomic.swap"); return x.v.Swap(n) }
func (x *Uint32) CompareAndSwap(o, n uint32) bool {
	vsync.Point("atomic.cas")
	return x.v.CompareAndSwap(o, n)
}

type Uint64 struct{ v goatomic.Uint64 }

func (x *Uint64) Load() uint64         { vsync.Point("atomic.load"); return x.v.Load() }
func (x *Uint64) Store(v uint64)       { vsync.Point("atomic.store"); x.v.Store(v) }
func (x *Uint64) Add(d uint64) uint64  { vsync.Point("atomic.add"); return x.v.Add(d) }
func (x *Uint64) Swap(n uint64) uint64 { vsync.Point("atomic.swap"); return x.v.Swap(n) }
func (x *Uint64) CompareAndSwap(o, n uint64) bool {
	vsync.Point("atomic.cas")
	return x.v.CompareAndSwap(o, n)
}

type Uintptr struct{ v goatomic.Uintptr }

func (x *Uintptr) Load() uintptr          { vsync.Point("atomic.load"); return x.v.Load() }
func (x *Uintptr) Store(v uintptr)        { vsync.Point("atomic.store"); x.v.Store(v) }
func (x *Uintptr) Add(d uintptr) uintptr  { vsync.Point("atomic.add"); return x.v.Add(d) }
func (x *Uintptr) Swap(n uintptr) uintptr { vsync.Point("atomic.swap"); return x.v.Swap(n) }
func (x *Uintptr) CompareAndSwap(o, n uintptr) bool {
	vsync.Point("atomic.cas")
	return x.v.CompareAndSwap(o, n)
}

func (x *Bool) Swap(n bool) bool { vsync.Point("atomic.swap"); return x.v.Swap(n) }
func (x *Bool) CompareAndSwap(o, n bool) bool {
	vsync.Point("atomic.cas")
	return x.v.CompareAndSwap(o, n)
}

func (x *Value) Swap(n any) any { vsync.Point("atomic.swap"); return x.v.Swap(n) }
func (x *Value) CompareAndSwap(o, n any) bool {
	vsync.Point("atomic.cas")
	return x.v.CompareAndSwap(o, n)
}

// Pointer mirrors atomic.Pointer[T].
type Pointer[T any] struct{ v goatomic.Pointer[T] }

func (x *Pointer[T]) Load() *T     { vsync.Point("atomic.load"); return x.v.Load() }
func (x *Pointer[T]) Store(p *T)   { vsync.Point("atomic.store"); x.v.Store(p) }
func (x *Pointer[T]) Swap(p *T) *T { vsync.Point("atomic.swap"); return x.v.Swap(p) }
func (x *Pointer[T]) CompareAndSwap(o, n *T) bool {
	vsync.Point("atomic.cas")
	return x.v.CompareAndSwap(o, n)
}
