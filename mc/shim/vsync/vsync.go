// Package vsync is a drop-in replacement for the parts of package sync that csproto uses, plus the
// controlled scheduler / environment-answer explorer of the verification harness (modes S and E).
//
// It is compiled into the csproto module through `go build -overlay` as the virtual package
// github.com/CrowdStrike/csproto/zzverif/vsync; csproto source files get their `"sync"` import
// rewritten to it (nothing else changes). With no exploration active every operation behaves like a
// plain deterministic single-threaded version of the original.
package vsync

import (
	"fmt"
	"runtime/debug"
	"strings"
	gosync "sync"
)

// ---------------------------------------------------------------------------------------------
// exploration core

// Kind of a choice point.
const (
	KThread = iota // which thread runs next (alt != 0 while the running thread is enabled = 1 preemption)
	KAnswer        // environment answer (alt != 0 = 1 deviation)
	KFree          // free choice of the driver (operation alphabet): never costs anything
)

type point struct {
	kind   int
	n      int
	costly bool // for KThread: running thread still enabled
	what   string
}

type thr struct {
	id      int
	wake    chan struct{}
	done    bool
	blocked func() bool // non-nil: thread is waiting; enabled iff blocked() == false
	name    string
}

// Exec is one controlled execution.
type Exec struct {
	prefix  []int
	choices []int
	points  []point
	threads []*thr
	cur     *thr
	yield   chan struct{}
	Trace   []string
	Fails   []Failure
	keepTr  bool
	steps   int
	maxStep int
	aborted bool
	// PoolReuses counts Pool.Get calls answered with a previously Put object, PoolFresh with New().
	PoolReuses, PoolFresh int
	// Preempts counts thread switches away from a still-enabled thread.
	Outcome string // set by the harness: canonical description of what this execution observed
	// Diverged is non-empty when the execution could not follow the prefix it was asked to replay.
	Diverged string
}

// Failure is a property failure observed during an execution.
type Failure struct {
	Sig    string
	Detail string
}

var cur *Exec // the active execution (one per process)

// Active reports whether a controlled execution is running.
func Active() bool { return cur != nil }

// Failf records a failure of the running execution.
func Failf(sig, format string, a ...any) {
	if cur != nil {
		if len(cur.Fails) < 8 {
			cur.Fails = append(cur.Fails, Failure{sig, fmt.Sprintf(format, a...)})
		}
	}
}

// Logf appends to the execution trace (kept only when tracing is on).
func Logf(format string, a ...any) {
	if cur != nil && cur.keepTr {
		cur.Trace = append(cur.Trace, fmt.Sprintf(format, a...))
	}
}

func (x *Exec) choose(kind, n int, costly bool, what string) int {
	if n <= 1 {
		return 0
	}
	i := len(x.choices)
	c := 0
	if i < len(x.prefix) {
		c = x.prefix[i]
		if c < 0 || c >= n {
			// see runExec: state outside the harness' control changed the shape of the execution
			if x.Diverged == "" {
				x.Diverged = fmt.Sprintf("replay divergence at point %d (%s): recorded choice %d, only %d alternatives now", i, what, c, n)
			}
			c = 0
		}
	}
	x.choices = append(x.choices, c)
	x.points = append(x.points, point{kind, n, costly, what})
	if x.keepTr {
		x.Trace = append(x.Trace, fmt.Sprintf("choice[%d] %s -> %d/%d", i, what, c, n))
	}
	return c
}

// Choose asks for an environment answer in [0,n); 0 is the default answer.
func Choose(what string, n int) int {
	if cur == nil {
		return 0
	}
	return cur.choose(KAnswer, n, false, what)
}

// ChooseFree asks for a free driver choice in [0,n).
func ChooseFree(what string, n int) int {
	if cur == nil {
		return 0
	}
	return cur.choose(KFree, n, false, what)
}

// Point is a scheduling point: the running thread offers the scheduler the chance to run another.
func Point(op string) {
	x := cur
	if x == nil || x.cur == nil || len(x.threads) < 2 {
		return
	}
	x.steps++
	if x.maxStep > 0 && x.steps > x.maxStep {
		x.aborted = true
		panic(abortExec{})
	}
	t := x.cur
	if x.keepTr {
		x.Trace = append(x.Trace, fmt.Sprintf("T%d %s", t.id, op))
	}
	x.yield <- struct{}{}
	<-t.wake
}

type abortExec struct{}

// block parks the running thread until cond() is false.
func block(op string, cond func() bool) {
	x := cur
	if x == nil || x.cur == nil {
		if cond() {
			panic("vsync: would block forever outside a controlled execution: " + op)
		}
		return
	}
	t := x.cur
	for cond() {
		t.blocked = cond
		if x.keepTr {
			x.Trace = append(x.Trace, fmt.Sprintf("T%d blocks on %s", t.id, op))
		}
		x.yield <- struct{}{}
		<-t.wake
		t.blocked = nil
	}
}

func (x *Exec) run(bodies []func()) {
	x.yield = make(chan struct{})
	for i, b := range bodies {
		t := &thr{id: i, wake: make(chan struct{})}
		x.threads = append(x.threads, t)
		go func(t *thr, b func()) {
			<-t.wake
			defer func() {
				if p := recover(); p != nil {
					if _, ok := p.(abortExec); !ok {
						st := string(debug.Stack())
						if len(x.Fails) < 8 {
							x.Fails = append(x.Fails, Failure{"panic", fmt.Sprintf("T%d panicked: %v\n%s", t.id, p, trimStack(st))})
						}
					}
				}
				t.done = true
				x.yield <- struct{}{}
			}()
			b()
		}(t, b)
	}
	var enabled []*thr
	for {
		enabled = enabled[:0]
		unfinished := 0
		curEnabled := false
		if x.cur != nil && !x.cur.done && (x.cur.blocked == nil || !x.cur.blocked()) {
			enabled = append(enabled, x.cur)
			curEnabled = true
		}
		for _, t := range x.threads {
			if t.done {
				continue
			}
			unfinished++
			if t == x.cur && curEnabled {
				continue
			}
			if t.blocked == nil || !t.blocked() {
				enabled = append(enabled, t)
			}
		}
		if len(enabled) == 0 {
			if unfinished > 0 {
				x.Fails = append(x.Fails, Failure{"deadlock", fmt.Sprintf("%d threads unfinished, none enabled", unfinished)})
				// leak the parked goroutines of this execution; they hold nothing global
			}
			return
		}
		idx := 0
		if len(bodies) > 1 {
			idx = x.choose(KThread, len(enabled), curEnabled, "sched")
		}
		t := enabled[idx]
		x.cur = t
		t.wake <- struct{}{}
		<-x.yield
	}
}

func trimStack(s string) string {
	lines := strings.Split(s, "\n")
	var keep []string
	for _, l := range lines {
		if strings.Contains(l, "csproto") || strings.Contains(l, "verif/mc") {
			keep = append(keep, strings.TrimSpace(l))
		}
		if len(keep) >= 12 {
			break
		}
	}
	return strings.Join(keep, "\n")
}

// Harness is what one execution runs: thread bodies (fresh state per execution!) and a final check.
type Harness struct {
	Threads []func()
	Final   func()
}

// Config bounds an exploration.
type Config struct {
	Preemptions int   // max preemptions per execution (KThread deviations)
	Deviations  int   // max non-default environment answers per execution
	MaxExecs    int64 // cap (0 = none); hitting it makes the result non-exhaustive
	MaxSteps    int   // per-execution scheduling-point horizon (0 = none)
	Shard, Of   int   // explore only the subtrees assigned to this shard (Of <= 1: everything)
	ShardDepth  int   // depth (number of non-default choices) at which subtrees are dealt to shards (default 2)
	OnExec      func(x *Exec)
}

// Stats is the result of an exploration.
type Stats struct {
	Execs       int64
	Points      int64
	ByCost      map[[2]int]int64 // executions by (preemptions, deviations) actually taken
	Capped      bool
	FirstFail   *Exec
	FailCount   int64
	MaxChoices  int
	FailsBySig  map[string]int64
	FailExample map[string]*Exec
	WithReuse   int64 // executions in which a pooled object was actually recycled
	Aborted     int64
	Outcomes    map[string]int64
	// Diverged counts executions that did not reproduce the choice points of the prefix they replay (state kept
	// by the code under test across executions, outside the harness' control); nothing below them is explored.
	Diverged        int64
	DivergedExample string
}

// SetOutcome lets the harness describe what the running execution observed (for outcome counting).
func SetOutcome(s string) {
	if cur != nil {
		cur.Outcome = s
	}
}

type explorer struct {
	cfg     Config
	mk      func() Harness
	st      *Stats
	taskCtr int
}

// Explore runs the deviation-bounded DFS of the brief's idiom over all choice points.
func Explore(cfg Config, mk func() Harness) *Stats {
	if cfg.ShardDepth == 0 {
		cfg.ShardDepth = 2
	}
	e := &explorer{cfg: cfg, mk: mk, st: &Stats{ByCost: map[[2]int]int64{}, FailsBySig: map[string]int64{}, FailExample: map[string]*Exec{}}}
	e.explore(nil, 0, true)
	return e.st
}

// RunOne executes exactly the given choice sequence (then defaults) with tracing on.
func RunOne(choices []int, mk func() Harness) *Exec {
	return runExec(choices, mk, true, 0)
}

func runExec(prefix []int, mk func() Harness, trace bool, maxSteps int) *Exec {
	x := &Exec{prefix: prefix, keepTr: trace, maxStep: maxSteps}
	cur = x
	h := mk()
	x.run(h.Threads)
	if h.Final != nil && !x.aborted {
		x.cur = nil
		func() {
			defer func() {
				if p := recover(); p != nil {
					x.Fails = append(x.Fails, Failure{"panic", fmt.Sprintf("final check panicked: %v\n%s", p, trimStack(string(debug.Stack())))})
				}
			}()
			h.Final()
		}()
	}
	cur = nil
	if len(x.choices) < len(prefix) {
		// The prefix was recorded in an earlier execution of the SAME harness: the code under test kept state across
		// executions that the harness cannot reset (for example a package-level variable written without any
		// synchronisation operation the shim could see). Exploration below this point would be meaningless; the
		// explorer counts it, does not descend, and the check reports the exploration as incomplete.
		x.Diverged = fmt.Sprintf("replay divergence: execution ended after %d choice points, prefix has %d", len(x.choices), len(prefix))
	}
	return x
}

// Choices returns the choice sequence taken by the execution.
func (x *Exec) Choices() []int { return x.choices }

// Alternatives returns, per choice point, how many alternatives it offered.
func (x *Exec) Alternatives() []int {
	out := make([]int, len(x.points))
	for i, p := range x.points {
		out[i] = p.n
	}
	return out
}

// Aborted reports whether the step horizon stopped the execution.
func (x *Exec) Aborted() bool { return x.aborted }

func (x *Exec) cost(upto int) (p, d int) {
	for i := 0; i < upto && i < len(x.choices); i++ {
		if x.choices[i] == 0 {
			continue
		}
		switch x.points[i].kind {
		case KThread:
			if x.points[i].costly {
				p++
			}
		case KAnswer:
			d++
		}
	}
	return
}

// explore: mine==true means this process owns the subtree rooted here.
func (e *explorer) explore(prefix []int, depth int, mine bool) {
	if e.st.Capped {
		return
	}
	x := runExec(prefix, e.mk, false, e.cfg.MaxSteps)
	if x.Diverged != "" {
		e.st.Diverged++
		if e.st.DivergedExample == "" {
			e.st.DivergedExample = fmt.Sprintf("prefix %v: %s", prefix, x.Diverged)
		}
		return
	}
	if mine {
		e.st.Execs++
		e.st.Points += int64(len(x.points))
		p, d := x.cost(len(x.choices))
		e.st.ByCost[[2]int{p, d}]++
		if len(x.choices) > e.st.MaxChoices {
			e.st.MaxChoices = len(x.choices)
		}
		if x.aborted {
			e.st.Aborted++
		}
		if x.PoolReuses > 0 {
			e.st.WithReuse++
		}
		if x.Outcome != "" {
			if e.st.Outcomes == nil {
				e.st.Outcomes = map[string]int64{}
			}
			e.st.Outcomes[x.Outcome]++
		}
		if len(x.Fails) > 0 {
			e.st.FailCount++
			for _, f := range x.Fails {
				e.st.FailsBySig[f.Sig]++
				if e.st.FailExample[f.Sig] == nil {
					e.st.FailExample[f.Sig] = x
				}
			}
			if e.st.FirstFail == nil {
				e.st.FirstFail = x
			}
		}
		if e.cfg.OnExec != nil {
			e.cfg.OnExec(x)
		}
		if e.cfg.MaxExecs > 0 && e.st.Execs >= e.cfg.MaxExecs {
			e.st.Capped = true
			return
		}
	}
	bp, bd := x.cost(len(prefix))
	for i := len(prefix); i < len(x.points); i++ {
		pt := x.points[i]
		p, d := bp, bd
		switch pt.kind {
		case KThread:
			if pt.costly {
				p++
			}
		case KAnswer:
			d++
		}
		if p > e.cfg.Preemptions || d > e.cfg.Deviations {
			continue
		}
		for alt := 1; alt < pt.n; alt++ {
			child := append(append(make([]int, 0, i+1), x.choices[:i]...), alt)
			cm := mine
			if e.cfg.Of > 1 && depth+1 == e.cfg.ShardDepth {
				cm = e.taskCtr%e.cfg.Of == e.cfg.Shard
				e.taskCtr++
				if !cm {
					continue
				}
			} else if e.cfg.Of > 1 && depth+1 < e.cfg.ShardDepth {
				cm = e.cfg.Shard == 0 // shallow nodes are executed by everyone (to find their children) but owned by shard 0
			}
			e.explore(child, depth+1, cm)
			if e.st.Capped {
				return
			}
		}
	}
}

// ---------------------------------------------------------------------------------------------
// sync API

// Locker mirrors sync.Locker.
type Locker = gosync.Locker

// Pool mirrors sync.Pool with an explorable Get.
type Pool struct {
	New   func() any
	items []any
}

// Get returns a pooled object or a fresh one. Under exploration every legal answer of a real
// sync.Pool is offered: choice 0 = the most recently put object (what an idle single-P sync.Pool
// returns), 1..k-1 = older pooled objects, k = a fresh New() object (pool emptied by GC / other P).
func (p *Pool) Get() any {
	Point("pool.get")
	n := len(p.items)
	k := 0
	if n > 0 {
		k = Choose("pool.answer", n+1)
	} else {
		k = n
	}
	if k < n {
		idx := n - 1 - k
		v := p.items[idx]
		p.items = append(p.items[:idx], p.items[idx+1:]...)
		Logf("pool.get -> pooled object #%d of %d", k, n)
		if cur != nil {
			cur.PoolReuses++
		}
		return v
	}
	Logf("pool.get -> fresh (pool holds %d)", n)
	if cur != nil {
		cur.PoolFresh++
	}
	if p.New != nil {
		return p.New()
	}
	return nil
}

// Put adds x to the pool.
func (p *Pool) Put(x any) {
	Point("pool.put")
	if x == nil {
		return
	}
	p.items = append(p.items, x)
}

// Len reports how many objects the pool holds (harness diagnostics).
func (p *Pool) Len() int { return len(p.items) }

// Map mirrors sync.Map; every operation is a scheduling point followed by the real operation.
type Map struct {
	m   gosync.Map
	reg bool
}

var allMaps []*Map

func (m *Map) touch() {
	if !m.reg {
		m.reg = true
		allMaps = append(allMaps, m)
	}
}

// ResetMaps clears every Map that was ever used (process-global caches must not leak between executions).
func ResetMaps() {
	for _, m := range allMaps {
		m.m.Range(func(k, _ any) bool { m.m.Delete(k); return true })
	}
}

func (m *Map) Load(key any) (any, bool) { m.touch(); Point("map.load"); return m.m.Load(key) }
func (m *Map) Store(key, value any)     { m.touch(); Point("map.store"); m.m.Store(key, value) }
func (m *Map) LoadOrStore(key, value any) (any, bool) {
	m.touch()
	Point("map.loadorstore")
	return m.m.LoadOrStore(key, value)
}
func (m *Map) LoadAndDelete(key any) (any, bool) {
	m.touch()
	Point("map.loadanddelete")
	return m.m.LoadAndDelete(key)
}
func (m *Map) Delete(key any) { m.touch(); Point("map.delete"); m.m.Delete(key) }
func (m *Map) Swap(key, value any) (any, bool) {
	m.touch()
	Point("map.swap")
	return m.m.Swap(key, value)
}
func (m *Map) CompareAndSwap(key, old, new any) bool {
	m.touch()
	Point("map.cas")
	return m.m.CompareAndSwap(key, old, new)
}
func (m *Map) CompareAndDelete(key, old any) bool {
	m.touch()
	Point("map.cad")
	return m.m.CompareAndDelete(key, old)
}
func (m *Map) Range(f func(key, value any) bool) { m.touch(); Point("map.range"); m.m.Range(f) }

// Mutex is a cooperative mutex: a thread waiting for a held lock is disabled.
type Mutex struct{ held bool }

func (m *Mutex) Lock() {
	Point("mutex.lock")
	block("mutex", func() bool { return m.held })
	m.held = true
}
func (m *Mutex) TryLock() bool {
	Point("mutex.trylock")
	if m.held {
		return false
	}
	m.held = true
	return true
}
func (m *Mutex) Unlock() {
	if !m.held {
		panic("sync: unlock of unlocked mutex")
	}
	m.held = false
	Point("mutex.unlock")
}

// RWMutex is a cooperative reader/writer mutex.
type RWMutex struct {
	w bool
	r int
}

func (m *RWMutex) Lock() {
	Point("rwmutex.lock")
	block("rwmutex.w", func() bool { return m.w || m.r > 0 })
	m.w = true
}
func (m *RWMutex) Unlock() {
	if !m.w {
		panic("sync: Unlock of unlocked RWMutex")
	}
	m.w = false
	Point("rwmutex.unlock")
}
func (m *RWMutex) RLock() {
	Point("rwmutex.rlock")
	block("rwmutex.r", func() bool { return m.w })
	m.r++
}
func (m *RWMutex) RUnlock() {
	if m.r <= 0 {
		panic("sync: RUnlock of unlocked RWMutex")
	}
	m.r--
	Point("rwmutex.runlock")
}
func (m *RWMutex) TryLock() bool {
	Point("rwmutex.trylock")
	if m.w || m.r > 0 {
		return false
	}
	m.w = true
	return true
}
func (m *RWMutex) TryRLock() bool {
	Point("rwmutex.tryrlock")
	if m.w {
		return false
	}
	m.r++
	return true
}
func (m *RWMutex) RLocker() Locker { return rlocker{m} }

type rlocker struct{ m *RWMutex }

func (r rlocker) Lock()   { r.m.RLock() }
func (r rlocker) Unlock() { r.m.RUnlock() }

// Once mirrors sync.Once (a second caller waits until the first has finished).
type Once struct {
	done    bool
	running bool
}

func (o *Once) Do(f func()) {
	Point("once.do")
	if o.done {
		return
	}
	if o.running {
		block("once", func() bool { return o.running })
		return
	}
	o.running = true
	defer func() { o.running = false; o.done = true }()
	f()
}

// WaitGroup mirrors sync.WaitGroup.
type WaitGroup struct{ n int }

func (w *WaitGroup) Add(d int) {
	w.n += d
	if w.n < 0 {
		panic("sync: negative WaitGroup counter")
	}
	Point("wg.add")
}
func (w *WaitGroup) Done() { w.Add(-1) }
func (w *WaitGroup) Wait() {
	Point("wg.wait")
	block("wg", func() bool { return w.n > 0 })
}

// OnceFunc / OnceValue mirror the helpers of package sync.
func OnceFunc(f func()) func() {
	var o Once
	return func() { o.Do(f) }
}
func OnceValue[T any](f func() T) func() T {
	var o Once
	var v T
	return func() T { o.Do(func() { v = f() }); return v }
}
