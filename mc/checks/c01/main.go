// C01: wire primitives round-trip exactly; sizes exact. Mode X (exhaustive small-scope enumeration
// on the real Encoder/Decoder).
package main

import (
	"bytes"
	"fmt"
	"runtime"
	"sync/atomic"

	"github.com/CrowdStrike/csproto"

	"verif/mc/checks/codec"
	"verif/mc/lib/ev"
)

const canary = 16

type scratch struct {
	a, b []byte
	tmp  []byte
}

func newScratch(n int) *scratch {
	return &scratch{a: make([]byte, n+2*canary+16), b: make([]byte, n+2*canary+16)}
}

func fill(p []byte, c byte) {
	for i := range p {
		p[i] = c
	}
}

var modes = []csproto.DecoderMode{csproto.DecoderModeSafe, csproto.DecoderModeFast}

// encodeExact runs enc twice on an exactly-sized window carved out of a canary-framed arena
// (different pre-fill each time) and returns the bytes plus a failure description.
func encodeExact(sc *scratch, pred int, enc func(e *csproto.Encoder)) (out []byte, fail string) {
	if len(sc.a) < pred+2*canary+16 {
		sc.a = make([]byte, pred+2*canary+16)
		sc.b = make([]byte, pred+2*canary+16)
	}
	run := func(arena []byte, c byte) (w []byte, f string) {
		fill(arena[:pred+2*canary], c)
		w = arena[canary : canary+pred : canary+pred]
		defer func() {
			if p := recover(); p != nil {
				f = fmt.Sprintf("encoder-panic-on-exact-buffer: %v", p)
			}
		}()
		enc(csproto.NewEncoder(w))
		return w, ""
	}
	w1, f := run(sc.a, 0xA5)
	if f != "" {
		return nil, f
	}
	w2, f := run(sc.b, 0x5A)
	if f != "" {
		return nil, f
	}
	for i := 0; i < canary; i++ {
		if sc.a[i] != 0xA5 || sc.a[canary+pred+i] != 0xA5 || sc.b[i] != 0x5A || sc.b[canary+pred+i] != 0x5A {
			return w1, "overrun-canary-damaged"
		}
	}
	if !bytes.Equal(w1, w2) {
		return w1, "slack-or-unwritten-bytes"
	}
	// cursor check: a following field must land exactly at offset pred
	big := sc.b[: pred+2+canary : pred+2+canary]
	fill(big, 0xEE)
	func() {
		defer func() {
			if p := recover(); p != nil {
				f = fmt.Sprintf("encoder-panic-on-larger-buffer: %v", p)
			}
		}()
		e := csproto.NewEncoder(big)
		enc(e)
		e.EncodeBool(1, true)
	}()
	if f != "" {
		return w1, f
	}
	if !bytes.Equal(big[:pred], w1) || big[pred] != 0x08 || big[pred+1] != 0x01 || big[pred+2] != 0xEE {
		return w1, "cursor-not-advanced-by-predicted-size"
	}
	return w1, ""
}

type caseInfo struct {
	Kind string `json:"kind"`
	Tag  int    `json:"tag"`
	Val  string `json:"value"`
	Mode string `json:"mode,omitempty"`
	Hex  string `json:"bytes,omitempty"`
	Msg  string `json:"msg,omitempty"`
}

func tagClass(tag int) string {
	if tag >= 1<<26 {
		return "num>=2^26"
	}
	return "num<2^26"
}

func checkScalar(r *ev.Run, sc *scratch, k *codec.Scalar, tag int, u uint64) {
	pred := csproto.SizeOfTagKey(tag) + k.Size(u)
	out, f := encodeExact(sc, pred, func(e *csproto.Encoder) { k.Enc(e, tag, u) })
	if f != "" {
		r.Fail("scalar/"+k.Name+"/"+f[:min(len(f), 40)], fmt.Sprintf("%s/tag=%d/v=%#x", k.Name, tag, u),
			caseInfo{Kind: k.Name, Tag: tag, Val: fmt.Sprintf("%#x", u), Hex: fmt.Sprintf("%x", out), Msg: f})
		return
	}
	for _, m := range modes {
		if msg, cls := decodeScalar(k, out, tag, u, m); msg != "" {
			r.Fail("scalar/"+k.Name+"/"+cls+"/"+tagClass(tag), fmt.Sprintf("%s/tag=%d/v=%#x/%s", k.Name, tag, u, m),
				caseInfo{Kind: k.Name, Tag: tag, Val: fmt.Sprintf("%#x", u), Mode: m.String(), Hex: fmt.Sprintf("%x", out), Msg: msg})
			return
		}
	}
}

func decodeScalar(k *codec.Scalar, out []byte, tag int, u uint64, m csproto.DecoderMode) (msg, cls string) {
	defer func() {
		if p := recover(); p != nil {
			msg, cls = fmt.Sprintf("decoder panic: %v", p), "decode-panic"
		}
	}()
	d := csproto.NewDecoder(out)
	d.SetMode(m)
	gt, gw, err := d.DecodeTag()
	if err != nil {
		return "DecodeTag: " + err.Error(), "tag-decode-error"
	}
	if gt != tag || int(gw) != k.WT {
		return fmt.Sprintf("DecodeTag returned (%d,%d)", gt, gw), "tag-mismatch"
	}
	v, err := k.Dec(d)
	if err != nil {
		return "decode: " + err.Error(), "value-decode-error"
	}
	if v != u {
		return fmt.Sprintf("decoded %#x", v), "value-mismatch"
	}
	if d.Offset() != len(out) || d.More() {
		return fmt.Sprintf("offset %d of %d", d.Offset(), len(out)), "not-fully-consumed"
	}
	return "", ""
}

func checkBytes(r *ev.Run, sc *scratch, asString bool, tag int, payload []byte) {
	kind := "bytes"
	if asString {
		kind = "string"
	}
	pred := csproto.SizeOfTagKey(tag) + csproto.SizeOfVarint(uint64(len(payload))) + len(payload)
	s := string(payload)
	orig := append([]byte{}, payload...)
	out, f := encodeExact(sc, pred, func(e *csproto.Encoder) {
		if asString {
			e.EncodeString(tag, s)
		} else {
			e.EncodeBytes(tag, payload)
		}
	})
	id := fmt.Sprintf("%s/tag=%d/len=%d", kind, tag, len(payload))
	if f == "" && !bytes.Equal(orig, payload) {
		f = "the encoder modified the slice it was given"
	}
	if f != "" {
		r.Fail("scalar/"+kind+"/"+f[:min(len(f), 40)], id, caseInfo{Kind: kind, Tag: tag, Val: fmt.Sprintf("len=%d", len(payload)), Msg: f})
		return
	}
	for _, m := range modes {
		msg, cls := func() (msg, cls string) {
			defer func() {
				if p := recover(); p != nil {
					msg, cls = fmt.Sprintf("decoder panic: %v", p), "decode-panic"
				}
			}()
			d := csproto.NewDecoder(out)
			d.SetMode(m)
			gt, gw, err := d.DecodeTag()
			if err != nil {
				return "DecodeTag: " + err.Error(), "tag-decode-error"
			}
			if gt != tag || gw != csproto.WireTypeLengthDelimited {
				return fmt.Sprintf("DecodeTag returned (%d,%d)", gt, gw), "tag-mismatch"
			}
			var got []byte
			if asString {
				var gs string
				gs, err = d.DecodeString()
				got = []byte(gs)
			} else {
				got, err = d.DecodeBytes()
			}
			if err != nil {
				return "decode: " + err.Error(), "value-decode-error"
			}
			if !bytes.Equal(got, payload) {
				return "payload differs", "value-mismatch"
			}
			if d.Offset() != len(out) || d.More() {
				return fmt.Sprintf("offset %d of %d", d.Offset(), len(out)), "not-fully-consumed"
			}
			// the same field followed by another one, in a buffer with spare capacity: the value must end where
			// its declared length ends, and the next field must still be readable
			more := make([]byte, len(out)+2, len(out)+16)
			copy(more, out)
			more[len(out)], more[len(out)+1] = 0x08, 0x01
			for i := len(more); i < cap(more); i++ {
				more[:cap(more)][i] = 'Z'
			}
			d = csproto.NewDecoder(more)
			d.SetMode(m)
			if _, _, err = d.DecodeTag(); err != nil {
				return "DecodeTag (field followed by another): " + err.Error(), "tag-decode-error"
			}
			if asString {
				var gs string
				gs, err = d.DecodeString()
				got = []byte(gs)
			} else {
				got, err = d.DecodeBytes()
			}
			if err != nil || !bytes.Equal(got, payload) {
				return fmt.Sprintf("value followed by another field: err=%v, %d bytes returned, %d expected", err, len(got), len(payload)), "value-mismatch-when-followed"
			}
			if nt, nw, err := d.DecodeTag(); err != nil || nt != 1 || nw != csproto.WireTypeVarint {
				return fmt.Sprintf("following field: tag=%d wt=%d err=%v", nt, nw, err), "following-field-unreadable"
			}
			if b, err := d.DecodeBool(); err != nil || !b || d.Offset() != len(more) {
				return fmt.Sprintf("following field value: %v err=%v offset=%d/%d", b, err, d.Offset(), len(more)), "following-field-unreadable"
			}
			return "", ""
		}()
		if msg != "" {
			r.Fail("scalar/"+kind+"/"+cls+"/"+tagClass(tag), id+"/"+m.String(), caseInfo{Kind: kind, Tag: tag, Val: fmt.Sprintf("len=%d", len(payload)), Mode: m.String(), Msg: msg})
			return
		}
	}
}

func elemClass(k *codec.Scalar, vs []uint64) string {
	for _, v := range vs {
		if int64(v) < 0 && (k.Name == "int32" || k.Name == "int64") {
			return "has-negative"
		}
	}
	return "plain"
}

func checkPacked(r *ev.Run, sc *scratch, p *codec.Packed, tag int, vs []uint64) {
	k := codec.ScalarByName(p.Elem)
	pl := 0
	for _, v := range vs {
		pl += k.Size(v)
	}
	pred := 0
	if len(vs) > 0 {
		pred = csproto.SizeOfTagKey(tag) + csproto.SizeOfVarint(uint64(pl)) + pl
	}
	out, f := encodeExact(sc, pred, func(e *csproto.Encoder) { p.Enc(e, tag, vs) })
	id := fmt.Sprintf("%s/tag=%d/n=%d/first=%#x", p.Name, tag, len(vs), first(vs))
	if f != "" {
		r.Fail("packed/"+p.Name+"/"+f[:min(len(f), 40)], id, caseInfo{Kind: p.Name, Tag: tag, Val: fmt.Sprintf("%x", vs[:min(len(vs), 8)]), Msg: f})
		return
	}
	if len(vs) == 0 {
		return
	}
	for _, m := range modes {
		msg, cls := func() (msg, cls string) {
			defer func() {
				if p := recover(); p != nil {
					msg, cls = fmt.Sprintf("decoder panic: %v", p), "decode-panic"
				}
			}()
			d := csproto.NewDecoder(out)
			d.SetMode(m)
			gt, gw, err := d.DecodeTag()
			if err != nil {
				return "DecodeTag: " + err.Error(), "tag-decode-error"
			}
			if gt != tag || gw != csproto.WireTypeLengthDelimited {
				return fmt.Sprintf("DecodeTag returned (%d,%d)", gt, gw), "tag-mismatch"
			}
			got, err := p.Dec(d)
			if err != nil {
				return "decode: " + err.Error(), "value-decode-error"
			}
			if len(got) != len(vs) {
				return fmt.Sprintf("decoded %d elements, wrote %d", len(got), len(vs)), "value-mismatch"
			}
			for i := range got {
				if got[i] != vs[i] {
					return fmt.Sprintf("element %d: decoded %#x wrote %#x", i, got[i], vs[i]), "value-mismatch"
				}
			}
			if d.Offset() != len(out) || d.More() {
				return fmt.Sprintf("offset %d of %d", d.Offset(), len(out)), "not-fully-consumed"
			}
			return "", ""
		}()
		if msg != "" {
			r.Fail("packed/"+p.Name+"/"+cls+"/"+elemClass(k, vs)+"/"+tagClass(tag), id+"/"+m.String(),
				caseInfo{Kind: p.Name, Tag: tag, Val: fmt.Sprintf("%x", vs[:min(len(vs), 8)]), Mode: m.String(), Hex: fmt.Sprintf("%x", out[:min(len(out), 64)]), Msg: msg})
			return
		}
	}
}

func first(vs []uint64) uint64 {
	if len(vs) == 0 {
		return 0
	}
	return vs[0]
}

func main() {
	r := ev.Start("C01", "exploration")
	ev.BigHeap(512 << 20)
	workers := runtime.NumCPU()
	bnd := codec.BoundaryBits()
	tags := codec.BoundaryTags(4096)
	fewTags := []int{1, 15, 16, 2047, 2048, 1<<26 - 1, 1 << 26, 1<<29 - 1}
	var cases, nontriv atomic.Int64

	// --- scalars: (value set) x (few tags) and (all boundary tags) x (few values)
	var values []uint64
	values = append(values, bnd...)
	for x := uint64(0); x < 1<<16; x++ {
		values = append(values, x, x<<16, x<<48, ^x, ^(x << 16))
	}
	r.Set("scalar_value_set", len(values))
	r.Set("boundary_tags", len(tags))
	ev.Parallel(len(codec.Scalars)*len(fewTags), workers, func(s int) {
		k := &codec.Scalars[s/len(fewTags)]
		tag := fewTags[s%len(fewTags)]
		sc := newScratch(64)
		var n int64
		for _, raw := range values {
			checkScalar(r, sc, k, tag, k.Norm(raw))
			n++
		}
		cases.Add(n)
		nontriv.Add(n)
	})
	ev.Parallel(len(codec.Scalars), workers, func(s int) {
		k := &codec.Scalars[s]
		sc := newScratch(64)
		var n int64
		for _, tag := range tags {
			for _, raw := range []uint64{0, 1, 0x80, ^uint64(0), 1 << 63, 0x7fffffff} {
				checkScalar(r, sc, k, tag, k.Norm(raw))
				n++
			}
		}
		cases.Add(n)
		nontriv.Add(n)
	})
	r.Sample(map[string]any{"kind": "sint32", "tag": 16, "value": "0xffffffff80000000", "note": "every case: exact-size buffer, two pre-fills, following sentinel field, decode in safe and fast mode"})

	// --- strings / bytes
	lens := []int{0, 1, 2, 127, 128, 129, 16383, 16384, 16385}
	if r.Thorough() {
		lens = append(lens, 1<<21-1, 1<<21, 1<<21+1)
	}
	ev.Parallel(len(lens)*2, workers, func(s int) {
		l := lens[s/2]
		asString := s%2 == 0
		payload := make([]byte, l)
		for i := range payload {
			payload[i] = byte(i*7 + 0x80) // includes 0x00, 0xff, invalid UTF-8
		}
		sc := newScratch(l + 16)
		var n int64
		for _, tag := range fewTags {
			checkBytes(r, sc, asString, tag, payload)
			n++
		}
		cases.Add(n)
		nontriv.Add(n)
	})
	r.Sample(map[string]any{"kind": "string", "tag": 2048, "len": 16384})

	// --- EncodeRaw (re-emission of retained bytes): writes exactly the bytes given, at the cursor, and advances the
	// cursor by their number; exercised alone, after another field and followed by a sentinel field (encodeExact)
	rawLens := []int{0, 1, 2, 3, 127, 128, 16384}
	ev.Parallel(len(rawLens), workers, func(s int) {
		l := rawLens[s]
		raw := make([]byte, l)
		for i := range raw {
			raw[i] = byte(i*13 + 0x81)
		}
		sc := newScratch(l + 32)
		for _, before := range []bool{false, true} {
			pred := l
			if before {
				pred += 2 // EncodeBool(2, true)
			}
			out, f := encodeExact(sc, pred, func(e *csproto.Encoder) {
				if before {
					e.EncodeBool(2, true)
				}
				e.EncodeRaw(raw)
			})
			id := fmt.Sprintf("raw/len=%d/after-field=%v", l, before)
			if f == "" && !bytes.Equal(out[pred-l:], raw) {
				f = "raw-bytes-not-written-verbatim"
			}
			if f != "" {
				r.Fail("raw/"+f[:min(len(f), 40)], id, caseInfo{Kind: "raw", Val: fmt.Sprintf("len=%d", l), Msg: f})
			}
			cases.Add(1)
			if l > 0 {
				nontriv.Add(1)
			}
		}
	})

	// --- packed lists
	plens := []int{0, 1, 2, 3, 15, 16, 17, 31, 32, 33, 127, 128, 129, 2048}
	if r.Thorough() {
		plens = append(plens, 16383, 16384, 16385, 1<<18+1)
	}
	ptags := []int{1, 16, 2048, 1<<29 - 1}
	ev.Parallel(len(codec.Packeds)*len(plens), workers, func(s int) {
		p := &codec.Packeds[s/len(plens)]
		k := codec.ScalarByName(p.Elem)
		l := plens[s%len(plens)]
		sc := newScratch(l*10 + 32)
		var n int64
		if l == 0 {
			for _, tag := range ptags {
				checkPacked(r, sc, p, tag, nil)
				checkPacked(r, sc, p, tag, []uint64{})
				n += 2
			}
			cases.Add(n)
			return
		}
		vs := make([]uint64, l)
		// (a) constant lists of each boundary value
		dedup := map[uint64]bool{}
		for _, raw := range bnd {
			u := k.Norm(raw)
			if dedup[u] {
				continue
			}
			dedup[u] = true
			if l > 200 && len(dedup)%8 != 1 { // long lists: every 8th boundary value (stated in the rule)
				continue
			}
			for i := range vs {
				vs[i] = u
			}
			for _, tag := range ptags {
				checkPacked(r, sc, p, tag, vs)
				n++
			}
		}
		// (b) mixed lists cycling through the boundary set from every starting phase (phase < 64)
		for phase := 0; phase < 64 && phase < len(bnd); phase++ {
			for i := range vs {
				vs[i] = k.Norm(bnd[(phase+i*5)%len(bnd)])
			}
			checkPacked(r, sc, p, ptags[phase%len(ptags)], vs)
			n++
		}
		cases.Add(n)
		nontriv.Add(n)
	})
	r.Sample(map[string]any{"kind": "packed_int32", "tag": 1, "elements": []int64{-1, -1, -1}, "note": "constant and mixed lists of lengths 0..2048 over boundary elements incl. negatives"})

	// --- thorough: all 2^32 values of every 32-bit kind, all 2^29-1 field numbers x 4 wire types
	if r.Thorough() {
		const shards = 1024
		for ki := range codec.Scalars {
			k := &codec.Scalars[ki]
			if !k.Bits32 {
				continue
			}
			ev.Parallel(shards, workers, func(s int) {
				sc := newScratch(64)
				lo := uint64(s) << 22
				for x := lo; x < lo+1<<22; x++ {
					checkScalar(r, sc, k, 1, k.Norm(x))
				}
				cases.Add(1 << 22)
				nontriv.Add(1 << 22)
			})
			r.AddTo("full_2^32_domains_completed", 1)
		}
		// packed element: every 2^32 value as the single element / in a 3-list for the varint packed kinds
		for _, pn := range []string{"packed_int32", "packed_uint32", "packed_sint32", "packed_float"} {
			var p *codec.Packed
			for i := range codec.Packeds {
				if codec.Packeds[i].Name == pn {
					p = &codec.Packeds[i]
				}
			}
			k := codec.ScalarByName(p.Elem)
			ev.Parallel(shards, workers, func(s int) {
				sc := newScratch(64)
				lo := uint64(s) << 22
				vs := make([]uint64, 2)
				for x := lo; x < lo+1<<22; x++ {
					vs[0], vs[1] = k.Norm(x), k.Norm(^x)
					checkPacked(r, sc, p, 1, vs)
				}
				cases.Add(1 << 22)
				nontriv.Add(1 << 22)
			})
			r.AddTo("full_2^32_packed_element_domains_completed", 1)
		}
		wtKinds := []*codec.Scalar{codec.ScalarByName("uint64"), codec.ScalarByName("fixed64"), codec.ScalarByName("fixed32")}
		ev.Parallel(shards, workers, func(s int) {
			sc := newScratch(64)
			per := (1 << 29) / shards
			lo := s * per
			var n int64
			for tag := lo; tag < lo+per; tag++ {
				if tag == 0 {
					continue
				}
				for _, k := range wtKinds {
					checkScalar(r, sc, k, tag, 300)
					n++
				}
				checkBytes(r, sc, false, tag, []byte{0xAB})
				n++
			}
			cases.Add(n)
			nontriv.Add(n)
		})
		r.Set("all_field_numbers_x_4_wire_types", true)
		// 64-bit kinds: (bit-length class x top pattern) x all 2^16 low words
		for _, kn := range []string{"int64", "uint64", "sint64", "fixed64", "double"} {
			k := codec.ScalarByName(kn)
			ev.Parallel(65*4, workers, func(s int) {
				b, pat := uint(s/4), s%4
				sc := newScratch(64)
				var base uint64
				if b > 0 {
					base = 1 << (b - 1)
				}
				var n int64
				for x := uint64(0); x < 1<<16; x++ {
					var u uint64
					switch pat {
					case 0:
						u = base | x
					case 1:
						u = ^(base | x)
					case 2:
						u = base | x<<uint(b/2)
					case 3:
						u = (base | x) * 0x9E3779B97F4A7C15 >> (64 - max(b, 1)) // deterministic spread inside the class
					}
					checkScalar(r, sc, k, 1<<29-1, u)
					n++
				}
				cases.Add(n)
				nontriv.Add(n)
			})
		}
	}

	r.Evals(cases.Load())
	r.Nontrivial(nontriv.Load())
	r.Rule("deterministic enumeration; one case = (kind, field number, value[, list]) encoded with the real Encoder into an exactly-sized canary-framed window (twice, different pre-fill; plus once followed by a sentinel field) and decoded with the real Decoder in safe and fast mode. Cases are pairwise distinct by construction of the enumerators (value sets are deduplicated per kind only approximately: Norm may map two raw patterns to one value, so distinct_nontrivial counts only cases with non-empty output; empty packed lists are counted in evaluations only). Long constant packed lists (>200) use every 8th boundary value. ROUND 8 ADDITIONS: the encoders must leave their slice arguments (and the capacity behind them) untouched; the whole check is also built and run for GOARCH=386.")
	r.Assume("key and payload are produced by separate calls in encoder.go, so (all field numbers x few values) U (all values x few field numbers) covers the product")
	r.Assume("64-bit kinds are covered by bit-length/boundary classes and 2^16-word sweeps, not all 2^64 values")
	r.Finish()
}
