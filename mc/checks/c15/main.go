//go:build verifshim

// C15: one lazy Decoder shared by concurrent goroutines. Mode S + E: all interleavings of 2-3
// threads at the scheduling points (every sync.Pool operation + every API-call boundary + between
// an accessor call and the use of its result) up to a preemption bound, x every pool answer up to a
// deviation bound, on the real lazyproto code. A separate free-running -race pass complements it.
package main

import (
	"encoding/json"
	"fmt"
	"os"
	"os/exec"
	"runtime"
	"runtime/debug"
	"sort"
	"strings"

	"github.com/CrowdStrike/csproto"
	"github.com/CrowdStrike/csproto/lazyproto"
	vsync "github.com/CrowdStrike/csproto/zzverif/vsync"

	"verif/mc/lib/ev"
	"verif/mc/lib/lazyref"
	"verif/mc/lib/refwire"
)

func key(n, wt int) []byte      { return refwire.AppendKey(nil, n, wt) }
func vi(n int, v uint64) []byte { return refwire.AppendVarint(key(n, 0), v) }
func ln(n int, p []byte) []byte { return refwire.AppendBytes(key(n, 2), p) }

func theDef() lazyproto.Def {
	d := lazyproto.NewDef(1, 3, -2)
	n := d.NestedTag(2, 1)
	n.NestedTag(2, 1)
	return d
}

// mkInput builds an input unique to (thread, iteration): distinct repeat counts, values, nested counts.
func mkInput(t, it int) []byte {
	var b []byte
	reps := 1 + 2*t + 3*it
	for k := 0; k < reps; k++ {
		v := uint64(10000*(t+1) + 100*it + k)
		if (k+t)%3 == 1 {
			v = 0 // false for BoolValues, at thread-dependent positions
		}
		b = append(b, vi(1, v)...)
	}
	nn := (t + 2*it) % 4
	for k := 0; k < nn; k++ {
		inner := vi(1, uint64(500000*(t+1)+1000*it+k))
		if k == 1 {
			inner = nil // a present but EMPTY nested message (lazyproto hands out a special empty result for it)
		}
		if k%2 == 0 {
			inner = append(inner, ln(2, vi(1, uint64(7000000*(t+1)+it)))...)
		}
		b = append(b, ln(2, inner)...)
	}
	if t == 0 && it == 0 {
		// thread 0's first input: three nested elements, the SECOND one malformed (a key without a value) inside a
		// well-formed outer message: NestedResults fails half-way for this thread only
		b = append(b, ln(2, vi(1, 901))...)
		b = append(b, ln(2, []byte{0x08})...)
		b = append(b, ln(2, vi(1, 903))...)
	}
	if t == 1 && it == 0 {
		// thread 1's first input ends with TWO empty nested elements (each must get a result of its own: whatever is
		// shared between them goes back to the pool twice when the parent is closed)
		b = append(b, ln(2, nil)...)
		b = append(b, ln(2, nil)...)
	}
	b = append(b, ln(3, []byte(fmt.Sprintf("thread-%d-iteration-%d", t, it)))...)
	return b
}

// rejectedInput: a valid prefix (two values of tag 1, a string) followed by a truncated varint. The last thread offers it
// to the shared decoder before its own work: the decode must fail, and nothing of the accepted prefix may show up in any
// later result of any thread.
func rejectedInput() []byte {
	var b []byte
	b = append(b, vi(1, 999999)...)
	b = append(b, vi(1, 0)...)
	b = append(b, ln(3, []byte("from-the-rejected-input"))...)
	b = append(b, ln(2, vi(1, 424242))...)
	return append(b, 0x08, 0x80)
}

type scenario struct {
	name      string
	threads   int
	iters     int
	mode      csproto.DecoderMode
	maxBuffer int
	// flat: the pool-focused scenario - inputs without nested messages, each iteration is Decode . read tag 1 . Close with
	// as few scheduling points as possible, and the pool is warmed with two results before the threads start. Few points
	// per iteration make a HIGHER preemption bound affordable: the windows inside a pool implementation (a lock-free
	// free list, say: load head, load next, compare-and-swap) need three preemptions among three threads.
	flat bool
}

func (s scenario) String() string {
	if s.flat {
		return fmt.Sprintf("pool-focused %dthr x %diter/%s/maxBuffer=%d", s.threads, s.iters, s.mode, s.maxBuffer)
	}
	return fmt.Sprintf("%dthr x %diter/%s/maxBuffer=%d", s.threads, s.iters, s.mode, s.maxBuffer)
}

type objIDs struct {
	m map[*lazyproto.DecodeResult]int
}

func (o *objIDs) id(r *lazyproto.DecodeResult) int {
	if v, ok := o.m[r]; ok {
		return v
	}
	o.m[r] = len(o.m)
	return o.m[r]
}

var readAccs []lazyref.Accessor

func init() {
	for _, a := range lazyref.BuildAccessors() {
		switch a.Name {
		case "UInt64Values", "Int32Values", "BoolValues", "StringValues", "BytesValues", "StringValue", "UInt64Value", "Fixed32Values":
			readAccs = append(readAccs, a)
		}
	}
}

// read calls each accessor, yields to the scheduler, and only then compares: a value handed out must
// still be right when the caller looks at it after other threads have run.
func read(t int, what string, r *lazyproto.DecodeResult, def lazyproto.Def, fields map[int][]lazyref.Occ, tags []int) {
	flat, _ := lazyref.AbsTags(def)
	for _, tag := range tags {
		occs := fields[tag]
		var presence lazyref.ErrClass
		switch {
		case !flat[tag]:
			presence = lazyref.ENotDefined
		case len(occs) == 0:
			presence = lazyref.ENotFound
		}
		for ai := range readAccs {
			a := &readAccs[ai]
			var want lazyref.Val
			wantErr := presence
			if wantErr == lazyref.ENone {
				want, wantErr = lazyref.Expected(a, occs)
			}
			got, err := a.ViaRes(r, tag)
			if !lazyref.ClassOK(err, wantErr) {
				vsync.Failf("isolation/"+a.Name+"/wrong-error", "T%d %s tag %d: error %v value %v, expected %s %v", t, what, tag, err, got, wantErr, want)
				continue
			}
			if wantErr == lazyref.ENone && !lazyref.SameVal(got, want) {
				vsync.Failf("isolation/"+a.Name+"/wrong-value", "T%d %s tag %d: got %v, own input has %v", t, what, tag, got, want)
			}
		}
		// raw values are kept across a scheduling point and re-checked
		retainF := lazyref.Retain
		if safeMode {
			retainF = lazyref.RetainAll
		}
		x := retainF(r, tag, fmt.Sprintf("T%d %s tag %d", t, what, tag))
		vsync.Point("api:after-accessors")
		if m := x.Verify(); m != "" {
			vsync.Failf("isolation/value-changed-while-other-threads-ran", "%s", m)
		}
	}
}

// safeMode: the scenario being explored decodes in safe mode (set per scenario; one scenario runs at a time)
var safeMode bool

func mkFlatHarness(sc scenario) func() vsync.Harness {
	safeMode = sc.mode == csproto.DecoderModeSafe
	def := theDef()
	flatInput := func(t, it int) []byte {
		var b []byte
		for k := 0; k <= (t+it)%3; k++ {
			b = append(b, vi(1, uint64(1000*(t+1)+10*it+k))...)
		}
		return append(b, ln(3, []byte(fmt.Sprintf("flat-%d-%d", t, it)))...)
	}
	return func() vsync.Harness {
		opts := []lazyproto.Option{lazyproto.WithMode(sc.mode)}
		if sc.maxBuffer >= 0 {
			opts = append(opts, lazyproto.WithMaxBufferSize(sc.maxBuffer))
		}
		dec, err := lazyproto.NewDecoder(def, opts...)
		if err != nil {
			panic(err)
		}
		// warm the pool: two results alive at once, then both closed
		w1, e1 := dec.Decode(flatInput(7, 0))
		w2, e2 := dec.Decode(flatInput(8, 0))
		if e1 != nil || e2 != nil {
			panic("warm-up decode failed")
		}
		_ = w1.Close()
		_ = w2.Close()
		ids := &objIDs{m: map[*lazyproto.DecodeResult]int{}}
		got := make([][]int, sc.threads)
		var bodies []func()
		for t := 0; t < sc.threads; t++ {
			t := t
			bodies = append(bodies, func() {
				defer func() {
					if p := recover(); p != nil {
						if fmt.Sprintf("%T", p) == "vsync.abortExec" {
							panic(p)
						}
						vsync.Failf("panic", "T%d: %v | %s", t, p, shortStack())
					}
				}()
				for it := 0; it < sc.iters; it++ {
					// two results alive at once, closed in the order they were obtained (first the older one): more Get / Put
					// traffic per thread, so that the windows of a pool implementation need fewer threads and preemptions
					inA, inB := flatInput(t, 2*it), flatInput(t, 2*it+1)
					fA, _ := lazyref.RefFields(inA)
					fB, _ := lazyref.RefFields(inB)
					vsync.Point("api:Decode")
					resA, err := dec.Decode(append([]byte{}, inA...))
					if err != nil || resA == nil {
						vsync.Failf("decode-error", "T%d it%d: %v", t, it, err)
						return
					}
					vsync.Point("api:Decode")
					resB, err := dec.Decode(append([]byte{}, inB...))
					if err != nil || resB == nil {
						vsync.Failf("decode-error", "T%d it%d: %v", t, it, err)
						return
					}
					if resA == resB {
						vsync.Failf("isolation/same-object-handed-out-twice", "T%d it%d: two live results are the same object", t, it)
						return
					}
					got[t] = append(got[t], ids.id(resA), ids.id(resB))
					read(t, fmt.Sprintf("it%d a", it), resA, def, fA, []int{1})
					vsync.Point("api:Close")
					if err := resA.Close(); err != nil {
						vsync.Failf("close-error", "%v", err)
					}
					read(t, fmt.Sprintf("it%d b", it), resB, def, fB, []int{1})
					vsync.Point("api:Close")
					if err := resB.Close(); err != nil {
						vsync.Failf("close-error", "%v", err)
					}
				}
			})
		}
		final := func() {
			var parts []string
			for t := range got {
				parts = append(parts, fmt.Sprint(got[t]))
			}
			vsync.SetOutcome(strings.Join(parts, "|"))
		}
		return vsync.Harness{Threads: bodies, Final: final}
	}
}

func mkHarness(sc scenario) func() vsync.Harness {
	if sc.flat {
		return mkFlatHarness(sc)
	}
	safeMode = sc.mode == csproto.DecoderModeSafe
	def := theDef()
	inputs := make([][][]byte, sc.threads)
	refs := make([][]map[int][]lazyref.Occ, sc.threads)
	for t := 0; t < sc.threads; t++ {
		for it := 0; it < sc.iters; it++ {
			b := mkInput(t, it)
			f, ok := lazyref.RefFields(b)
			if !ok {
				panic("bad input")
			}
			inputs[t] = append(inputs[t], b)
			refs[t] = append(refs[t], f)
		}
	}
	return func() vsync.Harness {
		opts := []lazyproto.Option{lazyproto.WithMode(sc.mode)}
		if sc.maxBuffer >= 0 {
			opts = append(opts, lazyproto.WithMaxBufferSize(sc.maxBuffer))
		}
		dec, err := lazyproto.NewDecoder(def, opts...)
		if err != nil {
			panic(err)
		}
		ids := &objIDs{m: map[*lazyproto.DecodeResult]int{}}
		got := make([][]int, sc.threads)
		var bodies []func()
		for t := 0; t < sc.threads; t++ {
			t := t
			bodies = append(bodies, func() {
				defer func() {
					if p := recover(); p != nil {
						if fmt.Sprintf("%T", p) == "vsync.abortExec" {
							panic(p)
						}
						vsync.Failf("panic", "T%d: %v | %s", t, p, shortStack())
					}
				}()
				if t == sc.threads-1 {
					vsync.Point("api:Decode(rejected input)")
					bad := rejectedInput()
					if res, err := dec.Decode(bad); err == nil {
						// the lazy decoder may accept what it does not look at; then the result is simply closed
						_ = res.Close()
					}
				}
				for it := 0; it < sc.iters; it++ {
					buf := append([]byte{}, inputs[t][it]...)
					f := refs[t][it]
					vsync.Point("api:Decode")
					res, err := dec.Decode(buf)
					if err != nil || res == nil {
						vsync.Failf("decode-error", "T%d it%d: %v", t, it, err)
						return
					}
					got[t] = append(got[t], ids.id(res))
					if sc.mode == csproto.DecoderModeSafe {
						for i := range buf {
							buf[i] = 0xEE
						}
					}
					what := fmt.Sprintf("it%d", it)
					read(t, what, res, def, f, []int{1, 2, 3})
					vsync.Point("api:NestedResults")
					occs := f[2]
					nrs, err := res.NestedResults(2)
					if len(occs) == 0 {
						if !lazyref.ClassOK(err, lazyref.ENotFound) {
							vsync.Failf("isolation/NestedResults/stale", "T%d %s: no nested messages in own input, got (%d, %v)", t, what, len(nrs), err)
						}
					} else if !allWellFormed(occs) {
						// a malformed nested element: an error is the expected answer; whatever is returned is not read
					} else if err != nil || len(nrs) != len(occs) {
						vsync.Failf("isolation/NestedResults/wrong-count", "T%d %s: %d results, err %v; own input has %d", t, what, len(nrs), err, len(occs))
					} else {
						for i, nr := range nrs {
							sf, _ := lazyref.RefFields(occs[i].Payload)
							read(t, fmt.Sprintf("%s nested%d", what, i), nr, def[2], sf, []int{1, 2})
							if len(sf[2]) > 0 {
								vsync.Point("api:NestedResult")
								nn, err := nr.NestedResult(2)
								if err != nil {
									vsync.Failf("isolation/NestedResult/error", "T%d %s nested%d: %v", t, what, i, err)
								} else {
									ssf, _ := lazyref.RefFields(sf[2][len(sf[2])-1].Payload)
									read(t, fmt.Sprintf("%s nested%d.2", what, i), nn, def[2][2], ssf, []int{1})
								}
							}
						}
					}
					// thread 0 is a consumer that closes the nested results it was handed before it closes the root (allowed:
					// Close on a nested result leaves it to its owner). Whatever that does, the objects stay this thread's
					// until the root is closed: nobody else may be handed them in between.
					if t == 0 && err == nil && len(nrs) > 0 && allWellFormed(occs) {
						vsync.Point("api:Close(nested results)")
						for _, nr := range nrs {
							if cerr := nr.Close(); cerr != nil {
								vsync.Failf("close-error", "nested: %v", cerr)
							}
						}
					}
					vsync.Point("api:Close")
					if err := res.Close(); err != nil {
						vsync.Failf("close-error", "%v", err)
					}
				}
			})
		}
		final := func() {
			var parts []string
			for t := range got {
				parts = append(parts, fmt.Sprint(got[t]))
			}
			vsync.SetOutcome(strings.Join(parts, "|"))
		}
		return vsync.Harness{Threads: bodies, Final: final}
	}
}

func allWellFormed(occs []lazyref.Occ) bool {
	for _, o := range occs {
		if _, ok := lazyref.RefFields(o.Payload); !ok {
			return false
		}
	}
	return true
}

func shortStack() string {
	var keep []string
	for _, l := range strings.Split(string(debug.Stack()), "\n") {
		if strings.Contains(l, "/lazyproto/") || strings.Contains(l, "csproto.") {
			keep = append(keep, strings.TrimSpace(l))
		}
		if len(keep) >= 8 {
			break
		}
	}
	return strings.Join(keep, " <- ")
}

type plan struct {
	sc     scenario
	pb, db int
}

func plans(thorough bool) []plan {
	var out []plan
	for _, m := range []csproto.DecoderMode{csproto.DecoderModeSafe, csproto.DecoderModeFast} {
		for _, mb := range []int{-1, 1} {
			if thorough {
				out = append(out,
					plan{scenario{"2x2", 2, 2, m, mb, false}, 3, 2},
					plan{scenario{"3x1", 3, 1, m, mb, false}, 3, 2},
					plan{scenario{"3x2", 3, 2, m, mb, false}, 2, 1})
			} else {
				out = append(out,
					plan{scenario{"2x2", 2, 2, m, mb, false}, 2, 1},
					plan{scenario{"3x1", 3, 1, m, mb, false}, 2, 1})
			}
			if mb == -1 {
				out = append(out, plan{scenario{"pool2x2", 2, 2, m, mb, true}, 3, 1}, plan{scenario{"pool3x1", 3, 1, m, mb, true}, 2, 1})
			}
		}
	}
	return out
}

func worker(sh *ev.Shard) {
	pls := plans(sh.Thorough())
	// determinism proof: one non-trivial schedule replayed twice must give identical traces
	{
		mk := mkHarness(pls[0].sc)
		d := vsync.RunOne(nil, mk)
		pre := append([]int{}, d.Choices()...)
		for i, cut := range []int{len(pre) / 3, 2 * len(pre) / 3} { // deviate at two places of the default schedule
			if cut < len(pre) && d.Alternatives()[cut] > 1 {
				pre = append(pre[:cut:cut], 1)
				d = vsync.RunOne(pre, mk)
				pre = append([]int{}, d.Choices()...)
			}
			_ = i
		}
		a := vsync.RunOne(pre, mk)
		b := vsync.RunOne(a.Choices(), mk)
		if strings.Join(a.Trace, "\n") != strings.Join(b.Trace, "\n") || a.Outcome != b.Outcome {
			sh.Internal("replay of one schedule is not deterministic")
		}
		if sh.Index == 0 {
			tr := a.Trace
			if len(tr) > 40 {
				tr = tr[:40]
			}
			sh.Sample(map[string]any{"scenario": pls[0].sc.String(), "choices": a.Choices(), "trace_head": tr, "outcome": a.Outcome})
		}
	}
	for _, pl := range pls {
		sh.Cur("scenario", pl.sc.String())
		mk := mkHarness(pl.sc)
		st := vsync.Explore(vsync.Config{Preemptions: pl.pb, Deviations: pl.db, Shard: sh.Index, Of: sh.N, ShardDepth: 2, OnExec: func(*vsync.Exec) { sh.Tick() }}, mk)
		if st.Diverged > 0 {
			sh.Count("replay_diverged", st.Diverged)
		}
		sh.Count("traces", st.Execs)
		sh.Count("states", st.Points)
		sh.Count("transitions", st.Points)
		sh.Count("evals", st.Execs)
		sh.Count("nontrivial", st.WithReuse)
		sh.Count("executions/"+pl.sc.name, st.Execs)
		for k, v := range st.ByCost {
			sh.Count(fmt.Sprintf("executions_preemptions=%d_pooldeviations=%d", k[0], k[1]), v)
		}
		var outs []string
		for o := range st.Outcomes {
			outs = append(outs, o)
		}
		sort.Strings(outs)
		sh.Count("distinct_object_assignment_outcomes(sum over shards)/"+pl.sc.String(), int64(len(outs)))
		if len(outs) > 0 && sh.Index == 1 {
			sh.Sample(map[string]any{"scenario": pl.sc.String(), "example_outcomes(object ids per thread)": outs[:min(4, len(outs))]})
		}
		for sig, n := range st.FailsBySig {
			x := st.FailExample[sig]
			tr := vsync.RunOne(x.Choices(), mk)
			det := map[string]any{"scenario": pl.sc.String(), "preemption_bound": pl.pb, "deviation_bound": pl.db, "choices": x.Choices(), "failures": x.Fails, "trace": tr.Trace, "executions_failing": n, "replay_reproduces": len(tr.Fails) > 0}
			sh.Fail(sig+"/"+pl.sc.mode.String()+fmt.Sprintf("/maxBuffer=%d", pl.sc.maxBuffer), fmt.Sprintf("%s choices=%v", pl.sc, x.Choices()), det)
		}
	}
	sh.Done()
}

// replay re-executes exactly one recorded schedule (scenario + choice sequence) with tracing on.
func replay(path string) {
	b, err := os.ReadFile(path)
	if err != nil {
		fmt.Println("cannot read replay file:", err)
		os.Exit(2)
	}
	var art struct {
		Detail struct {
			Scenario string `json:"scenario"`
			Choices  []int  `json:"choices"`
		} `json:"detail"`
	}
	if err := json.Unmarshal(b, &art); err != nil || art.Detail.Scenario == "" {
		fmt.Println("not a C15 schedule replay artefact (race-pass reports carry the race detector output instead):", err)
		os.Exit(2)
	}
	for _, pl := range append(plans(false), plans(true)...) {
		if pl.sc.String() != art.Detail.Scenario {
			continue
		}
		x := vsync.RunOne(art.Detail.Choices, mkHarness(pl.sc))
		for _, l := range x.Trace {
			fmt.Println(l)
		}
		if len(x.Fails) > 0 {
			for _, f := range x.Fails {
				fmt.Printf("FAILURE %s: %s\n", f.Sig, f.Detail)
			}
			fmt.Printf("VIOLATION property=C15 replay=%s\n", path)
			os.Exit(1)
		}
		fmt.Println("replayed schedule shows no failure on the current tree")
		os.Exit(0)
	}
	fmt.Println("unknown scenario in replay file")
	os.Exit(2)
}

func main() {
	for i, a := range os.Args {
		if a == "--replay" && i+1 < len(os.Args) {
			replay(os.Args[i+1])
		}
	}
	if sh := ev.ShardFromArgs(); sh != nil {
		worker(sh)
		return
	}
	r := ev.Start("C15", "model_checking")
	r.RunShards(runtime.NumCPU(), runtime.NumCPU(), 8<<30)
	// distinct outcomes: merge the per-shard outcome markers
	r.Set("scenarios", func() []string {
		var s []string
		for _, p := range plans(r.Thorough()) {
			s = append(s, fmt.Sprintf("%s preemptions<=%d pool-deviations<=%d", p.sc, p.pb, p.db))
		}
		return s
	}())
	racePass(r)
	r.Rule("controlled cooperative scheduler over the real lazyproto code (sync.Pool behind the shim): (inputs include a malformed nested element, two trailing EMPTY nested elements, and - offered first by the last thread - an outer input that is rejected after a valid prefix) threads share one Decoder, each iteration = Decode(own unique input) . read all . NestedResults . read nested (+ nested of nested) . [thread 0: Close every nested result] . Close; plus the pool-focused scenarios (pool warmed with two results; each iteration holds TWO results at once and closes the older first; 2 threads x 2 iterations with preemptions <= 3, 3 threads x 1 iteration with <= 2); scheduling points = every Pool.Get/Put of every pool + every sync/atomic operation of lazyproto (redirected like sync, so that any atomic a change introduces is a scheduling point) + every API-call boundary + between obtaining values and re-verifying them; DFS over thread choices (preemption-bounded) x pool answers (deviation-bounded), sharded over 16 processes on depth-2 subtrees. Oracle: every value a thread reads equals the reference parse of its own input, also after other threads ran; no panic, no deadlock. states/transitions = scheduling/choice points executed; traces = complete executions; distinct_nontrivial = executions in which some thread received an object recycled from the pool. distinct_object_assignment_outcomes/* count the distinct assignments of pooled objects to (thread, iteration) that were observed (shows that recycling really interleaved).")
	r.Assume("unsynchronised accesses inside one API call are invisible to a cooperative scheduler; the free-running -race pass and the free-running stress pass without the detector (both sampling, key race_pass) complement but do not decide")
	r.Assume("more than 3 threads / 2 iterations and preemptions above the bound are outside the coverage statement")
	r.Finish()
}

// racePass: the same thread bodies free-running under the race detector (real sync, no overlay).
func racePass(r *ev.Run) {
	if os.Getenv("VERIF_SKIP_RACE") != "" {
		r.Set("race_pass", map[string]any{"sampling": true, "skipped": true})
		return
	}
	iters := "300"
	if r.Thorough() {
		iters = "2000"
	}
	cmd := exec.Command("go", "test", "-race", "-count=1", "-vet=off", "./checks/c15race", "-run", "TestRacePass", "-v", "-args", "-iters", iters)
	cmd.Dir = ev.VerifDir() + "/mc"
	cmd.Env = os.Environ()
	out, err := cmd.CombinedOutput()
	s := string(out)
	res := map[string]any{"sampling": true, "cmd": strings.Join(cmd.Args, " "), "iters_per_goroutine": iters}
	switch {
	case strings.Contains(s, "DATA RACE"):
		i := strings.Index(s, "WARNING: DATA RACE")
		rep := s[i:]
		if len(rep) > 3000 {
			rep = rep[:3000]
		}
		r.Fail("race-detector-report", "free-running -race pass", map[string]any{"report": rep})
		res["result"] = "DATA RACE"
	case strings.Contains(s, "ISOLATION-FAILURE"):
		i := strings.Index(s, "ISOLATION-FAILURE")
		rep := s[i:]
		if len(rep) > 1500 {
			rep = rep[:1500]
		}
		r.Fail("race-pass/isolation", "free-running -race pass", map[string]any{"report": rep})
		res["result"] = "isolation failure"
	case err != nil:
		tail := s
		if len(tail) > 1500 {
			tail = tail[len(tail)-1500:]
		}
		if strings.Contains(s, "panic:") {
			r.Fail("race-pass/panic", "free-running -race pass", map[string]any{"output": tail})
		} else {
			r.Internal("race pass could not run: %v: %s", err, tail)
		}
		res["result"] = "error"
	default:
		res["result"] = "no race reported"
		for _, l := range strings.Split(s, "\n") {
			if strings.HasPrefix(l, "RACEPASS ") {
				res["summary"] = l
			}
		}
	}
	// second free-running complement WITHOUT the race detector: millions of tiny Decode / read / Close rounds (the
	// detector's instrumentation makes narrow atomic windows practically unreachable); sampling as well
	scmd := exec.Command("go", "test", "-count=1", "-vet=off", "./checks/c15race", "-run", "TestStressPass", "-v", "-args", "-iters", iters)
	scmd.Dir = ev.VerifDir() + "/mc"
	scmd.Env = os.Environ()
	sout, serr := scmd.CombinedOutput()
	ss := string(sout)
	switch {
	case strings.Contains(ss, "ISOLATION-FAILURE"):
		i := strings.Index(ss, "ISOLATION-FAILURE")
		rep := ss[i:]
		if len(rep) > 1500 {
			rep = rep[:1500]
		}
		r.Fail("stress-pass/isolation", "free-running stress pass", map[string]any{"report": rep})
		res["stress_result"] = "isolation failure"
	case serr != nil:
		tail := ss
		if len(tail) > 1500 {
			tail = tail[len(tail)-1500:]
		}
		if strings.Contains(ss, "panic:") || strings.Contains(ss, "fatal error:") {
			r.Fail("stress-pass/panic", "free-running stress pass", map[string]any{"output": tail})
		} else {
			r.Internal("stress pass could not run: %v: %s", serr, tail)
		}
		res["stress_result"] = "error"
	default:
		res["stress_result"] = "no isolation failure"
		for _, l := range strings.Split(ss, "\n") {
			if strings.HasPrefix(l, "STRESSPASS ") {
				res["stress_summary"] = l
			}
		}
	}
	r.Set("race_pass", res)
}
