package main

import (
	"fmt"
	"reflect"
	"sort"
	"strings"

	gogoproto "github.com/gogo/protobuf/proto"
	golangproto "github.com/golang/protobuf/proto" //nolint: staticcheck // the deprecated V1 API is one of the three runtimes under test
	"google.golang.org/protobuf/proto"
	"google.golang.org/protobuf/reflect/protoreflect"
	"google.golang.org/protobuf/types/dynamicpb"

	"verif/mc/lib/gcore"
	"verif/mc/lib/refwire"
)

// ---- the owning runtime's own extension API (the oracle side) -------------------------------------------

func rtHas(s *subject, m any, e *ext) bool {
	switch s.cls {
	case cGogo:
		return gogoproto.HasExtension(m.(gogoproto.Message), e.gd)
	case cV1:
		return golangproto.HasExtension(m.(golangproto.Message), e.ld)
	}
	return proto.HasExtension(m.(proto.Message), e.xt)
}

func rtGet(s *subject, m any, e *ext) (any, error) {
	switch s.cls {
	case cGogo:
		return gogoproto.GetExtension(m.(gogoproto.Message), e.gd)
	case cV1:
		return golangproto.GetExtension(m.(golangproto.Message), e.ld)
	}
	return proto.GetExtension(m.(proto.Message), e.xt), nil
}

func rtSet(s *subject, m any, e *ext, v any) error {
	switch s.cls {
	case cGogo:
		return gogoproto.SetExtension(m.(gogoproto.Message), e.gd, v)
	case cV1:
		return golangproto.SetExtension(m.(golangproto.Message), e.ld, v)
	}
	proto.SetExtension(m.(proto.Message), e.xt, v)
	return nil
}

func rtClear(s *subject, m any, e *ext) {
	switch s.cls {
	case cGogo:
		gogoproto.ClearExtension(m.(gogoproto.Message), e.gd)
	case cV1:
		golangproto.ClearExtension(m.(golangproto.Message), e.ld)
	default:
		proto.ClearExtension(m.(proto.Message), e.xt)
	}
}

func rtClearAll(s *subject, m any) {
	switch s.cls {
	case cGogo:
		gogoproto.ClearAllExtensions(m.(gogoproto.Message))
	case cV1:
		golangproto.ClearAllExtensions(m.(golangproto.Message))
	default:
		// the V2 API has no ClearAllExtensions: clear every populated extension field through reflection
		mr := m.(proto.Message).ProtoReflect()
		var fds []protoreflect.FieldDescriptor
		mr.Range(func(fd protoreflect.FieldDescriptor, _ protoreflect.Value) bool {
			if fd.IsExtension() {
				fds = append(fds, fd)
			}
			return true
		})
		for _, fd := range fds {
			mr.Clear(fd)
		}
	}
}

// rtMarshal is the owning runtime's Marshal entry point (for Gogo and Google V1 messages that carry
// generated fast-marshal methods it dispatches to them).
func rtMarshal(s *subject, m any) ([]byte, error) {
	switch s.cls {
	case cGogo:
		return gogoproto.Marshal(m.(gogoproto.Message))
	case cV1:
		return golangproto.Marshal(m.(golangproto.Message))
	}
	return proto.Marshal(m.(proto.Message))
}

func rtUnmarshal(s *subject, b []byte, m any) error {
	switch s.cls {
	case cGogo:
		return gogoproto.Unmarshal(b, m.(gogoproto.Message))
	case cV1:
		return golangproto.Unmarshal(b, m.(golangproto.Message))
	}
	return proto.Unmarshal(b, m.(proto.Message))
}

// rtEqualValue compares two API values with the runtime's Equal when they are messages.
func rtEqualValue(s *subject, a, b any) (bool, bool) {
	ra, rb := reflect.ValueOf(a), reflect.ValueOf(b)
	if !ra.IsValid() || !rb.IsValid() || ra.Type() != rb.Type() || ra.Kind() != reflect.Ptr || ra.Type().Elem().Kind() != reflect.Struct {
		return false, false
	}
	if ra.IsNil() || rb.IsNil() {
		return ra.IsNil() == rb.IsNil(), true
	}
	switch s.cls {
	case cGogo:
		return gogoproto.Equal(a.(gogoproto.Message), b.(gogoproto.Message)), true
	case cV1:
		return golangproto.Equal(a.(golangproto.Message), b.(golangproto.Message)), true
	}
	return proto.Equal(a.(proto.Message), b.(proto.Message)), true
}

// ---- canonical, reflection-only encoding of the real message (never runs generated fast-marshal code) ----

var detMarshal = proto.MarshalOptions{Deterministic: true, AllowPartial: true}

// indepBytes encodes the message deterministically without calling generated methods:
// V2: protobuf-go table-driven marshal; V1: deep copy into dynamicpb (extensions included); Gogo: regular
// fields through the reflection wrapper plus every extension read through gogo's API and encoded here.
func indepBytes(s *subject, m any) (out []byte, err error) {
	defer func() {
		if p := recover(); p != nil {
			err = fmt.Errorf("panic in reference encoding: %v", p)
		}
	}()
	switch s.cls {
	case cV2:
		return detMarshal.Marshal(m.(proto.Message))
	case cV1:
		mr := gcore.Reflect(m)
		d := gcore.ToDyn(mr.Descriptor(), mr) // regular fields + unknown bytes
		mr.Range(func(fd protoreflect.FieldDescriptor, v protoreflect.Value) bool {
			if !fd.IsExtension() {
				return true
			}
			// a dynamic extension type over the same descriptor: accepts dynamicpb message values
			dfd := dynamicpb.NewExtensionType(fd).TypeDescriptor()
			switch {
			case fd.IsList():
				l := d.Mutable(dfd).List()
				for i := 0; i < v.List().Len(); i++ {
					l.Append(dynValue(fd, v.List().Get(i)))
				}
			default:
				d.Set(dfd, dynValue(fd, v))
			}
			return true
		})
		return detMarshal.Marshal(d)
	}
	gm := m.(gogoproto.Message)
	mr := gcore.Reflect(m)
	out, err = detMarshal.Marshal(gcore.ToDyn(mr.Descriptor(), mr))
	if err != nil {
		return nil, err
	}
	descs, err := gogoproto.ExtensionDescs(gm)
	if err != nil {
		return nil, err
	}
	sort.Slice(descs, func(i, j int) bool { return descs[i].Field < descs[j].Field })
	for _, d := range descs {
		v, err := gogoproto.GetExtension(gm, d)
		if err != nil {
			return nil, fmt.Errorf("gogo GetExtension(%d): %v", d.Field, err)
		}
		if d.ExtensionType == nil {
			out = append(out, v.([]byte)...)
			continue
		}
		out, err = appendGogoExt(out, d, reflect.ValueOf(v))
		if err != nil {
			return nil, err
		}
	}
	return out, nil
}

func dynValue(fd protoreflect.FieldDescriptor, v protoreflect.Value) protoreflect.Value {
	if fd.Message() != nil {
		return protoreflect.ValueOfMessage(gcore.ToDyn(fd.Message(), v.Message()))
	}
	if b, ok := v.Interface().([]byte); ok {
		return protoreflect.ValueOfBytes(append([]byte{}, b...))
	}
	return v
}

// appendGogoExt encodes one gogo extension value following its struct tag ("varint,100,opt,name=x").
func appendGogoExt(b []byte, d *gogoproto.ExtensionDesc, rv reflect.Value) ([]byte, error) {
	enc := strings.SplitN(d.Tag, ",", 2)[0]
	if rv.Kind() == reflect.Slice && rv.Type().Elem().Kind() != reflect.Uint8 {
		for i := 0; i < rv.Len(); i++ {
			var err error
			if b, err = appendGogoScalar(b, d, enc, rv.Index(i)); err != nil {
				return nil, err
			}
		}
		return b, nil
	}
	if rv.Kind() == reflect.Ptr && rv.Type().Elem().Kind() != reflect.Struct {
		rv = rv.Elem()
	}
	return appendGogoScalar(b, d, enc, rv)
}

func appendGogoScalar(b []byte, d *gogoproto.ExtensionDesc, enc string, rv reflect.Value) ([]byte, error) {
	num := int(d.Field)
	switch enc {
	case "varint":
		b = refwire.AppendKey(b, num, refwire.Varint)
		switch rv.Kind() {
		case reflect.Bool:
			if rv.Bool() {
				return append(b, 1), nil
			}
			return append(b, 0), nil
		case reflect.Int32, reflect.Int64:
			return refwire.AppendVarint(b, uint64(rv.Int())), nil
		case reflect.Uint32, reflect.Uint64:
			return refwire.AppendVarint(b, rv.Uint()), nil
		}
	case "zigzag32", "zigzag64":
		b = refwire.AppendKey(b, num, refwire.Varint)
		return refwire.AppendVarint(b, refwire.ZigZag64(rv.Int())), nil
	case "fixed32":
		b = refwire.AppendKey(b, num, refwire.Fixed32)
		switch rv.Kind() {
		case reflect.Float32:
			return refwire.AppendFixed32(b, refwire.F32bits(float32(rv.Float()))), nil
		case reflect.Int32:
			return refwire.AppendFixed32(b, uint32(rv.Int())), nil
		case reflect.Uint32:
			return refwire.AppendFixed32(b, uint32(rv.Uint())), nil
		}
	case "fixed64":
		b = refwire.AppendKey(b, num, refwire.Fixed64)
		switch rv.Kind() {
		case reflect.Float64:
			return refwire.AppendFixed64(b, refwire.F64bits(rv.Float())), nil
		case reflect.Int64:
			return refwire.AppendFixed64(b, uint64(rv.Int())), nil
		case reflect.Uint64:
			return refwire.AppendFixed64(b, rv.Uint()), nil
		}
	case "bytes":
		b = refwire.AppendKey(b, num, refwire.Len)
		switch rv.Kind() {
		case reflect.String:
			return refwire.AppendBytes(b, []byte(rv.String())), nil
		case reflect.Slice:
			return refwire.AppendBytes(b, rv.Bytes()), nil
		case reflect.Ptr:
			if rv.IsNil() {
				return refwire.AppendBytes(b, nil), nil
			}
			mr := gcore.Reflect(rv.Interface())
			p, err := detMarshal.Marshal(gcore.ToDyn(mr.Descriptor(), mr))
			if err != nil {
				return nil, err
			}
			return refwire.AppendBytes(b, p), nil
		}
	}
	return nil, fmt.Errorf("c12: cannot encode gogo extension %s (tag %q, Go kind %s)", d.Name, d.Tag, rv.Kind())
}

// fieldNumbers returns the sorted distinct top-level field numbers of an encoded message.
func fieldNumbers(b []byte) ([]int32, error) {
	fs, err := refwire.Parse(b)
	if err != nil {
		return nil, err
	}
	seen := map[int32]bool{}
	var out []int32
	for _, f := range fs {
		if !seen[int32(f.Num)] {
			seen[int32(f.Num)] = true
			out = append(out, int32(f.Num))
		}
	}
	sort.Slice(out, func(i, j int) bool { return out[i] < out[j] })
	return out, nil
}
