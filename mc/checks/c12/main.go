// C12: the proto2 extension accessors of csproto (extensions.go) agree with a set/clear model and with the
// owning runtime's own extension API, for every extension declared in the schema corpus and every runtime.
//
// Mode Q (explicit-state BFS): a state is the operation history that reaches it. Successors are built by
// replaying the history on a FRESH real message through csproto and applying one more operation; states are
// deduplicated on (model map extension->value, canonical reflection-only encoding of the real message).
// Every operation of the alphabet is applied in every reachable state, every observation (Has/Get/Range/
// ExtensionFieldNumber/Marshal round trips/mismatching descriptors) is evaluated in every state.
package main

import (
	"encoding/hex"
	"errors"
	"fmt"
	"reflect"
	"runtime"
	"sort"
	"strings"
	"sync"
	"sync/atomic"
	"time"

	"github.com/CrowdStrike/csproto"
	gogoproto "github.com/gogo/protobuf/proto"
	golangproto "github.com/golang/protobuf/proto" //nolint: staticcheck // the deprecated V1 API is one of the three runtimes under test
	"google.golang.org/protobuf/reflect/protoreflect"

	"verif/mc/lib/ev"
	"verif/mc/lib/gcore"
)

type opKind int

const (
	opSet opKind = iota
	opClear
	opClearAll
)

type op struct {
	kind opKind
	ei   int // index into the explorer's extension set
	vi   int // 1 | 2
}

type explorer struct {
	r    *ev.Run
	s    *subject
	all  []*subject
	set  []*ext
	pair int
	ops  []op
	frgn [][]foreign // per set index
	tag  string
}

func (x *explorer) opName(o op) string {
	switch o.kind {
	case opSet:
		return fmt.Sprintf("Set(%s,v%d)", x.set[o.ei].short, o.vi)
	case opClear:
		return fmt.Sprintf("Clear(%s)", x.set[o.ei].short)
	}
	return "ClearAll"
}

func (x *explorer) histString(h []int) string {
	if len(h) == 0 {
		return "<fresh message>"
	}
	var p []string
	for _, oi := range h {
		p = append(p, x.opName(x.ops[oi]))
	}
	return strings.Join(p, ";")
}

func (x *explorer) fail(sig string, hist []int, detail map[string]any) {
	if detail == nil {
		detail = map[string]any{}
	}
	detail["subject"] = x.s.label
	detail["extension_set"] = x.tag
	detail["history"] = x.histString(hist)
	detail["values"] = x.valueLegend()
	x.r.Fail(sig, x.tag+" :: "+x.histString(hist), detail)
}

func (x *explorer) valueLegend() map[string]string {
	out := map[string]string{}
	for _, e := range x.set {
		out[e.short+".v1"] = short(canon(mk(e.goT, 1, x.pair).Interface()))
		out[e.short+".v2"] = short(canon(mk(e.goT, 2, x.pair).Interface()))
	}
	return out
}

// ---- guarded calls into csproto ---------------------------------------------------------------------------

func guard(f func()) (pan any) {
	if anyPoison.Load() {
		// some call has panicked in this run, possibly with a message lock held: from now on every guarded call runs
		// on the side with a deadline, so that a call blocking on such a lock is reported instead of hanging the check
		// (never taken on a tree where nothing panics)
		ch := make(chan any, 1)
		go func() { ch <- guard0(f) }()
		select {
		case pan = <-ch:
			return pan
		case <-time.After(10 * time.Second):
			return "the call blocks (a lock of the message was left held by an earlier call that panicked)"
		}
	}
	return guard0(f)
}

var anyPoison atomic.Bool

func guard0(f func()) (pan any) {
	defer func() {
		if p := recover(); p != nil {
			pan = p
		}
	}()
	f()
	return nil
}

// A call that panics may do so while holding a lock of the message (the V1 runtimes guard the extension map with a
// mutex): the instance is unusable afterwards and touching it again would block forever. Such instances are
// remembered; snapshot() reports them as unusable instead of reading them, which makes the caller replace them.
var poisoned sync.Map // message pointer -> panic text

func mark(m any, pan any) any {
	// csproto's own documented panic for a descriptor of the wrong type is raised before the message is touched
	if pan != nil && m != nil && reflect.ValueOf(m).Kind() == reflect.Ptr && !strings.HasPrefix(fmt.Sprint(pan), csClearPanicPrefix) {
		poisoned.Store(reflect.ValueOf(m).Pointer(), fmt.Sprint(pan))
		anyPoison.Store(true)
	}
	return pan
}

func isPoisoned(m any) (string, bool) {
	if m == nil || reflect.ValueOf(m).Kind() != reflect.Ptr {
		return "", false
	}
	v, ok := poisoned.Load(reflect.ValueOf(m).Pointer())
	if !ok {
		return "", false
	}
	return v.(string), true
}

func csHas(m, d any) (has bool, pan any) {
	pan = mark(m, guard(func() { has = csproto.HasExtension(m, d) }))
	return
}

func csGet(m, d any) (v any, err error, pan any) {
	pan = mark(m, guard(func() { v, err = csproto.GetExtension(m, d) }))
	return
}

func csSet(m, d, v any) (err error, pan any) {
	pan = mark(m, guard(func() { err = csproto.SetExtension(m, d, v) }))
	return
}

func csClear(m, d any) (pan any) { return mark(m, guard(func() { csproto.ClearExtension(m, d) })) }
func csClearAll(m any) (pan any) { return mark(m, guard(func() { csproto.ClearAllExtensions(m) })) }

type visit struct {
	value any
	name  string
	field int32
}

func csRange(m any, stopAt int, stop error) (vs []visit, err error, pan any) {
	pan = guard(func() {
		err = csproto.RangeExtensions(m, func(value interface{}, name string, field int32) error {
			vs = append(vs, visit{value, name, field})
			if stopAt > 0 && len(vs) == stopAt {
				return stop
			}
			return nil
		})
	})
	return
}

// ---- building real messages -------------------------------------------------------------------------------

const baseValue = 7

func (x *explorer) fresh() any {
	m := x.s.newMsg()
	if x.s.baseNum != 0 {
		mr := gcore.Reflect(m)
		mr.Set(mr.Descriptor().Fields().ByNumber(protoreflect.FieldNumber(x.s.baseNum)), protoreflect.ValueOfInt32(baseValue))
	}
	return m
}

// apply runs one operation through csproto (real) or through the owning runtime's API (twin).
func (x *explorer) apply(m any, o op, viaCsproto bool) (err error, pan any) {
	switch o.kind {
	case opSet:
		e := x.set[o.ei]
		v := mk(e.goT, o.vi, x.pair).Interface()
		if viaCsproto {
			return csSet(m, e.desc, v)
		}
		pan = guard(func() { err = rtSet(x.s, m, e, v) })
	case opClear:
		e := x.set[o.ei]
		if viaCsproto {
			return nil, csClear(m, e.desc)
		}
		pan = guard(func() { rtClear(x.s, m, e) })
	default:
		if viaCsproto {
			return nil, csClearAll(m)
		}
		pan = guard(func() { rtClearAll(x.s, m) })
	}
	return
}

func step(model []int, o op) []int {
	out := append([]int{}, model...)
	switch o.kind {
	case opSet:
		out[o.ei] = o.vi
	case opClear:
		out[o.ei] = 0
	default:
		for i := range out {
			out[i] = 0
		}
	}
	return out
}

// replay applies hist to a fresh message through csproto (and to a twin through the runtime's API).
func (x *explorer) replay(hist []int, withTwin bool) (m, twin any, model []int) {
	m = x.fresh()
	if withTwin {
		twin = x.fresh()
	}
	model = make([]int, len(x.set))
	for i, oi := range hist {
		o := x.ops[oi]
		if err, pan := x.apply(m, o, true); err != nil || pan != nil {
			x.fail(fmt.Sprintf("%s/%s/%s/fails-on-valid-arguments", opAPI(o), x.s.rt, x.opExt(o)), hist[:i+1], map[string]any{"error": fmt.Sprint(err), "panic": fmt.Sprint(pan)})
		}
		if withTwin {
			if err, pan := x.apply(twin, o, false); err != nil || pan != nil {
				x.r.Internal("%s: the runtime's own API rejects %s: err=%v panic=%v", x.tag, x.opName(o), err, pan)
			}
		}
		model = step(model, o)
	}
	return
}

func opAPI(o op) string {
	return [...]string{"SetExtension", "ClearExtension", "ClearAllExtensions"}[o.kind]
}

func (x *explorer) opExt(o op) string {
	if o.kind == opClearAll {
		return "*"
	}
	return x.set[o.ei].short
}

func (x *explorer) modelOf(e *ext, model []int) int {
	for i, se := range x.set {
		if se == e {
			return model[i]
		}
	}
	return 0
}

func errStr(err error) string {
	if err == nil {
		return "<nil>"
	}
	return err.Error()
}

// ---- the oracle: real message == model == owning runtime ---------------------------------------------------

// verify checks every accessor on m against the model and against the runtime's own API.
// where is "" for a state reached by a transition, else names the derived message (a round trip result).
func (x *explorer) verify(m any, model []int, hist []int, where string) {
	s := x.s
	at := ""
	if where != "" {
		at = "@" + where
	}
	var wantNums []int32
	if s.baseNum != 0 {
		wantNums = append(wantNums, s.baseNum)
	}
	wantSet := map[int32]*ext{}
	for _, e := range s.exts {
		mv := x.modelOf(e, model)
		if mv != 0 {
			wantNums = append(wantNums, e.num)
			wantSet[e.num] = e
		}
		x.r.Evals(2)
		// HasExtension
		has, pan := csHas(m, e.desc)
		if pan != nil && !x.usable(m) {
			x.fail(fmt.Sprintf("HasExtension/%s/%s/panic%s", s.rt, e.short, at), hist, map[string]any{"panic": fmt.Sprint(pan), "note": "the message cannot be read any more (lock left held)"})
			m, _, _ = x.replay(hist, false)
			continue
		}
		rh := rtHas(s, m, e)
		switch {
		case pan != nil:
			x.fail(fmt.Sprintf("HasExtension/%s/%s/panic%s", s.rt, e.short, at), hist, map[string]any{"panic": fmt.Sprint(pan)})
		case has != (mv != 0):
			x.fail(fmt.Sprintf("HasExtension/%s/%s/%v-but-model-says-%v%s", s.rt, e.short, has, mv != 0, at), hist, map[string]any{"csproto": has, "runtime": rh, "model_value_index": mv})
		case has != rh:
			x.fail(fmt.Sprintf("HasExtension/%s/%s/differs-from-runtime%s", s.rt, e.short, at), hist, map[string]any{"csproto": has, "runtime": rh})
		}
		// GetExtension
		v, err, pan := csGet(m, e.desc)
		if pan != nil && !x.usable(m) {
			x.fail(fmt.Sprintf("GetExtension/%s/%s/panic%s", s.rt, e.short, at), hist, map[string]any{"panic": fmt.Sprint(pan), "note": "the message cannot be read any more (lock left held)"})
			m, _, _ = x.replay(hist, false)
			continue
		}
		rv, rerr := rtGet(s, m, e)
		if pan != nil {
			x.fail(fmt.Sprintf("GetExtension/%s/%s/panic%s", s.rt, e.short, at), hist, map[string]any{"panic": fmt.Sprint(pan)})
			continue
		}
		if canon(v) != canon(rv) || errStr(err) != errStr(rerr) {
			x.fail(fmt.Sprintf("GetExtension/%s/%s/value-differs-from-runtime%s", s.rt, e.short, at), hist,
				map[string]any{"csproto": short(canon(v)), "csproto_err": errStr(err), "runtime": short(canon(rv)), "runtime_err": errStr(rerr)})
		} else if eq, isMsg := rtEqualValue(s, v, rv); isMsg && !eq {
			x.fail(fmt.Sprintf("GetExtension/%s/%s/message-not-Equal-to-runtime%s", s.rt, e.short, at), hist, map[string]any{"csproto": short(canon(v)), "runtime": short(canon(rv))})
		}
		if mv != 0 {
			want := mk(e.goT, mv, x.pair).Interface()
			if err != nil {
				x.fail(fmt.Sprintf("GetExtension/%s/%s/error-for-set-extension%s", s.rt, e.short, at), hist, map[string]any{"error": err.Error(), "want": short(canon(want))})
			} else if canon(v) != canon(want) {
				x.fail(fmt.Sprintf("GetExtension/%s/%s/value-differs-from-value-set%s", s.rt, e.short, at), hist, map[string]any{"got": short(canon(v)), "want": short(canon(want))})
			} else if eq, isMsg := rtEqualValue(s, v, want); isMsg && !eq {
				x.fail(fmt.Sprintf("GetExtension/%s/%s/message-not-Equal-to-value-set%s", s.rt, e.short, at), hist, map[string]any{"got": short(canon(v)), "want": short(canon(want))})
			}
		} else {
			// unset: the V1 APIs report ErrMissingExtension unless the schema declares a default (then they return
			// it, and the differential clause above has already compared it with the runtime's answer); V2
			// returns the default
			switch {
			case e.hasDefault && s.cls != cV2:
			default:
				switch s.cls {
				case cGogo:
					if v != nil || !errors.Is(err, gogoproto.ErrMissingExtension) {
						x.fail(fmt.Sprintf("GetExtension/%s/%s/unset-extension-not-reported-missing%s", s.rt, e.short, at), hist, map[string]any{"got": short(canon(v)), "err": errStr(err)})
					}
				case cV1:
					if v != nil || !errors.Is(err, golangproto.ErrMissingExtension) {
						x.fail(fmt.Sprintf("GetExtension/%s/%s/unset-extension-not-reported-missing%s", s.rt, e.short, at), hist, map[string]any{"got": short(canon(v)), "err": errStr(err)})
					}
				default:
					want := e.xt.InterfaceOf(e.xt.Zero())
					if err != nil || canon(v) != canon(want) {
						x.fail(fmt.Sprintf("GetExtension/%s/%s/unset-extension-not-default%s", s.rt, e.short, at), hist, map[string]any{"got": short(canon(v)), "err": errStr(err), "want": short(canon(want))})
					}
				}
			}
		}
	}
	sort.Slice(wantNums, func(i, j int) bool { return wantNums[i] < wantNums[j] })

	// RangeExtensions visits exactly the set extensions
	x.r.Evals(1)
	vs, err, pan := csRange(m, 0, nil)
	if pan != nil || err != nil {
		x.fail(fmt.Sprintf("RangeExtensions/%s/fails%s", s.rt, at), hist, map[string]any{"panic": fmt.Sprint(pan), "error": errStr(err)})
	} else {
		seen := map[int32]int{}
		for _, v := range vs {
			seen[v.field]++
			e := wantSet[v.field]
			if e == nil {
				x.fail(fmt.Sprintf("RangeExtensions/%s/visits-extension-that-is-not-set%s", s.rt, at), hist, map[string]any{"field": v.field, "name": v.name})
				continue
			}
			if seen[v.field] > 1 {
				x.fail(fmt.Sprintf("RangeExtensions/%s/%s/visited-twice%s", s.rt, e.short, at), hist, nil)
			}
			if v.name != e.full {
				x.fail(fmt.Sprintf("RangeExtensions/%s/%s/wrong-name%s", s.rt, e.short, at), hist, map[string]any{"got": v.name, "want": e.full})
			}
			// value: the V2 branch passes the extension value, the Gogo / Google V1 branches pass the descriptor
			want := mk(e.goT, x.modelOf(e, model), x.pair).Interface()
			switch {
			case v.value == e.desc:
				x.r.AddTo("range_callback_value_is_descriptor/"+s.cls.String(), 1)
			case canon(v.value) == canon(want):
				x.r.AddTo("range_callback_value_is_extension_value/"+s.cls.String(), 1)
			default:
				x.fail(fmt.Sprintf("RangeExtensions/%s/%s/callback-value-neither-descriptor-nor-value-set%s", s.rt, e.short, at), hist, map[string]any{"got": short(canon(v.value)), "want": short(canon(want))})
			}
		}
		for n, e := range wantSet {
			if seen[n] == 0 {
				x.fail(fmt.Sprintf("RangeExtensions/%s/%s/set-extension-not-visited%s", s.rt, e.short, at), hist, map[string]any{"visited": fmt.Sprint(vs)})
			}
		}
	}

	// the reflection-only encoding of the real message holds exactly the set extensions (and the base field)
	x.r.Evals(1)
	ib, err := indepBytes(s, m)
	if err != nil {
		x.r.Internal("%s :: %s: reference encoding failed%s: %v", x.tag, x.histString(hist), at, err)
		return
	}
	nums, err := fieldNumbers(ib)
	if err != nil {
		x.r.Internal("%s :: %s: reference encoding unparsable%s: %v", x.tag, x.histString(hist), at, err)
		return
	}
	if fmt.Sprint(nums) != fmt.Sprint(wantNums) {
		x.fail(fmt.Sprintf("state/%s/message-content-differs-from-model%s", s.rt, at), hist, map[string]any{"field_numbers_in_message": nums, "field_numbers_expected": wantNums, "bytes": hex.EncodeToString(ib)})
	}
	if s.baseNum != 0 {
		mr := gcore.Reflect(m)
		fd := mr.Descriptor().Fields().ByNumber(protoreflect.FieldNumber(s.baseNum))
		if !mr.Has(fd) || mr.Get(fd).Int() != baseValue {
			x.fail(fmt.Sprintf("state/%s/regular-field-disturbed%s", s.rt, at), hist, map[string]any{"has": mr.Has(fd), "value": mr.Get(fd).Int()})
		}
	}
}

// snapshot identifies the logical content of a message (for "must not be modified").
func (x *explorer) snapshot(m any) string {
	if why, bad := isPoisoned(m); bad {
		// a call on this instance panicked earlier. Most panics leave the message readable (they are raised before it is
		// touched); one raised while the runtime holds the message's extension lock does not, and reading would block
		// forever. So the instance is read on the side and given up on if that does not come back.
		if _, known := blocking.Load(why); known {
			return "UNUSABLE: reading the message blocks after an earlier call on it panicked (" + why + ")"
		}
		ch := make(chan string, 1)
		go func() { ch <- x.snapshot0(m) }()
		select {
		case s := <-ch:
			return s
		case <-time.After(10 * time.Second):
			blocking.Store(why, true) // the same panic leaves the same lock held: do not wait again
			return "UNUSABLE: reading the message blocks after an earlier call on it panicked (" + why + ")"
		}
	}
	return x.snapshot0(m)
}

// blocking remembers panic texts after which reading the message was seen to block.
var blocking sync.Map

// usable reports whether m may be read directly; an instance on which a call panicked is probed (snapshot with a
// deadline) and must be replaced by the caller when the probe does not come back.
func (x *explorer) usable(m any) bool {
	if _, bad := isPoisoned(m); !bad {
		return true
	}
	return !strings.HasPrefix(x.snapshot(m), "UNUSABLE:")
}

func (x *explorer) snapshot0(m any) string {
	b, err := indepBytes(x.s, m)
	if err != nil {
		return "ERR:" + err.Error()
	}
	var hs []byte
	for _, e := range x.s.exts {
		if rtHas(x.s, m, e) {
			hs = append(hs, '1')
		} else {
			hs = append(hs, '0')
		}
	}
	return hex.EncodeToString(b) + "/" + string(hs)
}

// ---- observations evaluated in every state ----------------------------------------------------------------

func (x *explorer) observe(hist []int, model []int) {
	s := x.s
	m, _, _ := x.replay(hist, false)
	before := x.snapshot(m)
	nset := 0
	for _, v := range model {
		if v != 0 {
			nset++
		}
	}

	// RangeExtensions returns immediately with the callback's error
	stop := errors.New("c12 stop")
	for k := 1; k <= nset; k++ {
		x.r.Evals(1)
		vs, err, pan := csRange(m, k, stop)
		if pan != nil || err != stop || len(vs) != k {
			x.fail(fmt.Sprintf("RangeExtensions/%s/callback-error-not-returned-immediately", s.rt), hist, map[string]any{"stop_at": k, "visited": len(vs), "error": errStr(err), "panic": fmt.Sprint(pan)})
		}
	}

	// ExtensionFieldNumber == declared number, for the runtime's descriptors and for every other kind
	for _, e := range s.exts {
		x.r.Evals(1)
		var n int
		var err error
		pan := guard(func() { n, err = csproto.ExtensionFieldNumber(e.desc) })
		if pan != nil || err != nil || int32(n) != e.num {
			x.fail(fmt.Sprintf("ExtensionFieldNumber/%s/%s/not-the-declared-number", s.rt, e.short), hist, map[string]any{"got": n, "want": e.num, "error": errStr(err), "panic": fmt.Sprint(pan)})
		}
	}

	// mismatching descriptors: false / error, message unchanged
	for i, e := range x.set {
		for _, f := range x.frgn[i] {
			x.mismatch(&m, e, f, hist, before)
		}
	}
	if after := x.snapshot(m); after != before {
		x.fail(fmt.Sprintf("observation/%s/message-modified-by-read-only-calls", s.rt), hist, map[string]any{"before": before, "after": after})
	}

	// Marshal -> Unmarshal through csproto and through the owning runtime (fresh replay each: generated
	// Size() caches its result in the message)
	wantNums := []int32{}
	if s.baseNum != 0 {
		wantNums = append(wantNums, s.baseNum)
	}
	for _, e := range s.exts {
		if x.modelOf(e, model) != 0 {
			wantNums = append(wantNums, e.num)
		}
	}
	sort.Slice(wantNums, func(i, j int) bool { return wantNums[i] < wantNums[j] })
	checkNums := func(b []byte, who string) bool {
		nums, err := fieldNumbers(b)
		if err != nil || fmt.Sprint(nums) != fmt.Sprint(wantNums) {
			x.fail(fmt.Sprintf("Marshal/%s/%s/field-numbers-differ-from-set-extensions", s.rt, who), hist, map[string]any{"bytes": hex.EncodeToString(b), "field_numbers": nums, "expected": wantNums, "parse_error": errStr(err)})
			return false
		}
		return true
	}
	decode := func(b []byte, viaCsproto bool, path string) {
		if s.unregistered {
			return // Unmarshal cannot resolve extension types that are not registered
		}
		m2 := s.newMsg()
		var err error
		pan := guard(func() {
			if viaCsproto {
				err = csproto.Unmarshal(b, m2)
			} else {
				err = rtUnmarshal(s, b, m2)
			}
		})
		x.r.Evals(1)
		if pan != nil || err != nil {
			x.fail(fmt.Sprintf("Unmarshal/%s/%s/fails", s.rt, path), hist, map[string]any{"bytes": hex.EncodeToString(b), "error": errStr(err), "panic": fmt.Sprint(pan)})
			return
		}
		x.verify(m2, model, hist, path)
	}
	switch {
	case s.genOK:
		m1, _, _ := x.replay(hist, false)
		var b1 []byte
		var err error
		pan := guard(func() { b1, err = csproto.Marshal(m1) })
		x.r.Evals(1)
		if pan != nil || err != nil {
			x.fail(fmt.Sprintf("Marshal/%s/csproto/fails", s.rt), hist, map[string]any{"error": errStr(err), "panic": fmt.Sprint(pan)})
		} else if checkNums(b1, "csproto") {
			decode(b1, true, "csproto.Marshal->csproto.Unmarshal")
			decode(b1, false, "csproto.Marshal->runtime.Unmarshal")
		}
		m4, _, _ := x.replay(hist, false)
		var b2 []byte
		pan = guard(func() { b2, err = rtMarshal(s, m4) })
		x.r.Evals(1)
		if pan != nil || err != nil {
			x.fail(fmt.Sprintf("Marshal/%s/runtime/fails", s.rt), hist, map[string]any{"error": errStr(err), "panic": fmt.Sprint(pan)})
		} else if checkNums(b2, "runtime") {
			decode(b2, true, "runtime.Marshal->csproto.Unmarshal")
			decode(b2, false, "runtime.Marshal->runtime.Unmarshal")
		}
	case s.cls == cV2:
		// generated code does not support these extensions (recorded findings): runtime only, which never
		// calls generated methods for V2 messages
		m4, _, _ := x.replay(hist, false)
		b2, err := rtMarshal(s, m4)
		if err != nil {
			x.r.Internal("%s: runtime Marshal failed: %v", x.tag, err)
		} else if checkNums(b2, "runtime") {
			decode(b2, false, "runtime.Marshal->runtime.Unmarshal")
		}
	}
}

const csClearPanicPrefix = "invalid proto2 extension definition type"

func (x *explorer) mismatch(mp *any, e *ext, f foreign, hist []int, before string) {
	s := x.s
	m := *mp
	pairing := fmt.Sprintf("%s-msg+%s", s.cls, f.label)
	unchanged := func(api string) {
		if after := x.snapshot(m); after != before {
			x.fail(fmt.Sprintf("mismatch/%s/%s/message-modified", api, pairing), hist, map[string]any{"extension": e.short, "descriptor_from": f.from, "descriptor_type": fmt.Sprintf("%T", f.desc), "before": before, "after": after})
			// restore the state for the remaining observations
			m, _, _ = x.replay(hist, false)
			*mp = m
		}
	}
	x.r.AddTo("mismatch_calls", 1)

	x.r.Evals(1)
	has, pan := csHas(m, f.desc)
	if pan != nil {
		x.fail(fmt.Sprintf("mismatch/HasExtension/%s/panic", pairing), hist, map[string]any{"extension": e.short, "panic": fmt.Sprint(pan)})
	} else if has {
		x.fail(fmt.Sprintf("mismatch/HasExtension/%s/returns-true", pairing), hist, map[string]any{"extension": e.short, "descriptor_from": f.from, "descriptor_type": fmt.Sprintf("%T", f.desc)})
	}
	unchanged("HasExtension")

	x.r.Evals(1)
	v, err, pan := csGet(m, f.desc)
	if pan != nil {
		x.fail(fmt.Sprintf("mismatch/GetExtension/%s/panic", pairing), hist, map[string]any{"extension": e.short, "panic": fmt.Sprint(pan), "descriptor_from": f.from, "descriptor_type": fmt.Sprintf("%T", f.desc)})
	} else if err == nil {
		x.fail(fmt.Sprintf("mismatch/GetExtension/%s/no-error", pairing), hist, map[string]any{"extension": e.short, "value": short(canon(v)), "descriptor_type": fmt.Sprintf("%T", f.desc)})
	}
	unchanged("GetExtension")

	vals := []any{mk(e.goT, 1, x.pair).Interface()}
	if f.goT != nil && f.goT != e.goT {
		vals = append(vals, mk(f.goT, 1, x.pair).Interface())
	}
	for _, val := range vals {
		x.r.Evals(1)
		err, pan := csSet(m, f.desc, val)
		if pan != nil {
			x.fail(fmt.Sprintf("mismatch/SetExtension/%s/panic", pairing), hist, map[string]any{"extension": e.short, "value_type": fmt.Sprintf("%T", val), "panic": fmt.Sprint(pan), "descriptor_from": f.from, "descriptor_type": fmt.Sprintf("%T", f.desc)})
		} else if err == nil {
			x.fail(fmt.Sprintf("mismatch/SetExtension/%s/no-error", pairing), hist, map[string]any{"extension": e.short, "value_type": fmt.Sprintf("%T", val), "descriptor_type": fmt.Sprintf("%T", f.desc)})
		}
		unchanged("SetExtension")
	}

	// ClearExtension is documented to panic on invalid parameters: tolerated, but the message must be unchanged
	x.r.Evals(1)
	pan = csClear(m, f.desc)
	switch {
	case pan == nil:
		x.r.AddTo("mismatch_clear_returned/"+pairing, 1)
	case strings.HasPrefix(fmt.Sprint(pan), csClearPanicPrefix):
		x.r.AddTo("mismatch_clear_documented_panic", 1)
	case !f.strict:
		// same Go descriptor type, foreign runtime: the panic comes from the underlying runtime's ClearExtension
		x.r.AddTo("mismatch_clear_runtime_panic/"+pairing, 1)
	default:
		x.fail(fmt.Sprintf("mismatch/ClearExtension/%s/undocumented-panic", pairing), hist, map[string]any{"extension": e.short, "panic": fmt.Sprint(pan)})
	}
	unchanged("ClearExtension")

	// ExtensionFieldNumber does not depend on a message: declared number for any descriptor kind, error otherwise
	x.r.Evals(1)
	var n int
	pan = guard(func() { n, err = csproto.ExtensionFieldNumber(f.desc) })
	if f.isDesc {
		if pan != nil || err != nil || int32(n) != e.num {
			x.fail(fmt.Sprintf("ExtensionFieldNumber/%s/%s/not-the-declared-number", f.label, e.short), hist, map[string]any{"got": n, "want": e.num, "error": errStr(err), "panic": fmt.Sprint(pan)})
		}
	} else if pan != nil || err == nil || n != 0 {
		x.fail(fmt.Sprintf("ExtensionFieldNumber/%s/no-error-for-non-descriptor", f.label), hist, map[string]any{"got": n, "error": errStr(err), "panic": fmt.Sprint(pan)})
	}
}

// ---- BFS ----------------------------------------------------------------------------------------------------

type node struct {
	hist  []int
	model []int
}

func (x *explorer) run() {
	s := x.s
	for i := range x.set {
		x.ops = append(x.ops, op{opSet, i, 1}, op{opSet, i, 2}, op{opClear, i, 0})
	}
	x.ops = append(x.ops, op{kind: opClearAll})
	expected := 1
	for range x.set {
		expected *= 3
	}

	keyOf := func(m any, model []int) (string, string, bool) {
		b, err := indepBytes(s, m)
		if err != nil {
			x.r.Internal("%s: reference encoding failed: %v", x.tag, err)
			return "", "", false
		}
		return fmt.Sprint(model), hex.EncodeToString(b), true
	}

	seen := map[string]bool{}
	models, reals := map[string]bool{}, map[string]bool{}
	m0, _, model0 := x.replay(nil, false)
	x.verify(m0, model0, nil, "")
	mk0, rk0, ok := keyOf(m0, model0)
	if !ok {
		return
	}
	seen[mk0+"|"+rk0], models[mk0], reals[rk0] = true, true, true
	queue := []node{{nil, model0}}
	var transitions, nontrivial int64
	for len(queue) > 0 {
		n := queue[0]
		queue = queue[1:]
		x.observe(n.hist, n.model)
		for oi, o := range x.ops {
			hist := append(append([]int{}, n.hist...), oi)
			m, twin, model := x.replay(n.hist, true)
			err, pan := x.apply(m, o, true)
			if err != nil || pan != nil {
				x.fail(fmt.Sprintf("%s/%s/%s/fails-on-valid-arguments", opAPI(o), s.rt, x.opExt(o)), hist, map[string]any{"error": errStr(err), "panic": fmt.Sprint(pan)})
			}
			if terr, tpan := x.apply(twin, o, false); terr != nil || tpan != nil {
				x.r.Internal("%s: the runtime's own API rejects %s: err=%v panic=%v", x.tag, x.opName(o), terr, tpan)
			}
			model = step(model, o)
			transitions++
			x.verify(m, model, hist, "")
			mkey, rkey, ok := keyOf(m, model)
			if !ok {
				return
			}
			// the same history through the runtime's own API must give the same message
			x.r.Evals(1)
			if tb, terr := indepBytes(s, twin); terr != nil {
				x.r.Internal("%s: reference encoding of the twin failed: %v", x.tag, terr)
			} else if hex.EncodeToString(tb) != rkey {
				x.fail(fmt.Sprintf("%s/%s/%s/message-differs-from-runtime-API-result", opAPI(o), s.rt, x.opExt(o)), hist, map[string]any{"csproto_message": rkey, "runtime_message": hex.EncodeToString(tb)})
			}
			k := mkey + "|" + rkey
			if !seen[k] {
				seen[k], models[mkey], reals[rkey] = true, true, true
				if len(seen) > 10*expected {
					x.r.Cap(x.tag + ": state space larger than 10x the model's")
					queue = nil
					break
				}
				queue = append(queue, node{hist, model})
				for _, v := range model {
					if v != 0 {
						nontrivial++
						break
					}
				}
			}
		}
	}
	if len(seen) != expected || len(models) != expected || len(reals) != expected {
		x.fail(fmt.Sprintf("state-space/%s/size-differs-from-model", s.rt), nil, map[string]any{"expected": expected, "state_keys": len(seen), "distinct_models": len(models), "distinct_real_messages": len(reals)})
	}
	x.r.States(int64(len(seen)))
	x.r.Nontrivial(nontrivial)
	x.r.Transitions(transitions)
	x.r.Traces(transitions)
	x.r.AddTo("states/"+s.rt, int64(len(seen)))
	x.r.AddTo("transitions/"+s.rt, transitions)
}

func chunks(exts []*ext, n int) [][]*ext {
	if len(exts) <= n {
		return [][]*ext{exts}
	}
	var out [][]*ext
	for i := 0; i < len(exts); i += n {
		j := i + n
		if j > len(exts) {
			i, j = len(exts)-n, len(exts) // last chunk overlaps the previous one so that every chunk has n extensions
		}
		out = append(out, exts[i:j])
		if j == len(exts) {
			break
		}
	}
	return out
}

func main() {
	r := ev.Start("C12", "model_checking")
	subs, notes := discover()
	for _, n := range notes {
		r.Assume(n)
	}
	have := map[string]bool{}
	var labels []string
	for _, s := range subs {
		have[s.rt] = true
		labels = append(labels, fmt.Sprintf("%s(%d extensions)", s.label, len(s.exts)))
	}
	for _, rt := range []string{"gogo", "legacy", "gv2", "gv1"} {
		if !have[rt] {
			r.Internal("no extendable corpus type of runtime %s is linked (generated code does not compile?)", rt)
		}
	}
	r.Set("subjects", labels)

	// the FIRST value of a message type that csproto ever sees in a process may be a typed nil pointer (a legal probe:
	// csproto.MsgType / HasExtension on a nil message); whatever csproto remembers per Go type from that call must not
	// change the answers for real messages of the type. Every second subject of each runtime is probed that way before
	// anything else touches its type; the explorations below then run "after a nil probe" for those and "first seen with
	// a real message" for the others.
	var probed []string
	seenRT := map[string]int{}
	for _, s := range subs {
		seenRT[s.rt]++
		if seenRT[s.rt]%2 == 0 || len(s.exts) == 0 {
			continue
		}
		nilMsg := reflect.Zero(reflect.TypeOf(s.newMsg())).Interface()
		kNil := csproto.MsgType(nilMsg)
		_ = guard0(func() { _ = csproto.HasExtension(nilMsg, s.exts[0].desc) })
		if kReal := csproto.MsgType(s.newMsg()); kReal != kNil {
			r.Fail("nil-probe/MsgType-of-a-real-message-differs-from-MsgType-of-a-nil-message-of-the-same-type/"+s.rt, s.label, map[string]any{"subject": s.label, "MsgType(nil)": fmt.Sprint(kNil), "MsgType(real)": fmt.Sprint(kReal)})
		}
		probed = append(probed, s.label)
	}
	r.Set("subjects_first_seen_as_typed_nil", probed)

	n := ev.Pick(r, 4, 6)
	var jobs []*explorer
	add := func(s *subject, set []*ext, pair int) {
		var names []string
		for _, e := range set {
			names = append(names, e.short)
		}
		x := &explorer{r: r, s: s, all: subs, set: set, pair: pair, tag: fmt.Sprintf("%s{%s}/values%c", s.label, strings.Join(names, ","), 'A'+pair)}
		for _, e := range set {
			x.frgn = append(x.frgn, foreignDescs(s, e, subs))
		}
		jobs = append(jobs, x)
	}
	for _, s := range subs {
		for _, set := range chunks(s.exts, n) {
			add(s, set, 0)
		}
		if r.Thorough() {
			for _, set := range chunks(s.exts, 4) {
				add(s, set, 1) // boundary values
			}
		}
	}
	var tags []string
	for _, j := range jobs {
		tags = append(tags, j.tag)
	}
	r.Set("explorations", tags)
	ev.Parallel(len(jobs), runtime.NumCPU(), func(i int) { jobs[i].run() })
	undecoded(r, subs)

	r.Rule("explicit-state BFS per (runtime, extendable message, extension set, value pair): every second subject of each runtime is first shown to csproto as a typed nil pointer (MsgType, HasExtension) so that whatever csproto remembers per Go type is formed from a nil value; alphabet Set(e,v1) Set(e,v2) Clear(e) for every e of the set + ClearAll, " +
		"every op applied in every reachable state by replaying the state's history on a fresh message through csproto and applying the op; dedup on (model, reflection-only encoding of the real message); " +
		"after every transition and for EVERY declared extension: csproto Has/Get/Range == model == owning runtime's API, twin message driven by the runtime API is identical, encoding holds exactly the set field numbers; " +
		"in every state: Range with early callback error, ExtensionFieldNumber, csproto/runtime Marshal x csproto/runtime Unmarshal, every accessor with the same extension's descriptor of every other runtime, a dynamicpb extension type, nil, 42, \"x\"")
	r.Assume("undecoded clause: for every subject, extension and value the extension's bytes are placed in the unknown-field storage of a fresh message; every sequence of <= 3 calls over {Has, Get, Clear} is applied through csproto and, to a twin, through the owning runtime's API: same answers at every call, same message afterwards (golang/protobuf scans and lazily decodes unknown fields, protobuf-go and gogo do not: the runtime decides)")
	r.Assume("ClearExtension with a mismatching descriptor may panic (documented); the message must be unchanged")
	r.Assume("the value passed to the RangeExtensions callback is the descriptor for Gogo / Google V1 messages and the extension value for Google V2 messages (extensions.go); both are accepted, only the visited set, names and numbers are judged")
	r.Assume("repeated extensions (p2extrep) and file-scope extensions (p2extfile) are not supported by the generated fast-marshal code (recorded C04/C05/C06 findings): no csproto.Marshal / generated methods for these, runtime Marshal only for V2 messages")
	r.Assume("repeated extensions are only set to non-empty lists (an empty list is 'unset' for the V2 API and 'set' for the V1 APIs)")
	r.Assume("gv1 <-> gv2 descriptors are the same runtime (Google V2) and are not used as mismatching descriptors")
	r.Sample(map[string]any{"exploration": jobs[0].tag, "ops": len(jobs[0].set)*3 + 1, "values": jobs[0].valueLegend()})
	r.Finish()
}
