package main

import (
	"fmt"
	"math"
	"reflect"
	"strings"

	"google.golang.org/protobuf/reflect/protoreflect"

	"verif/mc/lib/gcore"
)

// mk builds a FRESH API value of Go type T (the representation the owning runtime's extension API uses:
// V1 APIs *scalar / []byte / *Msg / []elem, V2 API scalar / []byte / *Msg / []elem / Enum).
// vi is 1 or 2 (the two values of the operation alphabet); pair selects the value domain:
// pair 0: v1 = ordinary non-zero value, v2 = the zero value (must still count as "set");
// pair 1: boundary values.
func mk(T reflect.Type, vi, pair int) reflect.Value {
	switch T.Kind() {
	case reflect.Ptr:
		if T.Elem().Kind() == reflect.Struct {
			nm := reflect.New(T.Elem())
			fillMsg(nm.Interface(), vi, pair)
			return nm
		}
		p := reflect.New(T.Elem())
		p.Elem().Set(mk(T.Elem(), vi, pair))
		return p
	case reflect.Slice:
		if T.Elem().Kind() == reflect.Uint8 {
			var b []byte
			switch pair*2 + vi {
			case 1:
				b = []byte{0x00, 0xff, 'a'}
			case 2:
				b = []byte{} // empty, not nil
			case 3:
				b = []byte(strings.Repeat("\x80z", 100))
			default:
				b = []byte{0}
			}
			out := reflect.MakeSlice(T, len(b), len(b))
			reflect.Copy(out, reflect.ValueOf(b))
			return out
		}
		// repeated extension: non-empty lists only (an empty list is "unset" in V2 and "set" in the V1 APIs)
		n := 3
		if vi == 2 {
			n = 1
		}
		out := reflect.MakeSlice(T, 0, n)
		for j := 0; j < n; j++ {
			out = reflect.Append(out, mk(T.Elem(), 1+(j+vi+1)%2, (pair+j/2)%2))
		}
		return out
	}
	out := reflect.New(T).Elem()
	sel := pair*2 + vi // 1,2 | 3,4
	switch T.Kind() {
	case reflect.Bool:
		out.SetBool(sel == 1 || sel == 4)
	case reflect.Int32:
		if T.Name() != "int32" { // enum type: ZERO=0 RED=1 BIG=2147483647 NEG=-1
			out.SetInt([]int64{0, -1, 0, math.MaxInt32, 1}[sel])
		} else {
			out.SetInt([]int64{0, -7, 0, math.MinInt32, math.MaxInt32}[sel])
		}
	case reflect.Int64:
		out.SetInt([]int64{0, 1 << 40, 0, math.MinInt64, math.MaxInt64}[sel])
	case reflect.Uint32:
		out.SetUint([]uint64{0, 4000000000, 0, math.MaxUint32, 1}[sel])
	case reflect.Uint64:
		out.SetUint([]uint64{0, 1 << 63, 0, math.MaxUint64, 1}[sel])
	case reflect.Float32:
		out.SetFloat([]float64{0, 1.5, 0, math.Copysign(0, -1), math.Inf(1)}[sel])
	case reflect.Float64:
		out.SetFloat([]float64{0, -2.25, 0, math.MaxFloat64, math.Copysign(0, -1)}[sel])
	case reflect.String:
		out.SetString([]string{"", "héllo", "", strings.Repeat("0123456789abcdef", 8), "\x00"}[sel])
	default:
		panic("c12: no value domain for Go type " + T.String())
	}
	return out
}

// fillMsg populates a message value (corpus type Child: a=1 int32, s=2 string, next=3 Child, kids=4 repeated Child)
// through reflection only.
func fillMsg(x any, vi, pair int) {
	m := gcore.Reflect(x)
	fds := m.Descriptor().Fields()
	a, s, next, kids := fds.ByName("a"), fds.ByName("s"), fds.ByName("next"), fds.ByName("kids")
	if a == nil || s == nil || next == nil || kids == nil {
		panic("c12: unexpected message type for a message extension: " + string(m.Descriptor().FullName()))
	}
	switch pair*2 + vi {
	case 1:
		m.Set(a, protoreflect.ValueOfInt32(5))
		m.Set(s, protoreflect.ValueOfString("k"))
	case 2:
		// empty message: must still count as set
	case 3:
		n := m.Mutable(next).Message()
		n.Set(a, protoreflect.ValueOfInt32(1))
		l := m.Mutable(kids).List()
		l.Append(l.NewElement())
		e := l.NewElement()
		e.Message().Set(s, protoreflect.ValueOfString("x"))
		l.Append(e)
	default:
		m.Set(a, protoreflect.ValueOfInt32(0)) // explicit zero of a proto2 optional
	}
}

// canon renders an API value canonically: pointer-to-scalar and scalar are told apart, floats by bits,
// nil and empty []byte are equal (bytes by content), messages through a reflection walk.
func canon(v any) string {
	if v == nil {
		return "<nil>"
	}
	return canonV(reflect.ValueOf(v))
}

func canonV(rv reflect.Value) string {
	T := rv.Type()
	switch rv.Kind() {
	case reflect.Ptr:
		if T.Elem().Kind() == reflect.Struct {
			if rv.IsNil() {
				return T.String() + "(nil)"
			}
			return T.String() + gcore.Describe(gcore.Reflect(rv.Interface()))
		}
		if rv.IsNil() {
			return T.String() + "(nil)"
		}
		return "*" + canonV(rv.Elem())
	case reflect.Slice:
		if T.Elem().Kind() == reflect.Uint8 {
			return fmt.Sprintf("[]byte(%x)", rv.Bytes())
		}
		var xs []string
		for i := 0; i < rv.Len(); i++ {
			xs = append(xs, canonV(rv.Index(i)))
		}
		return T.String() + "[" + strings.Join(xs, ",") + "]"
	case reflect.Float32:
		return fmt.Sprintf("%s(bits %#x)", T, math.Float32bits(float32(rv.Float())))
	case reflect.Float64:
		return fmt.Sprintf("%s(bits %#x)", T, math.Float64bits(rv.Float()))
	case reflect.String:
		return fmt.Sprintf("%s(%q)", T, rv.String())
	case reflect.Bool, reflect.Int32, reflect.Int64:
		if rv.Kind() == reflect.Bool {
			return fmt.Sprintf("%s(%v)", T, rv.Bool())
		}
		return fmt.Sprintf("%s(%d)", T, rv.Int())
	case reflect.Uint32, reflect.Uint64:
		return fmt.Sprintf("%s(%d)", T, rv.Uint())
	}
	return fmt.Sprintf("%s{%#v}", T, rv.Interface())
}

func short(s string) string {
	if len(s) > 160 {
		return fmt.Sprintf("%s...(%d chars)", s[:160], len(s))
	}
	return s
}
