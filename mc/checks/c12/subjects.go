package main

import (
	"fmt"
	"reflect"
	"sort"
	"strings"

	gogoproto "github.com/gogo/protobuf/proto"
	golangproto "github.com/golang/protobuf/proto" //nolint: staticcheck // the deprecated V1 API is one of the three runtimes under test
	"google.golang.org/protobuf/proto"
	"google.golang.org/protobuf/reflect/protodesc"
	"google.golang.org/protobuf/reflect/protoreflect"
	"google.golang.org/protobuf/reflect/protoregistry"
	"google.golang.org/protobuf/types/descriptorpb"
	"google.golang.org/protobuf/types/dynamicpb"

	_ "github.com/gogo/protobuf/gogoproto" // registers option extensions of gogo's descriptor.proto messages

	"verif/mc/corpus"
	"verif/mc/lib/gcore"
)

// class is the csproto notion of a runtime (what MsgType distinguishes).
type class int

const (
	cGogo class = iota // csproto.MessageTypeGogo
	cV1                // csproto.MessageTypeGoogleV1
	cV2                // csproto.MessageTypeGoogle
)

func (c class) String() string { return [...]string{"gogo", "googlev1", "googlev2"}[c] }

// ext is one declared extension of a subject, with the descriptor of the owning runtime.
type ext struct {
	short string       // x_int32
	full  string       // declared full name
	num   int32        // declared field number
	desc  any          // the descriptor handed to csproto: *gogo.ExtensionDesc | *golang.ExtensionDesc | protoreflect.ExtensionType
	goT   reflect.Type // Go type of the API value of the owning runtime
	list  bool
	gd    *gogoproto.ExtensionDesc
	ld    *golangproto.ExtensionDesc
	xt    protoreflect.ExtensionType
	// hasDefault: the schema declares [default = ...]; the V1 APIs then return that default for an unset extension
	hasDefault bool
}

// subject is one extendable message type of one runtime.
type subject struct {
	label  string // gogo/p2ext.Extendable
	rt     string // gogo | legacy | gv2 | gv1 | gogo-desc | gv2-desc
	cls    class
	file   string
	newMsg func() any
	exts   []*ext
	// genOK: the generated fast-marshal methods of this type support its extensions, so csproto.Marshal /
	// csproto.Unmarshal and the runtime entry points that dispatch to generated methods may be used.
	genOK   bool
	hasGen  bool // the type carries generated fast-marshal methods at all
	baseNum int32
	gt      *gcore.Type // corpus type (nil for the descriptor.proto subjects)
	// unregistered: the extension types are not in the global registry, so Unmarshal keeps them as unknown fields
	unregistered bool
}

// foreign is a descriptor (or non-descriptor) that does not belong to the subject's runtime.
type foreign struct {
	label  string // "googlev2-desc", "dynamicpb-desc", "nil", "int", ... (part of failure signatures)
	from   string // corpus runtime the descriptor was generated for (gv1 and gv2 are both googlev2)
	desc   any
	strict bool         // Go kind differs from what csproto accepts for the subject's class
	goT    reflect.Type // API value type of the foreign runtime (nil: only values of the subject's runtime are tried)
	isDesc bool
}

func discover() (subs []*subject, notes []string) {
	byKey := map[string]*subject{}
	for _, t := range gcore.Types() {
		if !(strings.HasPrefix(t.File, "p2ext") || t.File == "p2def") || t.File == "p2extreq" || t.Name != "Extendable" { // p2extreq (required fields inside an extension value) is C17 territory
			continue
		}
		s := &subject{label: fmt.Sprintf("%s/%s.%s", t.RT, t.File, t.Name), rt: string(t.RT), file: t.File, newMsg: t.New, hasGen: true, baseNum: 1, gt: t}
		s.genOK = t.File != "p2extrep" && t.File != "p2extfile" // recorded limitations of the generated code (C04/C05/C06 findings)
		m := t.New()
		switch t.RT {
		case corpus.Gogo:
			s.cls = cGogo
			for n, d := range gogoproto.RegisteredExtensions(m.(gogoproto.Message)) {
				s.exts = append(s.exts, &ext{short: lastName(d.Name), full: d.Name, num: n, desc: d, gd: d, goT: reflect.TypeOf(d.ExtensionType)})
			}
		case corpus.Legacy:
			s.cls = cV1
			for n, d := range golangproto.RegisteredExtensions(m.(golangproto.Message)) {
				full := string(d.TypeDescriptor().FullName())
				s.exts = append(s.exts, &ext{short: lastName(full), full: full, num: n, desc: d, ld: d, xt: d, goT: reflect.TypeOf(d.ExtensionType)})
			}
		default:
			s.cls = cV2
			protoregistry.GlobalTypes.RangeExtensionsByMessage(t.Full, func(xt protoreflect.ExtensionType) bool {
				xd := xt.TypeDescriptor()
				s.exts = append(s.exts, &ext{short: string(xd.Name()), full: string(xd.FullName()), num: int32(xd.Number()), desc: xt, xt: xt, goT: v2GoType(xt)})
				return true
			})
		}
		finish(s)
		// the declared numbers / names must be the ones of the corpus definition
		ref := t.Exts()
		if len(ref) != len(s.exts) {
			panic(fmt.Sprintf("%s: %d registered extensions, corpus declares %d", s.label, len(s.exts), len(ref)))
		}
		for i, x := range ref {
			xd := x.TypeDescriptor()
			if int32(xd.Number()) != s.exts[i].num || string(xd.FullName()) != s.exts[i].full {
				panic(fmt.Sprintf("%s: registered extension %s=%d, corpus declares %s=%d", s.label, s.exts[i].full, s.exts[i].num, xd.FullName(), xd.Number()))
			}
			s.exts[i].hasDefault = xd.HasDefault()
		}
		subs = append(subs, s)
		byKey[s.label] = s
	}

	// option extensions of gogo's descriptor.proto messages (registered by github.com/gogo/protobuf/gogoproto);
	// these message types carry no generated fast-marshal methods.
	if gt := gogoproto.MessageType("google.protobuf.FieldOptions"); gt != nil {
		s := &subject{label: "gogo-desc/descriptor.FieldOptions", rt: "gogo-desc", cls: cGogo, file: "descriptor", genOK: true,
			newMsg: func() any { return reflect.New(gt.Elem()).Interface() }}
		reg := gogoproto.RegisteredExtensions(s.newMsg().(gogoproto.Message))
		var nums []int
		for n := range reg {
			nums = append(nums, int(n))
		}
		sort.Ints(nums)
		seen := map[reflect.Type]bool{}
		for _, n := range nums { // first extension of each distinct Go type (bool, string), at most two
			d := reg[int32(n)]
			T := reflect.TypeOf(d.ExtensionType)
			if seen[T] || len(s.exts) == 2 {
				continue
			}
			seen[T] = true
			s.exts = append(s.exts, &ext{short: lastName(d.Name), full: d.Name, num: int32(n), desc: d, gd: d, goT: T})
		}
		if len(s.exts) > 0 {
			finish(s)
			subs = append(subs, s)
		} else {
			notes = append(notes, "no option extension of gogo descriptor.FieldOptions registered")
		}
	} else {
		notes = append(notes, "gogo descriptor.FieldOptions not linked")
	}

	// option extensions of google.protobuf.FieldOptions (descriptorpb, Google V2): registered ones if any are
	// linked, else two dynamic extension types (protoreflect.ExtensionType that is NOT a generated ExtensionInfo).
	{
		full := protoreflect.FullName("google.protobuf.FieldOptions")
		s := &subject{label: "gv2-desc/descriptorpb.FieldOptions", rt: "gv2-desc", cls: cV2, file: "descriptor", genOK: true,
			newMsg: func() any { return &descriptorpb.FieldOptions{} }}
		protoregistry.GlobalTypes.RangeExtensionsByMessage(full, func(xt protoreflect.ExtensionType) bool {
			xd := xt.TypeDescriptor()
			if len(s.exts) < 2 && !xd.IsList() {
				s.exts = append(s.exts, &ext{short: string(xd.Name()), full: string(xd.FullName()), num: int32(xd.Number()), desc: xt, xt: xt, goT: v2GoType(xt)})
			}
			return true
		})
		if len(s.exts) == 0 {
			notes = append(notes, "no option extension of google.protobuf.FieldOptions registered in the binary: using two dynamicpb extension types built for this check")
			fdp := &descriptorpb.FileDescriptorProto{
				Name: proto.String("verif/c12/opts.proto"), Package: proto.String("verif.c12"), Syntax: proto.String("proto2"),
				Dependency: []string{"google/protobuf/descriptor.proto"},
				Extension: []*descriptorpb.FieldDescriptorProto{
					{Name: proto.String("opt_s"), Number: proto.Int32(50001), Label: descriptorpb.FieldDescriptorProto_LABEL_OPTIONAL.Enum(), Type: descriptorpb.FieldDescriptorProto_TYPE_STRING.Enum(), Extendee: proto.String(".google.protobuf.FieldOptions")},
					{Name: proto.String("opt_i"), Number: proto.Int32(50002), Label: descriptorpb.FieldDescriptorProto_LABEL_OPTIONAL.Enum(), Type: descriptorpb.FieldDescriptorProto_TYPE_SINT32.Enum(), Extendee: proto.String(".google.protobuf.FieldOptions")},
				},
			}
			s.unregistered = true
			fd, err := protodesc.NewFile(fdp, protoregistry.GlobalFiles)
			if err != nil {
				panic("c12 option extensions: " + err.Error())
			}
			for i := 0; i < fd.Extensions().Len(); i++ {
				xt := dynamicpb.NewExtensionType(fd.Extensions().Get(i))
				xd := xt.TypeDescriptor()
				s.exts = append(s.exts, &ext{short: string(xd.Name()), full: string(xd.FullName()), num: int32(xd.Number()), desc: xt, xt: xt, goT: v2GoType(xt)})
			}
		}
		finish(s)
		subs = append(subs, s)
	}
	return subs, notes
}

func finish(s *subject) {
	sort.Slice(s.exts, func(i, j int) bool { return s.exts[i].num < s.exts[j].num })
	for _, e := range s.exts {
		e.list = e.goT.Kind() == reflect.Slice && e.goT.Elem().Kind() != reflect.Uint8
	}
}

func lastName(full string) string {
	if i := strings.LastIndexByte(full, '.'); i >= 0 {
		return full[i+1:]
	}
	return full
}

// v2GoType is the Go type the V2 API uses for values of xt.
func v2GoType(xt protoreflect.ExtensionType) reflect.Type {
	return reflect.TypeOf(xt.InterfaceOf(xt.Zero()))
}

// foreignDescs lists, for extension e of subject s, the descriptors of the SAME declared extension in every other
// runtime of the corpus, a dynamicpb extension type of the reference schema, and non-descriptor values.
func foreignDescs(s *subject, e *ext, all []*subject) []foreign {
	var out []foreign
	for _, o := range all {
		if o == s || o.gt == nil || s.gt == nil {
			continue
		}
		var oe *ext
		for _, x := range o.exts {
			if x.num == e.num {
				oe = x
			}
		}
		if oe == nil {
			continue
		}
		if o.file != s.file || o.cls == s.cls {
			// a descriptor of the SAME Go type that extends ANOTHER message: the other google flavour's copy of the file
			// (gv1 <-> gv2), or the equally numbered extension of another corpus file of the same runtime
			if o.cls != s.cls || (o.file != s.file && o.rt != s.rt) || (o.file == s.file && o.rt == s.rt) {
				continue
			}
			if o.file != s.file && o.file != "p2def" && s.file != "p2def" {
				continue // one other file is enough: the p2ext* family against p2def
			}
			if s.cls == cGogo {
				// gogo's own HasExtension / ClearExtension go by field number only, so with a gogo descriptor of another gogo
				// message csproto answers what the owning runtime answers: that is the property's differential clause, and
				// there is no "false or error" expectation to check here
				continue
			}
			out = append(out, foreign{label: "same-class-desc-of-another-message", from: o.rt + "/" + o.file, desc: oe.desc, goT: oe.goT, isDesc: true})
			continue
		}
		if o.rt == s.rt {
			continue
		}
		f := foreign{label: o.cls.String() + "-desc", from: o.rt, desc: oe.desc, goT: oe.goT, isDesc: true}
		switch s.cls {
		case cGogo:
			f.strict = true
		case cV1:
			f.strict = o.cls == cGogo // generated V2 descriptors are *protoimpl.ExtensionInfo == *golang ExtensionDesc
		case cV2:
			f.strict = o.cls == cGogo // *golang ExtensionDesc implements protoreflect.ExtensionType
		}
		out = append(out, f)
	}
	if s.gt != nil && s.cls != cV2 {
		// a protoreflect.ExtensionType that is not a generated ExtensionInfo
		if dx := dynamicTwin(s, e); dx != nil {
			out = append(out, foreign{label: "dynamicpb-desc", desc: dx, strict: true, isDesc: true})
		}
	}
	out = append(out,
		foreign{label: "nil", desc: nil, strict: true},
		foreign{label: "int", desc: 42, strict: true},
		foreign{label: "string", desc: "x", strict: true},
	)
	return out
}

func dynamicTwin(s *subject, e *ext) protoreflect.ExtensionType {
	for _, x := range s.gt.Exts() {
		if int32(x.TypeDescriptor().Number()) == e.num {
			return x
		}
	}
	return nil
}
