package main

// "Undecoded" state: the bytes of an extension field sit in the message's unknown-field storage (the message was
// decoded by code that did not know the extension - another file's extension, a generated Unmarshal, a raw copy). The
// runtimes differ in what their accessors do with such bytes (golang/protobuf's HasExtension scans the unknown
// fields and its GetExtension decodes them on demand; protobuf-go and gogo do not look there), and the answers
// depend on the order of the calls. The property only asks that csproto answers like the owning runtime: the same
// call sequence is applied to a message through csproto and to a twin through the runtime's own API, for every subject,
// every extension, both values and every sequence of <= 3 calls over {Has, Get, Clear}.

import (
	"fmt"
	"reflect"

	"google.golang.org/protobuf/proto"
	"verif/mc/lib/ev"
	"verif/mc/lib/gcore"
)

func setUnknown(s *subject, m any, b []byte) (ok bool) {
	defer func() {
		if recover() != nil {
			ok = false
		}
	}()
	switch s.cls {
	case cV2:
		m.(proto.Message).ProtoReflect().SetUnknown(append([]byte{}, b...))
		return true
	case cV1:
		gcore.Reflect(m).SetUnknown(append([]byte{}, b...))
		return true
	default:
		f := reflect.ValueOf(m).Elem().FieldByName("XXX_unrecognized")
		if !f.IsValid() {
			return false
		}
		f.SetBytes(append([]byte{}, b...))
		return true
	}
}

func undecoded(r *ev.Run, subs []*subject) {
	calls := []string{"Has", "Get", "Clear"}
	var seqs [][]string
	for _, a := range calls {
		seqs = append(seqs, []string{a})
		for _, b := range calls {
			seqs = append(seqs, []string{a, b})
			for _, c := range calls {
				seqs = append(seqs, []string{a, b, c})
			}
		}
	}
	var n, installed int64
	for _, s := range subs {
		for _, e := range s.exts {
			for vi := 1; vi <= 2; vi++ {
				src := s.newMsg()
				if err := rtSet(s, src, e, mk(e.goT, vi, 0).Interface()); err != nil {
					continue
				}
				b, err := indepBytes(s, src)
				if err != nil || len(b) == 0 {
					continue
				}
				for _, seq := range seqs {
					m, twin := s.newMsg(), s.newMsg()
					if !setUnknown(s, m, b) || !setUnknown(s, twin, b) {
						continue
					}
					installed++
					id := fmt.Sprintf("%s/%s/v%d/%v", s.label, e.short, vi, seq)
					for i, c := range seq {
						n++
						at := fmt.Sprintf("call %d of %v", i+1, seq)
						switch c {
						case "Has":
							has, pan := csHas(m, e.desc)
							var rh bool
							rpan := guard(func() { rh = rtHas(s, twin, e) })
							if pan != nil && rpan == nil || pan == nil && rpan == nil && has != rh {
								r.Fail(fmt.Sprintf("undecoded-extension/HasExtension/%s/%s/differs-from-runtime", s.rt, e.short), id, map[string]any{"at": at, "csproto": has, "runtime": rh, "panic": fmt.Sprint(pan), "unknown_bytes": fmt.Sprintf("%x", b)})
							}
						case "Get":
							v, err, pan := csGet(m, e.desc)
							var rv any
							var rerr error
							rpan := guard(func() { rv, rerr = rtGet(s, twin, e) })
							if pan != nil && rpan == nil || pan == nil && rpan == nil && (canon(v) != canon(rv) || (err == nil) != (rerr == nil)) {
								r.Fail(fmt.Sprintf("undecoded-extension/GetExtension/%s/%s/differs-from-runtime", s.rt, e.short), id, map[string]any{"at": at, "csproto": short(canon(v)), "csproto_err": errStr(err), "runtime": short(canon(rv)), "runtime_err": errStr(rerr), "panic": fmt.Sprint(pan), "unknown_bytes": fmt.Sprintf("%x", b)})
							}
						case "Clear":
							pan := csClear(m, e.desc)
							rpan := guard(func() { rtClear(s, twin, e) })
							if pan != nil && rpan == nil {
								r.Fail(fmt.Sprintf("undecoded-extension/ClearExtension/%s/%s/panic", s.rt, e.short), id, map[string]any{"at": at, "panic": fmt.Sprint(pan)})
							}
						}
					}
					// afterwards both messages hold the same thing
					mb, merr := indepBytes(s, m)
					tb, terr := indepBytes(s, twin)
					n++
					if (merr == nil) != (terr == nil) || merr == nil && fmt.Sprintf("%x", mb) != fmt.Sprintf("%x", tb) {
						r.Fail(fmt.Sprintf("undecoded-extension/message-differs-from-twin/%s/%s", s.rt, e.short), id, map[string]any{"csproto_driven": fmt.Sprintf("%x", mb), "runtime_driven": fmt.Sprintf("%x", tb), "errors": fmt.Sprint(merr, " ", terr)})
					}
				}
			}
		}
	}
	r.Evals(n)
	r.Set("undecoded_extension_call_sequences", installed)
}
