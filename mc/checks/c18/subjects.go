package main

import (
	"fmt"
	"math"
	"reflect"
	"strings"
	"time"

	gogoproto "github.com/gogo/protobuf/proto"
	gogotest "github.com/gogo/protobuf/test/combos/both"
	gogostd "github.com/gogo/protobuf/test/stdtypes"
	gogotypes "github.com/gogo/protobuf/types"
	"google.golang.org/protobuf/reflect/protoreflect"
	"google.golang.org/protobuf/types/dynamicpb"
	"google.golang.org/protobuf/types/known/anypb"
	"google.golang.org/protobuf/types/known/durationpb"
	"google.golang.org/protobuf/types/known/emptypb"
	"google.golang.org/protobuf/types/known/fieldmaskpb"
	"google.golang.org/protobuf/types/known/structpb"
	"google.golang.org/protobuf/types/known/timestamppb"
	"google.golang.org/protobuf/types/known/wrapperspb"

	p2gogo "github.com/CrowdStrike/csproto/example/proto2/gogo"
	p2gv1 "github.com/CrowdStrike/csproto/example/proto2/googlev1"
	p2gv2 "github.com/CrowdStrike/csproto/example/proto2/googlev2"
	p3gogo "github.com/CrowdStrike/csproto/example/proto3/gogo"
	p3gv1 "github.com/CrowdStrike/csproto/example/proto3/googlev1"
	p3gv2 "github.com/CrowdStrike/csproto/example/proto3/googlev2"

	"verif/mc/corpus"
	"verif/mc/lib/gcore"
)

// runtime labels
const (
	rtGogo   = "gogo"   // github.com/gogo/protobuf structs (csproto.MessageTypeGogo)
	rtLegacy = "legacy" // genuine golang/protobuf v1 structs (csproto.MessageTypeGoogleV1)
	rtGV2    = "gv2"    // protobuf-go generated (csproto.MessageTypeGoogle)
	rtGV1    = "gv1"    // golang/protobuf 1.5 protoc-gen-go output = APIv2 messages (csproto.MessageTypeGoogle)
)

// vcase is one message value: build returns a FRESH populated message each time.
type vcase struct {
	id    string
	build func() any
}

// subject is one message type of one runtime with its enumerated values.
type subject struct {
	rt    string
	typ   string // "p3.Scalars", "ex3.TestEvent", "wkt.Timestamp", "gogoext.StdTypes"
	group string // corpus | example | wkt | gogoext
	fresh func() any
	cases []vcase
	// reflectOK: the protoreflect view (gcore.Reflect) is usable: equality through gcore.Diff and the
	// descriptor-driven option probes. false for gogo types with gogoproto extensions (stdtime, customtype):
	// equality through the type's own Equal / gogo proto.Equal, structural probes only.
	reflectOK bool
	// delegates: the type implements json.Marshaler itself (structpb.Struct/Value/ListValue); the adapter is
	// documented to call it directly, so the formatting options do not apply.
	delegates bool
	wkt       bool
}

func (s *subject) name() string { return s.rt + "/" + s.typ }

// ---------------------------------------------------------------------------------------------
// corpus types

var quickCorpus = map[string]bool{
	"p3.Scalars": true, "p3.Repeated": true, "p3.Oneofs": true, "p3.MapsV": true,
	"p2.Scalars": true, "p2.Repeated": true, "p2.Oneofs": true, "p2.MapsV": true, "p2.Required": true, "p2.ReqMix": true,
}

var specialStrings = []struct{ name, s string }{
	{"quotes", `say "hi" \ back\slash /slash`},
	{"controls", "\x00\x01\b\f\n\r\t\x1f\x7f"},
	{"html", "<script>&amp;</script>"},
	{"u2028", "line sep para"},
	{"nonbmp", "g\U0001D11Eclef \U0001F600"},
	{"bmp", "héllo wörld 世界 �"},
	{"jsonish", `{"a":[1,2,{"b":null}]}`},
	{"numberish", "-0.0e+10"},
	// text that already LOOKS escaped: a value holding the six characters backslash-u-0-0-3-c (JSON text inside a string,
	// as HTML-safe encoders produce it), escape-like and surrogate-like sequences, a lone backslash at the end
	{"escaped-looking", `{"html":"\u003cb\u003e \u0026amp; \n \" \\"} \ud83d \u00e9 \`},
	{"percent-and-backslash-u", `100%\u003c%s\u003e%d`},
}

func allBytes() []byte {
	b := make([]byte, 256)
	for i := range b {
		b[i] = byte(i)
	}
	return b
}

func corpusSubjects(thorough bool, notLinked *[]string) []*subject {
	var out []*subject
	for _, rt := range []corpus.Runtime{corpus.Gogo, corpus.Legacy, corpus.GV2, corpus.GV1} {
		for _, f := range []string{"p3", "p2", "p3opt"} {
			spec, ok := corpus.Spec(f)
			if ok && spec.For(rt) && !gcore.Linked(rt, f) {
				*notLinked = append(*notLinked, string(rt)+"/"+f)
			}
		}
	}
	for _, t := range gcore.Types() {
		t := t
		if t.File != "p3" && t.File != "p2" && t.File != "p3opt" {
			continue
		}
		key := t.File + "." + t.Name
		if !thorough && !quickCorpus[key] {
			continue
		}
		md := t.RefDesc()
		s := &subject{rt: string(t.RT), typ: key, group: "corpus", fresh: t.New, reflectOK: true}
		var cs []gcore.Case
		cs = append(cs, gcore.Singles(md, thorough)...)
		cs = append(cs, gcore.Specials(md)...)
		if thorough && (t.Name == "Scalars" || t.Name == "Oneofs" || t.Name == "ReqMix" || t.Name == "Optionals") {
			cs = append(cs, gcore.Pairs(md)...)
		}
		cs = append(cs, extraCases(md)...)
		for _, c := range cs {
			c := c
			fillRequiredDeep(c.Msg)
			s.cases = append(s.cases, vcase{id: c.ID, build: func() any {
				x := t.New()
				gcore.Copy(gcore.Reflect(x), c.Msg)
				return x
			}})
		}
		out = append(out, s)
	}
	return out
}

// extraCases adds JSON-hostile string / bytes payloads (escaping, control characters, non-BMP runes,
// every byte value) to any message that has a singular string, bytes or map<string,string> field.
func extraCases(md protoreflect.MessageDescriptor) []gcore.Case {
	var out []gcore.Case
	fds := md.Fields()
	var fs, fb, fm protoreflect.FieldDescriptor
	for i := 0; i < fds.Len(); i++ {
		fd := fds.Get(i)
		switch {
		case fd.IsMap():
			if fm == nil && fd.MapKey().Kind() == protoreflect.StringKind && fd.MapValue().Kind() == protoreflect.StringKind {
				fm = fd
			}
		case fd.IsList():
		case fd.Kind() == protoreflect.StringKind && fs == nil && fd.ContainingOneof() == nil:
			fs = fd
		case fd.Kind() == protoreflect.BytesKind && fb == nil && fd.ContainingOneof() == nil:
			fb = fd
		}
	}
	for _, sp := range specialStrings {
		if fs != nil {
			m := dynamicpb.NewMessage(md)
			m.Set(fs, protoreflect.ValueOfString(sp.s))
			out = append(out, gcore.Case{ID: fmt.Sprintf("%s=str:%s", fs.Name(), sp.name), Msg: m})
		}
		if fm != nil {
			m := dynamicpb.NewMessage(md)
			m.Mutable(fm).Map().Set(protoreflect.ValueOfString(sp.s).MapKey(), protoreflect.ValueOfString(sp.s))
			out = append(out, gcore.Case{ID: fmt.Sprintf("%s=mapstr:%s", fm.Name(), sp.name), Msg: m})
		}
	}
	if fb != nil {
		for _, bc := range []struct {
			n string
			b []byte
		}{{"all256", allBytes()}, {"ff", []byte{0xff}}, {"fbff", []byte{0xfb, 0xff}}, {"two", []byte{0, 1}}} {
			m := dynamicpb.NewMessage(md)
			m.Set(fb, protoreflect.ValueOfBytes(bc.b))
			out = append(out, gcore.Case{ID: fmt.Sprintf("%s=bytes:%s", fb.Name(), bc.n), Msg: m})
		}
	}
	return out
}

// ---------------------------------------------------------------------------------------------
// the repository's example packages

type exType struct {
	rt, name string
	fresh    func() any
}

func exampleTypes() []exType {
	return []exType{
		{rtGogo, "ex2.BaseEvent", func() any { return &p2gogo.BaseEvent{} }},
		{rtGogo, "ex2.TestEvent", func() any { return &p2gogo.TestEvent{} }},
		{rtGogo, "ex2.EmbeddedEvent", func() any { return &p2gogo.EmbeddedEvent{} }},
		{rtGogo, "ex2.AllTheThings", func() any { return &p2gogo.AllTheThings{} }},
		{rtGogo, "ex2.RepeatAllTheThings", func() any { return &p2gogo.RepeatAllTheThings{} }},
		{rtGogo, "ex2.EventUsingWKTs", func() any { return &p2gogo.EventUsingWKTs{} }},
		{rtGogo, "ex2.I18nVariable", func() any { return &p2gogo.I18NVariable{} }},
		{rtGogo, "ex2.Msg", func() any { return &p2gogo.Msg{} }},
		{rtGogo, "ex3.TestEvent", func() any { return &p3gogo.TestEvent{} }},
		{rtGogo, "ex3.EmbeddedEvent", func() any { return &p3gogo.EmbeddedEvent{} }},
		{rtGogo, "ex3.AllTheThings", func() any { return &p3gogo.AllTheThings{} }},
		{rtGogo, "ex3.RepeatAllTheThings", func() any { return &p3gogo.RepeatAllTheThings{} }},
		{rtGogo, "ex3.EventUsingWKTs", func() any { return &p3gogo.EventUsingWKTs{} }},
		{rtGogo, "ex3.I18nVariable", func() any { return &p3gogo.I18NVariable{} }},
		{rtGogo, "ex3.Msg", func() any { return &p3gogo.Msg{} }},

		{rtGV1, "ex2.BaseEvent", func() any { return &p2gv1.BaseEvent{} }},
		{rtGV1, "ex2.TestEvent", func() any { return &p2gv1.TestEvent{} }},
		{rtGV1, "ex2.EmbeddedEvent", func() any { return &p2gv1.EmbeddedEvent{} }},
		{rtGV1, "ex2.AllTheThings", func() any { return &p2gv1.AllTheThings{} }},
		{rtGV1, "ex2.RepeatAllTheThings", func() any { return &p2gv1.RepeatAllTheThings{} }},
		{rtGV1, "ex2.EventUsingWKTs", func() any { return &p2gv1.EventUsingWKTs{} }},
		{rtGV1, "ex2.I18nVariable", func() any { return &p2gv1.I18NVariable{} }},
		{rtGV1, "ex2.Msg", func() any { return &p2gv1.Msg{} }},
		{rtGV1, "ex3.TestEvent", func() any { return &p3gv1.TestEvent{} }},
		{rtGV1, "ex3.EmbeddedEvent", func() any { return &p3gv1.EmbeddedEvent{} }},
		{rtGV1, "ex3.AllTheThings", func() any { return &p3gv1.AllTheThings{} }},
		{rtGV1, "ex3.RepeatAllTheThings", func() any { return &p3gv1.RepeatAllTheThings{} }},
		{rtGV1, "ex3.EventUsingWKTs", func() any { return &p3gv1.EventUsingWKTs{} }},
		{rtGV1, "ex3.I18nVariable", func() any { return &p3gv1.I18NVariable{} }},
		{rtGV1, "ex3.Msg", func() any { return &p3gv1.Msg{} }},

		{rtGV2, "ex2.BaseEvent", func() any { return &p2gv2.BaseEvent{} }},
		{rtGV2, "ex2.TestEvent", func() any { return &p2gv2.TestEvent{} }},
		{rtGV2, "ex2.EmbeddedEvent", func() any { return &p2gv2.EmbeddedEvent{} }},
		{rtGV2, "ex2.AllTheThings", func() any { return &p2gv2.AllTheThings{} }},
		{rtGV2, "ex2.RepeatAllTheThings", func() any { return &p2gv2.RepeatAllTheThings{} }},
		{rtGV2, "ex2.EventUsingWKTs", func() any { return &p2gv2.EventUsingWKTs{} }},
		{rtGV2, "ex3.TestEvent", func() any { return &p3gv2.TestEvent{} }},
		{rtGV2, "ex3.EmbeddedEvent", func() any { return &p3gv2.EmbeddedEvent{} }},
		{rtGV2, "ex3.AllTheThings", func() any { return &p3gv2.AllTheThings{} }},
		{rtGV2, "ex3.RepeatAllTheThings", func() any { return &p3gv2.RepeatAllTheThings{} }},
		{rtGV2, "ex3.EventUsingWKTs", func() any { return &p3gv2.EventUsingWKTs{} }},
		{rtGV2, "ex3.MapObject", func() any { return &p3gv2.MapObject{} }},
		{rtGV2, "ex3.Maps", func() any { return &p3gv2.Maps{} }},
		{rtGV2, "ex3.OneOfs", func() any { return &p3gv2.OneOfs{} }},
		{rtGV2, "ex3.Optionals", func() any { return &p3gv2.Optionals{} }},
		{rtGV2, "ex3.I18nVariable", func() any { return &p3gv2.I18NVariable{} }},
		{rtGV2, "ex3.Msg", func() any { return &p3gv2.Msg{} }},
	}
}

var quickExamples = map[string]bool{"TestEvent": true, "EventUsingWKTs": true, "AllTheThings": true, "Maps": true, "OneOfs": true, "Optionals": true, "Msg": true}

func exampleSubjects(thorough bool) []*subject {
	var out []*subject
	for _, et := range exampleTypes() {
		et := et
		short := et.name[strings.Index(et.name, ".")+1:]
		if !thorough && !quickExamples[short] {
			continue
		}
		md := gcore.Reflect(et.fresh()).Descriptor()
		s := &subject{rt: et.rt, typ: et.name, group: "example", fresh: et.fresh, reflectOK: true}
		var cs []gcore.Case
		cs = append(cs, gcore.Singles(md, false)...)
		cs = append(cs, gcore.Specials(md)...)
		cs = append(cs, extraCases(md)...)
		cs = append(cs, handBuilt(md)...)
		for _, c := range cs {
			c := c
			fillRequiredDeep(c.Msg)
			s.cases = append(s.cases, vcase{id: c.ID, build: func() any {
				x := et.fresh()
				gcore.Copy(gcore.Reflect(x), c.Msg)
				return x
			}})
		}
		out = append(out, s)
	}
	return out
}

// handBuilt fills an example message "realistically" by field name (the six example packages share
// their field names): every named field that exists is set.
func handBuilt(md protoreflect.MessageDescriptor) []gcore.Case {
	var out []gcore.Case
	for variant := 0; variant < 3; variant++ {
		m := dynamicpb.NewMessage(md)
		fillByName(m, variant, 0)
		out = append(out, gcore.Case{ID: fmt.Sprintf("hand:%d", variant), Msg: m})
	}
	return out
}

func fillByName(m protoreflect.Message, variant, depth int) {
	fds := m.Descriptor().Fields()
	seenOneof := map[protoreflect.FullName]int{}
	for i := 0; i < fds.Len(); i++ {
		fd := fds.Get(i)
		if oo := fd.ContainingOneof(); oo != nil && !oo.IsSynthetic() {
			// variant selects the oneof member
			idx := seenOneof[oo.FullName()]
			seenOneof[oo.FullName()]++
			if idx != variant%oo.Fields().Len() {
				continue
			}
		}
		switch {
		case fd.IsMap():
			mp := m.Mutable(fd).Map()
			for k := 0; k <= variant; k++ {
				var key protoreflect.MapKey
				switch fd.MapKey().Kind() {
				case protoreflect.StringKind:
					key = protoreflect.ValueOfString(fmt.Sprintf("key-%d", k)).MapKey()
				case protoreflect.BoolKind:
					key = protoreflect.ValueOfBool(k%2 == 1).MapKey()
				case protoreflect.Int32Kind, protoreflect.Sint32Kind, protoreflect.Sfixed32Kind:
					key = protoreflect.ValueOfInt32(int32(k*1000 - 7)).MapKey()
				case protoreflect.Int64Kind, protoreflect.Sint64Kind, protoreflect.Sfixed64Kind:
					key = protoreflect.ValueOfInt64(int64(k)<<40 - 7).MapKey()
				case protoreflect.Uint32Kind, protoreflect.Fixed32Kind:
					key = protoreflect.ValueOfUint32(uint32(k*1000 + 7)).MapKey()
				default:
					key = protoreflect.ValueOfUint64(uint64(k)<<40 + 7).MapKey()
				}
				if fd.MapValue().Message() != nil {
					v := mp.NewValue()
					fillWKTorByName(v.Message(), variant+k, depth+1)
					mp.Set(key, v)
				} else {
					mp.Set(key, handScalar(fd.MapValue(), variant+k))
				}
			}
		case fd.IsList():
			l := m.Mutable(fd).List()
			for k := 0; k < variant+1; k++ {
				if fd.Message() != nil {
					e := l.NewElement()
					fillWKTorByName(e.Message(), variant+k, depth+1)
					l.Append(e)
				} else {
					l.Append(handScalar(fd, variant+k))
				}
			}
		case fd.Message() != nil:
			if depth > 3 {
				continue
			}
			fillWKTorByName(m.Mutable(fd).Message(), variant, depth+1)
		default:
			m.Set(fd, handScalar(fd, variant))
		}
	}
}

func fillWKTorByName(m protoreflect.Message, variant, depth int) {
	md := m.Descriptor()
	switch md.FullName() {
	case "google.protobuf.Timestamp":
		m.Set(md.Fields().ByName("seconds"), protoreflect.ValueOfInt64(1700000000+int64(variant)))
		m.Set(md.Fields().ByName("nanos"), protoreflect.ValueOfInt32([]int32{123456789, 0, 500000000}[variant%3]))
	case "google.protobuf.Struct":
		s, err := structpb.NewStruct(map[string]any{"n": 1.5, "s": "x", "b": true, "nil": nil, "l": []any{1.0, "two", map[string]any{"deep": false}}, "o": map[string]any{"k": float64(variant)}})
		if err != nil {
			panic(err)
		}
		gcore.Copy(m, s.ProtoReflect())
	default:
		fillByName(m, variant, depth)
	}
}

func handScalar(fd protoreflect.FieldDescriptor, variant int) protoreflect.Value {
	V := protoreflect.ValueOf
	switch fd.Kind() {
	case protoreflect.BoolKind:
		return V(variant%2 == 0)
	case protoreflect.Int32Kind, protoreflect.Sint32Kind, protoreflect.Sfixed32Kind:
		return V([]int32{42, -42, math.MinInt32}[variant%3])
	case protoreflect.Int64Kind, protoreflect.Sint64Kind, protoreflect.Sfixed64Kind:
		return V([]int64{1 << 53, -(1<<53 + 1), math.MaxInt64}[variant%3]) // beyond float64-exact range
	case protoreflect.Uint32Kind, protoreflect.Fixed32Kind:
		return V([]uint32{42, 1 << 31, math.MaxUint32}[variant%3])
	case protoreflect.Uint64Kind, protoreflect.Fixed64Kind:
		return V([]uint64{1<<53 + 1, 1 << 63, math.MaxUint64}[variant%3])
	case protoreflect.FloatKind:
		return V([]float32{1.5, -3.4028235e38, 1e-45}[variant%3])
	case protoreflect.DoubleKind:
		return V([]float64{0.1, -1.7976931348623157e308, 5e-324}[variant%3])
	case protoreflect.StringKind:
		return V([]string{"the-" + string(fd.Name()), specialStrings[0].s, specialStrings[4].s}[variant%3])
	case protoreflect.BytesKind:
		return V([][]byte{[]byte("bytes"), {0xff, 0x00, 0xfe}, allBytes()}[variant%3])
	case protoreflect.EnumKind:
		vals := fd.Enum().Values()
		return V(vals.Get(variant % vals.Len()).Number())
	}
	panic("handScalar " + fd.Kind().String())
}

// ---------------------------------------------------------------------------------------------
// well-known types used directly as the top-level message

func mustAny(m interface{ ProtoReflect() protoreflect.Message }) *anypb.Any {
	a, err := anypb.New(m.ProtoReflect().Interface())
	if err != nil {
		panic(err)
	}
	return a
}

func wktSubjects() []*subject {
	var out []*subject
	add := func(rt, typ string, fresh func() any, delegates bool, vals ...func() any) {
		s := &subject{rt: rt, typ: "wkt." + typ, group: "wkt", fresh: fresh, reflectOK: true, delegates: delegates, wkt: true}
		for i, v := range vals {
			id := fmt.Sprintf("v%d", i)
			if a, ok := v().(interface{ GetTypeUrl() string }); ok && a.GetTypeUrl() != "" {
				u := a.GetTypeUrl()
				id += ":any-of-" + u[strings.LastIndex(u, "/")+1:]
			}
			s.cases = append(s.cases, vcase{id: id, build: v})
		}
		out = append(out, s)
	}
	// --- protobuf-go
	ts := func(s int64, n int32) func() any {
		return func() any { return &timestamppb.Timestamp{Seconds: s, Nanos: n} }
	}
	add(rtGV2, "Timestamp", func() any { return &timestamppb.Timestamp{} }, false,
		ts(0, 0), ts(1, 5), ts(1700000000, 123456789), ts(-62135596800, 0), ts(253402300799, 999999999), ts(1, 500000000), ts(-1, 1000))
	du := func(s int64, n int32) func() any {
		return func() any { return &durationpb.Duration{Seconds: s, Nanos: n} }
	}
	add(rtGV2, "Duration", func() any { return &durationpb.Duration{} }, false,
		du(0, 0), du(1, 0), du(-1, -5), du(315576000000, 999999999), du(-315576000000, -999999999), du(0, 1000000), du(0, -1))
	add(rtGV2, "BoolValue", func() any { return &wrapperspb.BoolValue{} }, false, func() any { return wrapperspb.Bool(true) }, func() any { return wrapperspb.Bool(false) })
	add(rtGV2, "Int32Value", func() any { return &wrapperspb.Int32Value{} }, false, func() any { return wrapperspb.Int32(0) }, func() any { return wrapperspb.Int32(math.MinInt32) }, func() any { return wrapperspb.Int32(math.MaxInt32) })
	add(rtGV2, "Int64Value", func() any { return &wrapperspb.Int64Value{} }, false, func() any { return wrapperspb.Int64(0) }, func() any { return wrapperspb.Int64(math.MinInt64) }, func() any { return wrapperspb.Int64(math.MaxInt64) }, func() any { return wrapperspb.Int64(1<<53 + 1) })
	add(rtGV2, "UInt32Value", func() any { return &wrapperspb.UInt32Value{} }, false, func() any { return wrapperspb.UInt32(0) }, func() any { return wrapperspb.UInt32(math.MaxUint32) })
	add(rtGV2, "UInt64Value", func() any { return &wrapperspb.UInt64Value{} }, false, func() any { return wrapperspb.UInt64(0) }, func() any { return wrapperspb.UInt64(math.MaxUint64) })
	add(rtGV2, "FloatValue", func() any { return &wrapperspb.FloatValue{} }, false, func() any { return wrapperspb.Float(0) }, func() any { return wrapperspb.Float(1.5) }, func() any { return wrapperspb.Float(float32(math.NaN())) }, func() any { return wrapperspb.Float(float32(math.Inf(-1))) }, func() any { return wrapperspb.Float(math.MaxFloat32) })
	add(rtGV2, "DoubleValue", func() any { return &wrapperspb.DoubleValue{} }, false, func() any { return wrapperspb.Double(0) }, func() any { return wrapperspb.Double(0.1) }, func() any { return wrapperspb.Double(math.Inf(1)) }, func() any { return wrapperspb.Double(math.NaN()) }, func() any { return wrapperspb.Double(math.MaxFloat64) }, func() any { return wrapperspb.Double(math.SmallestNonzeroFloat64) })
	var strs []func() any
	strs = append(strs, func() any { return wrapperspb.String("") }, func() any { return wrapperspb.String("plain") })
	for _, sp := range specialStrings {
		sp := sp
		strs = append(strs, func() any { return wrapperspb.String(sp.s) })
	}
	add(rtGV2, "StringValue", func() any { return &wrapperspb.StringValue{} }, false, strs...)
	add(rtGV2, "BytesValue", func() any { return &wrapperspb.BytesValue{} }, false, func() any { return wrapperspb.Bytes(nil) }, func() any { return wrapperspb.Bytes([]byte{0, 255}) }, func() any { return wrapperspb.Bytes(allBytes()) })
	add(rtGV2, "Empty", func() any { return &emptypb.Empty{} }, false, func() any { return &emptypb.Empty{} })
	add(rtGV2, "FieldMask", func() any { return &fieldmaskpb.FieldMask{} }, false, func() any { return &fieldmaskpb.FieldMask{} }, func() any { return &fieldmaskpb.FieldMask{Paths: []string{"a"}} }, func() any { return &fieldmaskpb.FieldMask{Paths: []string{"a", "b_c.d_e", "f.g"}} })
	mkStruct := func() *structpb.Struct {
		s, err := structpb.NewStruct(map[string]any{"n": 1.5, "big": 1e300, "s": specialStrings[0].s, "b": true, "nil": nil, "l": []any{1.0, "two", map[string]any{"deep": false}, []any{}}, "o": map[string]any{}})
		if err != nil {
			panic(err)
		}
		return s
	}
	add(rtGV2, "Struct", func() any { return &structpb.Struct{} }, true, func() any { return &structpb.Struct{} }, func() any { return mkStruct() }, func() any { s, _ := structpb.NewStruct(map[string]any{"a": 1.0}); return s })
	add(rtGV2, "Value", func() any { return &structpb.Value{} }, true, func() any { return structpb.NewNullValue() }, func() any { return structpb.NewNumberValue(-2.5) }, func() any { return structpb.NewStringValue("x") }, func() any { return structpb.NewBoolValue(true) }, func() any { return structpb.NewStructValue(mkStruct()) }, func() any {
		return structpb.NewListValue(&structpb.ListValue{Values: []*structpb.Value{structpb.NewNumberValue(1), structpb.NewNullValue()}})
	})
	add(rtGV2, "ListValue", func() any { return &structpb.ListValue{} }, true, func() any { return &structpb.ListValue{} }, func() any {
		return &structpb.ListValue{Values: []*structpb.Value{structpb.NewNumberValue(1), structpb.NewStringValue("s"), structpb.NewStructValue(mkStruct())}}
	})
	add(rtGV2, "Any", func() any { return &anypb.Any{} }, false,
		func() any { return &anypb.Any{} },
		func() any { return mustAny(&timestamppb.Timestamp{Seconds: 1, Nanos: 5}) },
		func() any { return mustAny(wrapperspb.Int64(math.MinInt64)) },
		func() any { return mustAny(mustAny(&durationpb.Duration{Seconds: 3})) },
		func() any {
			s, _ := structpb.NewStruct(map[string]any{"only": []any{1.5, "x", nil, true}})
			return mustAny(s)
		},
		func() any {
			return mustAny(&p3gv2.TestEvent{Name: "n", Labels: []string{"a", "b"}, Embedded: &p3gv2.EmbeddedEvent{ID: 7, FavoriteNumbers: []int32{1, 2}}, Ts: &timestamppb.Timestamp{Seconds: 1700000000}, Path: &p3gv2.TestEvent_Jedi{Jedi: true}})
		},
		func() any {
			return mustAny(&p3gv2.AllTheThings{TheEventType: p3gv2.EventType_EVENT_TYPE_TWO, TheInt64: -1 << 60})
		},
	)

	// --- gogo
	gts := func(s int64, n int32) func() any {
		return func() any { return &gogotypes.Timestamp{Seconds: s, Nanos: n} }
	}
	add(rtGogo, "Timestamp", func() any { return &gogotypes.Timestamp{} }, false,
		gts(0, 0), gts(1, 5), gts(1700000000, 123456789), gts(-62135596800, 0), gts(253402300799, 999999999), gts(1, 500000000))
	gdu := func(s int64, n int32) func() any {
		return func() any { return &gogotypes.Duration{Seconds: s, Nanos: n} }
	}
	add(rtGogo, "Duration", func() any { return &gogotypes.Duration{} }, false, gdu(0, 0), gdu(1, 0), gdu(-1, -5), gdu(315576000000, 999999999), gdu(0, 1000000))
	add(rtGogo, "BoolValue", func() any { return &gogotypes.BoolValue{} }, false, func() any { return &gogotypes.BoolValue{Value: true} }, func() any { return &gogotypes.BoolValue{} })
	add(rtGogo, "Int32Value", func() any { return &gogotypes.Int32Value{} }, false, func() any { return &gogotypes.Int32Value{Value: math.MinInt32} }, func() any { return &gogotypes.Int32Value{Value: math.MaxInt32} })
	add(rtGogo, "Int64Value", func() any { return &gogotypes.Int64Value{} }, false, func() any { return &gogotypes.Int64Value{Value: math.MinInt64} }, func() any { return &gogotypes.Int64Value{Value: 1<<53 + 1} })
	add(rtGogo, "UInt32Value", func() any { return &gogotypes.UInt32Value{} }, false, func() any { return &gogotypes.UInt32Value{Value: math.MaxUint32} })
	add(rtGogo, "UInt64Value", func() any { return &gogotypes.UInt64Value{} }, false, func() any { return &gogotypes.UInt64Value{Value: math.MaxUint64} })
	add(rtGogo, "FloatValue", func() any { return &gogotypes.FloatValue{} }, false, func() any { return &gogotypes.FloatValue{Value: 1.5} }, func() any { return &gogotypes.FloatValue{Value: float32(math.Inf(1))} })
	add(rtGogo, "DoubleValue", func() any { return &gogotypes.DoubleValue{} }, false, func() any { return &gogotypes.DoubleValue{Value: 0.1} }, func() any { return &gogotypes.DoubleValue{Value: math.NaN()} })
	var gstrs []func() any
	gstrs = append(gstrs, func() any { return &gogotypes.StringValue{} })
	for _, sp := range specialStrings {
		sp := sp
		gstrs = append(gstrs, func() any { return &gogotypes.StringValue{Value: sp.s} })
	}
	add(rtGogo, "StringValue", func() any { return &gogotypes.StringValue{} }, false, gstrs...)
	add(rtGogo, "BytesValue", func() any { return &gogotypes.BytesValue{} }, false, func() any { return &gogotypes.BytesValue{} }, func() any { return &gogotypes.BytesValue{Value: allBytes()} })
	add(rtGogo, "Empty", func() any { return &gogotypes.Empty{} }, false, func() any { return &gogotypes.Empty{} })
	add(rtGogo, "FieldMask", func() any { return &gogotypes.FieldMask{} }, false, func() any { return &gogotypes.FieldMask{Paths: []string{"a", "b_c.d_e"}} })
	gval := func(k any) *gogotypes.Value {
		switch x := k.(type) {
		case nil:
			return &gogotypes.Value{Kind: &gogotypes.Value_NullValue{}}
		case float64:
			return &gogotypes.Value{Kind: &gogotypes.Value_NumberValue{NumberValue: x}}
		case string:
			return &gogotypes.Value{Kind: &gogotypes.Value_StringValue{StringValue: x}}
		case bool:
			return &gogotypes.Value{Kind: &gogotypes.Value_BoolValue{BoolValue: x}}
		case *gogotypes.Struct:
			return &gogotypes.Value{Kind: &gogotypes.Value_StructValue{StructValue: x}}
		case *gogotypes.ListValue:
			return &gogotypes.Value{Kind: &gogotypes.Value_ListValue{ListValue: x}}
		}
		panic("gval")
	}
	gstruct := func() *gogotypes.Struct {
		return &gogotypes.Struct{Fields: map[string]*gogotypes.Value{
			"n": gval(1.5), "s": gval(specialStrings[0].s), "b": gval(true), "nil": gval(nil),
			"l": gval(&gogotypes.ListValue{Values: []*gogotypes.Value{gval(1.0), gval("two"), gval(&gogotypes.Struct{Fields: map[string]*gogotypes.Value{"deep": gval(false)}})}}),
		}}
	}
	add(rtGogo, "Struct", func() any { return &gogotypes.Struct{} }, false, func() any { return &gogotypes.Struct{} }, func() any { return gstruct() })
	add(rtGogo, "Value", func() any { return &gogotypes.Value{} }, false, func() any { return gval(nil) }, func() any { return gval(-2.5) }, func() any { return gval("x") }, func() any { return gval(gstruct()) })
	gany := func(m gogoproto.Message) func() any {
		return func() any {
			a, err := gogotypes.MarshalAny(m)
			if err != nil {
				panic(err)
			}
			return a
		}
	}
	add(rtGogo, "Any", func() any { return &gogotypes.Any{} }, false,
		gany(&gogotypes.Timestamp{Seconds: 1, Nanos: 5}),
		gany(&gogotypes.Int64Value{Value: math.MinInt64}),
		gany(&p3gogo.EventUsingWKTs{Name: "x", Ts: &gogotypes.Timestamp{Seconds: 1700000000}, EventType: p3gogo.EventType_EVENT_TYPE_ONE}),
		gany(&p3gogo.EmbeddedEvent{ID: 7, Stuff: "s", FavoriteNumbers: []int32{1, 2}}),
	)
	return out
}

// ---------------------------------------------------------------------------------------------
// gogo messages that use gogoproto extensions (the reason to use the gogo runtime at all): stdtime /
// stdduration, customtype, non-nullable embedded messages, custom names. Source: the test packages that
// ship inside the github.com/gogo/protobuf module.

func gogoExtSubjects() []*subject {
	var out []*subject
	add := func(typ string, fresh func() any, vals ...func() any) {
		s := &subject{rt: rtGogo, typ: "gogoext." + typ, group: "gogoext", fresh: fresh, reflectOK: false}
		for i, v := range vals {
			s.cases = append(s.cases, vcase{id: fmt.Sprintf("v%d", i), build: v})
		}
		out = append(out, s)
	}
	t0 := time.Unix(1700000000, 123456789).UTC()
	d0 := 90 * time.Second
	epoch := time.Unix(0, 0).UTC()
	add("StdTypes", func() any { return &gogostd.StdTypes{} },
		func() any { return &gogostd.StdTypes{Timestamp: epoch} },
		func() any {
			return &gogostd.StdTypes{NullableTimestamp: &t0, Timestamp: t0, NullableDuration: &d0, Duration: d0}
		})
	add("NidOptNative", func() any { return &gogotest.NidOptNative{} },
		func() any { return &gogotest.NidOptNative{} },
		func() any {
			return &gogotest.NidOptNative{Field1: 0.5, Field2: 1.5, Field3: -3, Field4: math.MinInt64, Field5: 5, Field6: math.MaxUint64, Field13: true, Field14: "s", Field15: []byte{1, 2}}
		})
	add("NidOptStruct", func() any { return &gogotest.NidOptStruct{} },
		func() any { return &gogotest.NidOptStruct{} },
		func() any {
			return &gogotest.NidOptStruct{Field1: 1, Field3: gogotest.NidOptNative{Field1: 2, Field14: "in"}, Field6: 6, Field14: "x"}
		})
	add("CustomNameNidOptNative", func() any { return &gogotest.CustomNameNidOptNative{} },
		func() any { return &gogotest.CustomNameNidOptNative{FieldA: 1, FieldN: "n"} })
	add("NidOptCustom", func() any { return &gogotest.NidOptCustom{} },
		func() any { return &gogotest.NidOptCustom{} })
	add("NinOptEnum", func() any { return &gogotest.NinOptEnum{} },
		func() any { e := gogotest.C; return &gogotest.NinOptEnum{Field1: &e} })
	return out
}

// ownEqual compares two messages of a subject whose protoreflect view is not usable.
func ownEqual(a, b any) bool {
	if e, ok := a.(interface{ Equal(interface{}) bool }); ok {
		return e.Equal(b)
	}
	if ga, ok := a.(gogoproto.Message); ok {
		if gb, ok := b.(gogoproto.Message); ok {
			return gogoproto.Equal(ga, gb)
		}
	}
	return reflect.DeepEqual(a, b)
}

// fillRequiredDeep completes a value tree: gcore.FillRequired on the message and on every populated
// nested message (singular, repeated, map value), so that every runtime agrees to marshal it.
func fillRequiredDeep(m protoreflect.Message) {
	gcore.FillRequired(m)
	m.Range(func(fd protoreflect.FieldDescriptor, v protoreflect.Value) bool {
		switch {
		case fd.IsList():
			if fd.Message() != nil {
				for i := 0; i < v.List().Len(); i++ {
					fillRequiredDeep(v.List().Get(i).Message())
				}
			}
		case fd.IsMap():
			if fd.MapValue().Message() != nil {
				v.Map().Range(func(_ protoreflect.MapKey, mv protoreflect.Value) bool {
					fillRequiredDeep(mv.Message())
					return true
				})
			}
		case fd.Message() != nil:
			fillRequiredDeep(v.Message())
		}
		return true
	})
}
