package main

// "After a failed call": an adapter call that fails part-way (the runtime has already produced part of the document, or
// consumed part of the input) must leave nothing behind that a later, valid call can observe - neither in the adapter
// nor in package-level state of csproto. For every runtime and option combination: canary outputs are taken first,
// then a call fails mid-document, then the canaries are produced again (new adapter, and the adapter used before the
// failure) and must be byte-identical; the same for decoding (a document that is rejected half-way, then a valid one
// into the same adapter).

import (
	"bytes"
	"encoding/json"
	"fmt"
	"strings"
	"sync"
	"sync/atomic"

	"github.com/CrowdStrike/csproto"
	gogotypes "github.com/gogo/protobuf/types"
	"google.golang.org/protobuf/types/known/anypb"
	"google.golang.org/protobuf/types/known/apipb"
	"google.golang.org/protobuf/types/known/durationpb"
	"google.golang.org/protobuf/types/known/fieldmaskpb"
	"google.golang.org/protobuf/types/known/timestamppb"
	"google.golang.org/protobuf/types/known/wrapperspb"
	"google.golang.org/protobuf/types/known/typepb"
)

// legacyHolder is a genuine golang/protobuf v1 style message (struct tags only) whose second field cannot be rendered
// when it holds an Any of an unregistered type: jsonpb fails after it has written the first field.
type legacyHolder struct {
	Name   *string    `protobuf:"bytes,1,opt,name=name" json:"name,omitempty"`
	Detail *anypb.Any `protobuf:"bytes,2,opt,name=detail" json:"detail,omitempty"`
}

func (m *legacyHolder) Reset()         { *m = legacyHolder{} }
func (m *legacyHolder) String() string { return "legacyHolder" }
func (*legacyHolder) ProtoMessage()    {}

func failingMidDocument(rt string) any {
	name := "a-name-that-is-written-before-the-failure"
	switch rt {
	case rtGogo:
		return &gogotypes.Api{Name: name, Options: []*gogotypes.Option{{Name: "o", Value: &gogotypes.Any{TypeUrl: "type.googleapis.com/not.Registered", Value: []byte{8, 1}}}}}
	case rtLegacy:
		return &legacyHolder{Name: &name, Detail: &anypb.Any{TypeUrl: "type.googleapis.com/not.Registered", Value: []byte{8, 1}}}
	default:
		return &apipb.Api{Name: name, Options: []*typepb.Option{{Name: "o", Value: &anypb.Any{TypeUrl: "type.googleapis.com/not.Registered", Value: []byte{8, 1}}}}}
	}
}

func afterError(c *checker, subs []*subject) {
	r := c.r
	var evals, seqs int64
	defer func() { r.Evals(evals); c.count("after_failed_call_sequences", seqs) }()
	type canary struct {
		s  *subject
		vc vcase
	}
	for _, rt := range []string{rtGogo, rtLegacy, rtGV2, rtGV1} {
		var cans []canary
		for _, s := range subs {
			if s.rt != rt || len(cans) >= 4 {
				continue
			}
			for _, vc := range s.cases {
				out, err, pan := guardB(func() ([]byte, error) { return csproto.JSONMarshaler(vc.build()).MarshalJSON() })
				if pan == "" && err == nil && len(out) > 8 {
					cans = append(cans, canary{s, vc})
					break
				}
			}
		}
		bad := failingMidDocument(rt)
		for _, cb := range c.combos {
			// --- marshal
			type kept struct {
				jm   interface{ MarshalJSON() ([]byte, error) }
				want []byte
			}
			var ks []kept
			for _, cn := range cans {
				jm := csproto.JSONMarshaler(cn.vc.build(), cb.opts()...)
				out, err, pan := guardB(jm.MarshalJSON)
				if err != nil || pan != "" {
					continue
				}
				ks = append(ks, kept{jm, append([]byte{}, out...)})
			}
			badAdapter := csproto.JSONMarshaler(bad, cb.opts()...)
			_, ferr, fpan := guardB(badAdapter.MarshalJSON)
			evals++
			if fpan != "" {
				r.Fail("after-error/marshal/panic-on-unresolvable-any/"+rt, rt+"/"+cb.String(), map[string]any{"panic": fpan})
				continue
			}
			if ferr == nil {
				if _, oerr, _ := ownMarshal(rt, failingMidDocument(rt), cb); oerr != nil {
					r.Fail("after-error/marshal/error-of-the-runtime-swallowed/"+rt, rt+"/"+cb.String(), map[string]any{"runtime_error": oerr.Error()})
				} else {
					c.limit("after-error/runtime-renders-the-unresolvable-any/" + rt)
				}
				continue
			}
			seqs++
			for i, cn := range cans {
				if i >= len(ks) {
					break
				}
				for _, how := range []string{"new adapter", "adapter used before the failure"} {
					jm := ks[i].jm
					if how == "new adapter" {
						jm = csproto.JSONMarshaler(cn.vc.build(), cb.opts()...)
					}
					out, err, pan := guardB(jm.MarshalJSON)
					evals++
					if pan != "" || err != nil || !bytes.Equal(out, ks[i].want) {
						r.Fail("after-error/marshal/valid-message-rendered-differently-after-a-failed-call/"+rt, cn.s.name()+"/"+cn.vc.id+"/"+cb.String(),
							map[string]any{"how": how, "before": trunc(ks[i].want), "after": trunc(out), "error": fmt.Sprint(err), "panic": pan, "failed_call_error": ferr.Error()})
					}
				}
			}
			// the failing adapter fails the same way again (no partial document from the first attempt comes back)
			out2, ferr2, fpan2 := guardB(badAdapter.MarshalJSON)
			evals++
			if fpan2 != "" || ferr2 == nil || len(out2) != 0 || ferr2.Error() != ferr.Error() {
				r.Fail("after-error/marshal/second-failure-differs-from-the-first/"+rt, rt+"/"+cb.String(), map[string]any{"first": ferr.Error(), "second": fmt.Sprint(ferr2), "output": trunc(out2), "panic": fpan2})
			}
		}
		// --- unmarshal: a document rejected half-way, then the valid document into the same adapter / a new one
		for oi, opts := range unmarshalOptionCombos() {
			for _, cn := range cans {
				doc, err, pan := guardB(func() ([]byte, error) { return csproto.JSONMarshaler(cn.vc.build()).MarshalJSON() })
				if err != nil || pan != "" || len(doc) < 2 {
					continue
				}
				want := cn.s.fresh()
				if e, p := guardE(func() error { return csproto.JSONUnmarshaler(want, opts...).UnmarshalJSON(doc) }); e != nil || p != "" {
					continue
				}
				for _, broken := range [][]byte{doc[:len(doc)-1], append(append([]byte{}, doc[:len(doc)-1]...), []byte(`,"zz_unknown_then_garbage":{"a":[1,}`)...), append(append([]byte{}, doc...), '}')} {
					for _, how := range []string{"same adapter and message", "new adapter and message"} {
						got := cn.s.fresh()
						ju := csproto.JSONUnmarshaler(got, opts...)
						ferr, fpan := guardE(func() error { return ju.UnmarshalJSON(broken) })
						evals++
						if fpan != "" {
							r.Fail("after-error/unmarshal/panic-on-malformed-document/"+rt, fmt.Sprintf("%s/%s/opts%d", cn.s.name(), cn.vc.id, oi), map[string]any{"document": trunc(broken), "panic": fpan})
							continue
						}
						if ferr == nil {
							continue // the runtime tolerates this damage
						}
						seqs++
						if how != "same adapter and message" {
							got = cn.s.fresh()
							ju = csproto.JSONUnmarshaler(got, opts...)
						} else {
							// the caller resets the message it wants to reuse; the adapter is reused as it is
							func() { defer func() { _ = recover() }(); csproto.Reset(got) }()
						}
						err, pan := guardE(func() error { return ju.UnmarshalJSON(doc) })
						evals++
						if pan != "" || err != nil {
							r.Fail("after-error/unmarshal/valid-document-rejected-after-a-failed-call/"+rt, fmt.Sprintf("%s/%s/opts%d", cn.s.name(), cn.vc.id, oi), map[string]any{"how": how, "document": trunc(doc), "error": fmt.Sprint(err), "panic": pan})
						} else if d := cn.s.equal(want, got); d != "" {
							r.Fail("after-error/unmarshal/valid-document-decoded-differently-after-a-failed-call/"+rt, fmt.Sprintf("%s/%s/opts%d", cn.s.name(), cn.vc.id, oi), map[string]any{"how": how, "document": trunc(doc), "difference": d})
						}
					}
				}
			}
		}
	}
}

// refusals: values the owning runtime REFUSES to render (or to read). The adapter must report an error exactly when the
// runtime, called directly with the same settings, does - never "success" with no bytes (which is what a nil message
// yields) - and what it returns together with an error is nothing. Per runtime: an unresolvable Any behind another
// field, a string holding invalid UTF-8, a Timestamp / Duration outside the representable range, a proto2 message
// lacking a required field, a NaN-free control value.
func refusals(c *checker, subs []*subject) {
	r := c.r
	var evals int64
	defer func() { r.Evals(evals) }()
	type rv struct {
		name string
		rt   string
		mk   func() any
	}
	var vals []rv
	for _, rt := range []string{rtGogo, rtLegacy, rtGV2} {
		rt := rt
		vals = append(vals, rv{"unresolvable-any-behind-a-field", rt, func() any { return failingMidDocument(rt) }})
	}
	bad := "abc\xff"
	vals = append(vals,
		rv{"invalid-utf8-string", rtGV2, func() any { return wrapperspb.String(bad) }},
		rv{"invalid-utf8-string", rtGogo, func() any { return &gogotypes.StringValue{Value: bad} }},
		rv{"timestamp-out-of-range", rtGV2, func() any { return &timestamppb.Timestamp{Seconds: 1 << 60} }},
		rv{"timestamp-out-of-range", rtGogo, func() any { return &gogotypes.Timestamp{Seconds: 1 << 60} }},
		rv{"duration-out-of-range", rtGV2, func() any { return &durationpb.Duration{Seconds: 1 << 60} }},
		rv{"duration-out-of-range", rtGogo, func() any { return &gogotypes.Duration{Seconds: 1 << 60} }},
		rv{"timestamp-nanos-out-of-range", rtGV2, func() any { return &timestamppb.Timestamp{Seconds: 1, Nanos: -5} }},
		rv{"field-mask-with-an-unrenderable-path", rtGV2, func() any { return &fieldmaskpb.FieldMask{Paths: []string{"a_b", "A"}} }},
	)
	// proto2 messages lacking a required field, from the subject list (every runtime that has one)
	seen := map[string]bool{}
	for _, s := range subs {
		if seen[s.rt] || !(strings.HasSuffix(s.typ, ".Required") || strings.HasSuffix(s.typ, ".ReqMix")) {
			continue
		}
		seen[s.rt] = true
		s := s
		vals = append(vals, rv{"required-field-missing/" + s.typ, s.rt, func() any { return s.fresh() }})
	}
	var refused int64
	for _, v := range vals {
		for _, cb := range c.combos {
			evals++
			id := v.rt + "/" + v.name + "/" + cb.String()
			out, err, pan := guardB(func() ([]byte, error) { return csproto.JSONMarshaler(v.mk(), cb.opts()...).MarshalJSON() })
			oout, oerr, opan := ownMarshal(v.rt, v.mk(), cb)
			if opan != "" {
				continue
			}
			switch {
			case pan != "":
				r.Fail("refusal/marshal/panic/"+v.rt+"/"+v.name, id, map[string]any{"panic": pan, "runtime_error": fmt.Sprint(oerr)})
			case oerr != nil && err == nil:
				r.Fail("refusal/marshal/error-of-the-runtime-swallowed/"+v.rt+"/"+v.name, id, map[string]any{"output": trunc(out), "runtime_error": oerr.Error()})
			case oerr == nil && err != nil:
				r.Fail("refusal/marshal/error-although-the-runtime-renders-the-value/"+v.rt+"/"+v.name, id, map[string]any{"error": err.Error(), "runtime_output": trunc(oout)})
			case oerr != nil && len(out) != 0:
				r.Fail("refusal/marshal/bytes-returned-together-with-an-error/"+v.rt+"/"+v.name, id, map[string]any{"output": trunc(out), "error": err.Error()})
			case oerr == nil && !json.Valid(out):
				r.Fail("refusal/marshal/not-well-formed-json/"+v.rt+"/"+v.name, id, map[string]any{"output": trunc(out)})
			}
			if oerr != nil {
				refused++
			}
		}
	}
	c.count("values_the_runtime_refuses_x_options", refused)
	if refused == 0 {
		r.Internal("refusals: no value was refused by any runtime")
	}
}

// sharedAdapter: a json.Marshaler is a value that callers share (it sits in a struct that several goroutines encode).
// MarshalJSON reads the message; calling it from several goroutines on ONE adapter must give each caller the document a
// lone caller gets. Free-running goroutines - SAMPLING, a complement to the enumeration above (the adapter has no
// synchronisation a cooperative scheduler could interleave): a wrong document is a witness, silence proves nothing.
func sharedAdapter(c *checker, subs []*subject) {
	r := c.r
	var calls, bad atomic.Int64
	for _, rt := range []string{rtGogo, rtLegacy, rtGV2, rtGV1} {
		n := 0
		for _, s := range subs {
			if s.rt != rt || n >= 3 || len(s.cases) == 0 {
				continue
			}
			vc := s.cases[len(s.cases)-1]
			for _, cb := range []combo{c.combos[0], c.combos[len(c.combos)-1]} {
				jm := csproto.JSONMarshaler(vc.build(), cb.opts()...)
				want, err, pan := guardB(jm.MarshalJSON)
				if err != nil || pan != "" || len(want) < 8 {
					continue
				}
				want = append([]byte{}, want...)
				n++
				var wg sync.WaitGroup
				var first atomic.Value
				for g := 0; g < 8; g++ {
					wg.Add(1)
					go func() {
						defer wg.Done()
						for i := 0; i < 150; i++ {
							out, err, pan := guardB(jm.MarshalJSON)
							calls.Add(1)
							if pan != "" || err != nil || !bytes.Equal(out, want) {
								bad.Add(1)
								first.CompareAndSwap(nil, fmt.Sprintf("err=%v panic=%q output=%s", err, pan, trunc(out)))
								return
							}
						}
					}()
				}
				wg.Wait()
				if v := first.Load(); v != nil {
					r.Fail("shared-adapter/concurrent-MarshalJSON-differs-from-a-lone-call/"+rt, s.name()+"/"+vc.id+"/"+cb.String(), map[string]any{"lone_call": trunc(want), "concurrent_call": v})
				}
			}
		}
	}
	r.Evals(calls.Load())
	r.Set("shared_adapter_pass", map[string]any{"sampling": true, "goroutines": 8, "calls": calls.Load(), "note": "free-running complement; never contributes to the statement that the property held"})
}
