// C18: JSON adapters (csproto.JSONMarshaler / csproto.JSONUnmarshaler) over every supported runtime.
//
// Bounded-exhaustive deterministic enumeration on the real code against independent oracles:
// encoding/json (well-formedness, generic structure), the owning runtime's own JSON codec called
// directly, bit-exact tree comparison through protoreflect (gcore.Diff) and descriptor-driven probes
// of the documented effect of every option.
package main

import (
	"bytes"
	"encoding/json"
	"fmt"
	"os"
	"reflect"
	"runtime"
	"sort"
	"strings"
	"sync"

	"github.com/CrowdStrike/csproto"
	gogojson "github.com/gogo/protobuf/jsonpb"
	gogoproto "github.com/gogo/protobuf/proto"
	"github.com/golang/protobuf/jsonpb"        //nolint: staticcheck
	protov1 "github.com/golang/protobuf/proto" //nolint: staticcheck
	"google.golang.org/protobuf/encoding/protojson"
	protov2 "google.golang.org/protobuf/proto"

	"google.golang.org/protobuf/reflect/protoreflect"
	"verif/mc/lib/ev"

	"verif/mc/lib/gcore"
)

// ---------------------------------------------------------------------------------------------
// option space

type combo struct {
	useNum, incZero bool
	indentSet       bool
	indent          string
}

func (c combo) ind() string {
	if c.indentSet {
		return c.indent
	}
	return ""
}

func (c combo) String() string {
	ind := "unset"
	if c.indentSet {
		ind = fmt.Sprintf("%q", c.indent)
	}
	return fmt.Sprintf("UseEnumNumbers=%v,IncludeZeroValues=%v,Indent=%s", c.useNum, c.incZero, ind)
}

// opts builds the option list. With an indent the false-valued options are passed explicitly
// (JSONUseEnumNumbers(false)), without one they are omitted: both spellings of "off" are exercised.
func (c combo) opts() []csproto.JSONOption {
	var o []csproto.JSONOption
	if c.indentSet {
		o = append(o, csproto.JSONIndent(c.indent))
	}
	if c.useNum || c.indentSet {
		o = append(o, csproto.JSONUseEnumNumbers(c.useNum))
	}
	if c.incZero || c.indentSet {
		o = append(o, csproto.JSONIncludeZeroValues(c.incZero))
	}
	return o
}

// overridden spells the same settings as opts() the long way round: first the OPPOSITE of every setting, then every
// setting explicitly. Options are applied in order, so the later occurrence decides (shared defaults + appended override
// is how option lists are built in practice); the adapter must behave exactly as with opts().
func (c combo) overridden() []csproto.JSONOption {
	other := "\t\t"
	if c.ind() == other {
		other = " "
	}
	return []csproto.JSONOption{
		csproto.JSONIndent(other), csproto.JSONUseEnumNumbers(!c.useNum), csproto.JSONIncludeZeroValues(!c.incZero),
		csproto.JSONIndent(c.ind()), csproto.JSONUseEnumNumbers(c.useNum), csproto.JSONIncludeZeroValues(c.incZero),
	}
}

var indents = []string{"", " ", "\t", "    "}

func allCombos() []combo {
	var out []combo
	for _, un := range []bool{false, true} {
		for _, iz := range []bool{false, true} {
			out = append(out, combo{un, iz, false, ""})
			for _, in := range indents {
				out = append(out, combo{un, iz, true, in})
			}
		}
	}
	return out
}

// ---------------------------------------------------------------------------------------------
// guarded calls

func guardB(f func() ([]byte, error)) (b []byte, err error, pan string) {
	defer func() {
		if p := recover(); p != nil {
			pan = fmt.Sprint(p)
		}
	}()
	b, err = f()
	return
}

func guardE(f func() error) (err error, pan string) {
	defer func() {
		if p := recover(); p != nil {
			pan = fmt.Sprint(p)
		}
	}()
	err = f()
	return
}

func guardS(f func() string) (s string, pan string) {
	defer func() {
		if p := recover(); p != nil {
			pan = fmt.Sprint(p)
		}
	}()
	s = f()
	return
}

// ---------------------------------------------------------------------------------------------
// the owning runtime's own JSON codec, called directly

func isV2rt(rt string) bool { return rt == rtGV2 || rt == rtGV1 }

func ownMarshal(rt string, m any, cb combo) ([]byte, error, string) {
	return guardB(func() ([]byte, error) {
		switch rt {
		case rtGV2, rtGV1:
			return protojson.MarshalOptions{Indent: cb.ind(), UseEnumNumbers: cb.useNum, EmitUnpopulated: cb.incZero}.Marshal(m.(protov2.Message))
		case rtLegacy:
			var buf bytes.Buffer
			err := (&jsonpb.Marshaler{Indent: cb.ind(), EnumsAsInts: cb.useNum, EmitDefaults: cb.incZero}).Marshal(&buf, m.(protov1.Message))
			return buf.Bytes(), err
		case rtGogo:
			var buf bytes.Buffer
			err := (&gogojson.Marshaler{Indent: cb.ind(), EnumsAsInts: cb.useNum, EmitDefaults: cb.incZero}).Marshal(&buf, m.(gogoproto.Message))
			return buf.Bytes(), err
		}
		panic("runtime " + rt)
	})
}

func ownDecode(rt string, data []byte, into any, allowUnknown, allowPartial bool) (error, string) {
	return guardE(func() error {
		switch rt {
		case rtGV2, rtGV1:
			return protojson.UnmarshalOptions{DiscardUnknown: allowUnknown, AllowPartial: allowPartial}.Unmarshal(data, into.(protov2.Message))
		case rtLegacy:
			return (&jsonpb.Unmarshaler{AllowUnknownFields: allowUnknown}).Unmarshal(bytes.NewReader(data), into.(protov1.Message))
		case rtGogo:
			return (&gogojson.Unmarshaler{AllowUnknownFields: allowUnknown}).Unmarshal(bytes.NewReader(data), into.(gogoproto.Message))
		}
		panic("runtime " + rt)
	})
}

// ---------------------------------------------------------------------------------------------

type checker struct {
	r      *ev.Run
	combos []combo

	mu       sync.Mutex
	limits   map[string]int64 // runtime limitation classes (owning runtime shows the same behaviour when called directly)
	counters map[string]int64
	nonV2Req map[string]int64
}

func (c *checker) count(k string, n int64) {
	c.mu.Lock()
	c.counters[k] += n
	c.mu.Unlock()
}

func (c *checker) limit(class string) {
	c.mu.Lock()
	c.limits[class]++
	c.mu.Unlock()
}

func fieldsOf(caseID string) string {
	parts := strings.Split(caseID, ",")
	for i, p := range parts {
		if j := strings.Index(p, "="); j >= 0 {
			parts[i] = p[:j]
		}
	}
	return strings.Join(parts, ",")
}

func trunc(b []byte) string {
	if len(b) > 1500 {
		return string(b[:1500]) + fmt.Sprintf("...(%d bytes)", len(b))
	}
	return string(b)
}

func (c *checker) fail(oracle string, s *subject, vc vcase, extra string, detail map[string]any) {
	sig := fmt.Sprintf("%s/%s/%s/%s", oracle, s.rt, s.typ, fieldsOf(vc.id))
	if extra != "" {
		sig += "/" + extra
	}
	detail["runtime"] = s.rt
	detail["type"] = s.typ
	detail["case"] = vc.id
	c.r.Fail(sig, s.name()+"/"+vc.id+"/"+extra, detail)
}

// equal compares a decoded message with the expected one.
func (s *subject) equal(want, got any) string {
	d, pan := guardS(func() string {
		if s.reflectOK {
			return gcore.Diff(gcore.Reflect(want), gcore.Reflect(got))
		}
		if !ownEqual(want, got) {
			return "messages differ (type's own Equal)"
		}
		return ""
	})
	if pan != "" {
		return "comparison panicked: " + pan
	}
	return d
}

func describe(s *subject, m any) string {
	d, pan := guardS(func() string {
		if s.reflectOK {
			x := gcore.Describe(gcore.Reflect(m))
			if len(x) > 600 {
				x = x[:600] + "..."
			}
			return x
		}
		return fmt.Sprintf("%+v", m)
	})
	if pan != "" {
		return "?"
	}
	return d
}

// roundTrip decodes out into a fresh message through dec and compares with src.
func (s *subject) roundTrip(src any, out []byte, dec func(into any) (error, string)) string {
	x := s.fresh()
	err, pan := dec(x)
	if pan != "" {
		return "panic: " + pan
	}
	if err != nil {
		return "error: " + err.Error()
	}
	if d := s.equal(src, x); d != "" {
		return "decoded message differs: " + d
	}
	return ""
}

// pureRuntimeRoundTrip: owning runtime marshal (same options) -> owning runtime unmarshal -> compare.
// A non-empty result means the runtime itself cannot round-trip this value: not csproto's business.
func (s *subject) pureRuntimeRoundTrip(src any, cb combo) string {
	out, err, pan := ownMarshal(s.rt, src, cb)
	if pan != "" || err != nil {
		return fmt.Sprintf("own marshal fails: %v %s", err, pan)
	}
	return s.roundTrip(src, out, func(into any) (error, string) { return ownDecode(s.rt, out, into, false, false) })
}

// ---------------------------------------------------------------------------------------------
// marshal side: one value x every option combination

func (c *checker) marshalSide(s *subject, vc vcase) (baseline []byte, baselineOK bool) {
	src, pan := func() (x any, p string) {
		defer func() {
			if r := recover(); r != nil {
				p = fmt.Sprint(r)
			}
		}()
		return vc.build(), ""
	}()
	if pan != "" {
		c.r.Internal("cannot build %s %s: %s", s.name(), vc.id, pan)
		return nil, false
	}
	firstGeneric := map[[2]bool]any{}
	var evals, nontrivial int64
	local := map[string]int64{}
	defer func() {
		c.r.Evals(evals)
		c.r.Nontrivial(nontrivial)
		c.mu.Lock()
		for k, v := range local {
			c.counters[k] += v
		}
		c.mu.Unlock()
	}()
	for ci, cb := range c.combos {
		evals++
		det := func(out []byte) map[string]any {
			return map[string]any{"options": cb.String(), "json": trunc(out), "message": describe(s, src)}
		}
		out, err, pan := guardB(func() ([]byte, error) { return csproto.JSONMarshaler(src, cb.opts()...).MarshalJSON() })
		if pan != "" {
			_, oerr, opan := ownMarshal(s.rt, src, cb)
			if opan != "" {
				c.limit("marshal-panics-in-owning-runtime-too/" + s.name() + "/" + fieldsOf(vc.id))
				continue
			}
			d := det(nil)
			d["panic"] = pan
			d["owning_runtime_direct_error"] = fmt.Sprint(oerr)
			c.fail("marshal/panic", s, vc, "", d)
			return nil, false
		}
		if err != nil {
			ownOut, oerr, opan := ownMarshal(s.rt, src, cb)
			if oerr != nil || opan != "" {
				c.limit("owning-runtime-refuses-to-marshal/" + s.name() + "/" + fieldsOf(vc.id))
				local["runtime_refuses_marshal"]++
				continue
			}
			d := det(nil)
			d["error"] = err.Error()
			d["owning_runtime_direct_output"] = trunc(ownOut)
			c.fail("marshal/error-but-owning-runtime-marshals", s, vc, "", d)
			return nil, false
		}
		// the same settings given as "opposite first, then overridden": the last occurrence of an option decides
		if out2, err2, pan2 := guardB(func() ([]byte, error) { return csproto.JSONMarshaler(src, cb.overridden()...).MarshalJSON() }); pan2 != "" || err2 != nil || !bytes.Equal(out2, out) {
			d := det(out)
			d["with_overridden_option_list"] = trunc(out2)
			d["error"] = fmt.Sprint(err2, " ", pan2)
			c.fail("marshal/option-given-twice-last-one-does-not-win", s, vc, "", d)
			return nil, false
		}
		// the returned bytes belong to the caller: a later call of the adapter must not change them
		if len(out) > 0 {
			snap := append([]byte{}, out...)
			other := c.combos[(ci+7)%len(c.combos)]
			_, _, _ = guardB(func() ([]byte, error) { return csproto.JSONMarshaler(src, other.opts()...).MarshalJSON() })
			_, _, _ = guardB(func() ([]byte, error) { return csproto.JSONMarshaler(src).MarshalJSON() })
			// ... nor may a second call on the SAME adapter value (encode, keep the result, encode again)
			// (encode, keep the result, MODIFY the message, encode again: the adapter holds the message, so the second
			// output differs from the first - here the message is emptied - and must not be written over the first)
			src2 := vc.build()
			jm := csproto.JSONMarshaler(src2, cb.opts()...)
			first, _, _ := guardB(func() ([]byte, error) { return jm.MarshalJSON() })
			fsnap := append([]byte{}, first...)
			second, err2, pan2 := guardB(func() ([]byte, error) { return jm.MarshalJSON() })
			func() {
				defer func() { _ = recover() }() // gogo messages with custom Go types have no protoreflect view: left unmodified
				mr := gcore.Reflect(src2)
				var set []protoreflect.FieldDescriptor
				mr.Range(func(fd protoreflect.FieldDescriptor, _ protoreflect.Value) bool { set = append(set, fd); return true })
				for _, fd := range set {
					if fd.Cardinality() != protoreflect.Required {
						mr.Clear(fd)
					}
				}
			}()
			_, _, _ = guardB(func() ([]byte, error) { return jm.MarshalJSON() })
			if pan2 != "" || err2 != nil || !bytes.Equal(first, fsnap) || !bytes.Equal(second, fsnap) || !bytes.Equal(fsnap, snap) {
				d := det(snap)
				d["same_adapter_first_result_now"] = trunc(first)
				d["same_adapter_first_result_was"] = trunc(fsnap)
				d["same_adapter_second_result"] = trunc(second)
				d["error"] = fmt.Sprint(err2, " ", pan2)
				c.fail("marshal/second-call-on-the-same-adapter-changes-or-differs-from-the-first-result", s, vc, "", d)
				return nil, false
			}
			if !bytes.Equal(out, snap) {
				d := det(snap)
				d["after_later_call"] = trunc(out)
				c.fail("marshal/returned-bytes-changed-by-a-later-call", s, vc, "", d)
				return nil, false
			}
		}
		if !json.Valid(out) {
			c.fail("marshal/not-well-formed-json", s, vc, "", det(out))
			continue
		}
		gen, gerr := decodeGeneric(out)
		if gerr != nil {
			d := det(out)
			d["error"] = gerr.Error()
			c.fail("marshal/not-well-formed-json", s, vc, "", d)
			continue
		}
		if hasContainerContent(gen) || (gen != nil && !isContainer(gen)) {
			nontrivial++
		}

		// ---- round trip through the adapter and through the owning runtime
		pAdapter := s.roundTrip(src, out, func(into any) (error, string) {
			return guardE(func() error { return csproto.JSONUnmarshaler(into).UnmarshalJSON(out) })
		})
		pOwn := s.roundTrip(src, out, func(into any) (error, string) { return ownDecode(s.rt, out, into, false, false) })
		local["roundtrips"] += 2
		clean := true
		if pAdapter != "" || pOwn != "" {
			clean = false
			if pure := s.pureRuntimeRoundTrip(src, cb); pure != "" {
				c.limit("owning-runtime-cannot-round-trip/" + s.name() + "/" + fieldsOf(vc.id))
				local["runtime_cannot_roundtrip"]++
			} else {
				if pAdapter != "" {
					d := det(out)
					d["problem"] = pAdapter
					c.fail("roundtrip/adapter-unmarshal", s, vc, classOf(pAdapter), d)
				}
				if pOwn != "" {
					d := det(out)
					d["problem"] = pOwn
					c.fail("roundtrip/owning-runtime-decoder", s, vc, classOf(pOwn), d)
				}
			}
		}
		if ci == 0 {
			baseline, baselineOK = out, clean
		}

		// ---- encoding/json drives the adapters
		if clean {
			b2, err2, pan2 := guardB(func() ([]byte, error) { return json.Marshal(csproto.JSONMarshaler(src, cb.opts()...)) })
			if pan2 != "" || err2 != nil {
				d := det(out)
				d["error"] = fmt.Sprint(err2, " ", pan2)
				c.fail("encoding-json/Marshal-rejects-adapter", s, vc, "", d)
			} else if g2, e2 := decodeGeneric(b2); e2 != nil || !reflect.DeepEqual(g2, gen) {
				d := det(out)
				d["via_encoding_json"] = trunc(b2)
				c.fail("encoding-json/Marshal-output-differs", s, vc, "", d)
			}
			if p := s.roundTrip(src, out, func(into any) (error, string) {
				return guardE(func() error { return json.Unmarshal(out, csproto.JSONUnmarshaler(into)) })
			}); p != "" {
				d := det(out)
				d["problem"] = p
				c.fail("encoding-json/Unmarshal-through-adapter", s, vc, classOf(p), d)
			}
			local["encoding_json_pairs"]++
		}

		// ---- option probes
		if s.delegates {
			local["delegating_type_outputs"]++
			continue
		}
		if p := probeIndent(out, cb.ind(), gen); p != "" {
			// does the owning runtime, called directly with the same indent, format the same way?
			ownSame := false
			if oo, oerr, opan := ownMarshal(s.rt, src, cb); oerr == nil && opan == "" {
				if og, e := decodeGeneric(oo); e == nil && probeIndent(oo, cb.ind(), og) != "" {
					ownSame = true
				}
			}
			if ownSame {
				c.limit("owning-runtime-indents-differently/" + s.name() + "/" + fieldsOf(vc.id))
			} else {
				d := det(out)
				d["problem"] = p
				c.fail("option/Indent-not-honoured", s, vc, indentName(cb), d)
			}
		}
		local["indent_probes"]++
		key := [2]bool{cb.useNum, cb.incZero}
		if g0, ok := firstGeneric[key]; !ok {
			firstGeneric[key] = gen
		} else if !reflect.DeepEqual(g0, gen) {
			d := det(out)
			d["problem"] = "the decoded JSON structure differs from the one produced without indentation (same other options)"
			c.fail("option/Indent-changes-content", s, vc, indentName(cb), d)
		}
		if s.reflectOK && !s.wkt {
			w := &walker{useNum: cb.useNum, incZero: cb.incZero}
			_, wp := guardS(func() string { w.message("", gcore.Reflect(src), gen); return "" })
			if wp != "" {
				c.r.Internal("probe walker panicked on %s %s: %s", s.name(), vc.id, wp)
				continue
			}
			local["enum_slots_probed"] += int64(w.enumSlots)
			local["zero_value_keys_probed"] += int64(w.zeroKeys)
			local["structure_probes"]++
			if len(w.errs) > 0 {
				// same probe on the owning runtime's direct output with the same options
				ownSame := false
				if oo, oerr, opan := ownMarshal(s.rt, src, cb); oerr == nil && opan == "" {
					if og, e := decodeGeneric(oo); e == nil {
						w2 := &walker{useNum: cb.useNum, incZero: cb.incZero}
						guardS(func() string { w2.message("", gcore.Reflect(src), og); return "" })
						ownSame = len(w2.errs) > 0 && w2.errs[0].kind == w.errs[0].kind
					}
				}
				if ownSame {
					c.limit("owning-runtime-renders-the-same/" + w.errs[0].kind + "/" + s.name() + "/" + fieldsOf(vc.id))
					continue
				}
				seen := map[string]bool{}
				for _, pe := range w.errs {
					if seen[pe.kind] {
						continue
					}
					seen[pe.kind] = true
					d := det(out)
					d["problem"] = pe.path + ": " + pe.msg
					oracle := map[string]string{"enum": "option/UseEnumNumbers-not-honoured", "zero": "option/IncludeZeroValues-not-honoured", "stray-key": "marshal/unexpected-json-key", "shape": "marshal/unexpected-json-shape"}[pe.kind]
					c.fail(oracle, s, vc, fmt.Sprintf("enum=%v,zero=%v", cb.useNum, cb.incZero), d)
				}
			}
		}
	}
	return baseline, baselineOK
}

func isContainer(v any) bool {
	switch v.(type) {
	case map[string]any, []any:
		return true
	}
	return false
}

func indentName(cb combo) string {
	if !cb.indentSet {
		return "indent-unset"
	}
	switch cb.indent {
	case "":
		return "indent-empty"
	case " ":
		return "indent-1space"
	case "\t":
		return "indent-tab"
	}
	return fmt.Sprintf("indent-%dspaces", len(cb.indent))
}

func classOf(problem string) string {
	switch {
	case strings.HasPrefix(problem, "panic"):
		return "panic"
	case strings.HasPrefix(problem, "error"):
		return "error"
	}
	return "differs"
}

// ---------------------------------------------------------------------------------------------
// unmarshal side: documents derived from the baseline output x unmarshal options

type udoc struct {
	name    string
	data    []byte
	unknown bool
	req     *reqSite
}

var unknownValues = []struct {
	name string
	v    any
}{
	{"number", json.Number("1")},
	{"object", map[string]any{"a": []any{json.Number("1"), map[string]any{"b": nil}}, "c": "x"}},
}

const unknownKey = "zzC18UnknownKey"

func (c *checker) unmarshalSide(s *subject, vc vcase, baseline []byte) {
	src := vc.build()
	docs := []udoc{{name: "as-produced", data: baseline}}
	mutate := func(name string, unknown bool, req *reqSite, f func(doc any) bool) {
		doc, err := decodeGeneric(baseline)
		if err != nil {
			return
		}
		if !f(doc) {
			return
		}
		b, err := json.Marshal(doc)
		if err != nil {
			c.r.Internal("cannot re-encode mutated document: %v", err)
			return
		}
		docs = append(docs, udoc{name, b, unknown, req})
	}
	if s.reflectOK && !s.wkt && !s.delegates {
		srcR := gcore.Reflect(src)
		for _, uv := range unknownValues {
			uv := uv
			mutate("unknown-top:"+uv.name, true, nil, func(doc any) bool {
				obj, ok := doc.(map[string]any)
				if !ok {
					return false
				}
				obj[unknownKey] = uv.v
				return true
			})
		}
		for which, uv := range unknownValues {
			which, uv := which, uv
			mutate(fmt.Sprintf("unknown-nested:%s", uv.name), true, nil, func(doc any) bool {
				var objs []map[string]any
				nestedMessageObjects(srcR, doc, true, &objs)
				if len(objs) == 0 {
					return false
				}
				if which == 0 {
					objs[0][unknownKey] = uv.v
				} else {
					objs[len(objs)-1][unknownKey] = uv.v
				}
				return true
			})
		}
		sites := requiredSites(srcR)
		for i := range sites {
			site := sites[i]
			mutate("required-removed:"+site.String(), false, &site, func(doc any) bool { return removeRequired(doc, site) })
			if i == 0 {
				mutate("required-removed+unknown-top:"+site.String(), true, &site, func(doc any) bool {
					if !removeRequired(doc, site) {
						return false
					}
					doc.(map[string]any)[unknownKey] = unknownValues[1].v
					return true
				})
			}
		}
	}
	var evals int64
	local := map[string]int64{}
	defer func() {
		c.r.Evals(evals)
		c.mu.Lock()
		for k, v := range local {
			c.counters[k] += v
		}
		c.mu.Unlock()
	}()
	for _, d := range docs {
		expected := src
		if d.req != nil {
			expected = vc.build()
			clearRequired(gcore.Reflect(expected), *d.req)
		}
		docClass := d.name
		if i := strings.Index(docClass, ":"); i >= 0 && d.req != nil {
			docClass = docClass[:i]
		}
		type outcome struct {
			err, pan string
			ok       bool
		}
		var results [2][2]outcome
		for ui, allowUnknown := range []bool{false, true} {
			for pi, allowPartial := range []bool{false, true} {
				evals++
				local["unmarshal_doc_x_options"]++
				x := s.fresh()
				err, pan := guardE(func() error {
					return csproto.JSONUnmarshaler(x, csproto.JSONAllowUnknownFields(allowUnknown), csproto.JSONAllowPartialMessages(allowPartial)).UnmarshalJSON(d.data)
				})
				o := outcome{pan: pan, ok: err == nil && pan == ""}
				if err != nil {
					o.err = err.Error()
				}
				results[ui][pi] = o
				// the same two settings given as "opposite first, then overridden" (last occurrence decides)
				{
					x2 := s.fresh()
					err2, pan2 := guardE(func() error {
						return csproto.JSONUnmarshaler(x2, csproto.JSONAllowUnknownFields(!allowUnknown), csproto.JSONAllowPartialMessages(!allowPartial),
							csproto.JSONAllowUnknownFields(allowUnknown), csproto.JSONAllowPartialMessages(allowPartial)).UnmarshalJSON(d.data)
					})
					if ok2 := err2 == nil && pan2 == ""; ok2 != o.ok || (pan2 != "") != (pan != "") {
						c.fail("unmarshal/option-given-twice-last-one-does-not-win", s, vc, docClass+fmt.Sprintf("/unknown=%v,partial=%v", allowUnknown, allowPartial),
							map[string]any{"document": d.name, "json": trunc(d.data), "AllowUnknownFields": fmt.Sprintf("%v then %v", !allowUnknown, allowUnknown), "AllowPartialMessages": fmt.Sprintf("%v then %v", !allowPartial, allowPartial),
								"outcome_with_single_options": fmt.Sprint(o.ok, " ", o.err, " ", o.pan), "outcome_with_overridden_options": fmt.Sprint(ok2, " ", err2, " ", pan2)})
					}
				}
				det := map[string]any{"document": d.name, "json": trunc(d.data), "AllowUnknownFields": allowUnknown, "AllowPartialMessages": allowPartial, "error": o.err, "message": describe(s, src)}
				optName := fmt.Sprintf("unknown=%v,partial=%v", allowUnknown, allowPartial)
				if pan != "" {
					det["panic"] = pan
					c.fail("unmarshal/panic", s, vc, docClass, det)
					continue
				}
				// what the owning runtime does when called directly with the equivalent options
				ownSays := func() (bool, string) {
					y := s.fresh()
					oe, op := ownDecode(s.rt, d.data, y, allowUnknown, allowPartial)
					if op != "" {
						return false, ""
					}
					if oe != nil {
						return false, oe.Error()
					}
					return true, s.equal(expected, y)
				}
				wantErrUnknown := d.unknown && !allowUnknown
				wantErrReq := d.req != nil && !allowPartial && isV2rt(s.rt)
				reqFree := d.req != nil && !isV2rt(s.rt) // documented: AllowPartialMessages only applies to Google V2 messages
				switch {
				case wantErrUnknown || wantErrReq:
					if o.ok {
						what := "unknown-key-accepted-though-not-allowed"
						if !wantErrUnknown {
							what = "missing-required-accepted-though-partial-not-allowed"
						}
						if ook, _ := ownSays(); ook {
							c.limit("owning-runtime-accepts-too/" + what + "/" + s.name() + "/" + docClass)
							continue
						}
						c.fail("unmarshal/"+what, s, vc, docClass+"/"+optName, det)
					}
				case reqFree:
					// no documented expectation on success/error; invariance over AllowPartialMessages is checked below
					c.mu.Lock()
					if o.ok {
						c.nonV2Req[s.rt+":accepted"]++
					} else {
						c.nonV2Req[s.rt+":rejected"]++
					}
					c.mu.Unlock()
				default:
					if !o.ok {
						what := "document-rejected"
						switch {
						case d.unknown && d.req != nil:
							what = "unknown-key+missing-required-rejected-though-both-allowed"
						case d.unknown:
							what = "unknown-key-rejected-though-allowed"
						case d.req != nil:
							what = "missing-required-rejected-though-partial-allowed"
						}
						if ook, _ := ownSays(); !ook {
							c.limit("owning-runtime-rejects-too/" + what + "/" + s.name() + "/" + docClass)
							continue
						}
						c.fail("unmarshal/"+what, s, vc, docClass+"/"+optName, det)
						continue
					}
					if diff := s.equal(expected, x); diff != "" {
						if ook, odiff := ownSays(); ook && odiff != "" {
							c.limit("owning-runtime-decodes-the-same-way/" + s.name() + "/" + docClass)
							continue
						}
						det["problem"] = diff
						c.fail("unmarshal/result-differs", s, vc, docClass+"/"+optName, det)
					}
				}
			}
		}
		if d.req != nil && !isV2rt(s.rt) {
			for ui := 0; ui < 2; ui++ {
				if results[ui][0].ok != results[ui][1].ok {
					c.fail("unmarshal/AllowPartialMessages-changes-outcome-on-non-v2-message", s, vc, docClass, map[string]any{"document": d.name, "json": trunc(d.data),
						"partial=false": results[ui][0], "partial=true": results[ui][1]})
				}
			}
		}
	}
}

// ---------------------------------------------------------------------------------------------

type item struct {
	s  *subject
	vc vcase
}

func main() {
	r := ev.Start("C18", "exploration")
	ev.BigHeap(1 << 30)
	thorough := r.Thorough()
	c := &checker{r: r, combos: allCombos(), limits: map[string]int64{}, counters: map[string]int64{}, nonV2Req: map[string]int64{}}

	var notLinked []string
	var subjects []*subject
	func() {
		defer func() {
			if p := recover(); p != nil {
				r.Internal("cannot enumerate subjects: %v", p)
			}
		}()
		subjects = append(subjects, corpusSubjects(thorough, &notLinked)...)
		subjects = append(subjects, exampleSubjects(thorough)...)
		subjects = append(subjects, wktSubjects()...)
		subjects = append(subjects, gogoExtSubjects()...)
	}()
	perRT := map[string]int64{}
	typesPerRT := map[string]int64{}
	var items []item
	for _, s := range subjects {
		typesPerRT[s.rt+"/"+s.group]++
		for _, vc := range s.cases {
			items = append(items, item{s, vc})
			perRT[s.rt]++
		}
	}
	for _, rt := range []string{rtGogo, rtLegacy, rtGV2, rtGV1} {
		if perRT[rt] == 0 {
			r.Internal("no message values for runtime %s (corpus not linked? %v)", rt, notLinked)
		}
	}
	if len(notLinked) > 0 {
		sort.Strings(notLinked)
		r.Set("corpus_packages_not_linked", notLinked)
	}

	workers := runtime.NumCPU()
	ev.Parallel(len(items), workers, func(i int) {
		it := items[i]
		baseline, ok := c.marshalSide(it.s, it.vc)
		if ok {
			c.unmarshalSide(it.s, it.vc, baseline)
		}
		if i%97 == 0 && baseline != nil && r.WantSample() {
			r.Sample(map[string]any{"runtime": it.s.rt, "type": it.s.typ, "case": it.vc.id, "json_default_options": trunc(baseline), "option_combinations": len(c.combos)})
		}
	})

	misc(c, subjects)
	afterError(c, subjects)
	refusals(c, subjects)
	sharedAdapter(c, subjects)

	r.Set("message_values_per_runtime", perRT)
	r.Set("message_types_per_runtime_and_group", typesPerRT)
	r.Set("marshal_option_combinations", len(c.combos))
	r.Set("counters", c.counters)
	r.Set("non_v2_missing_required_outcomes", c.nonV2Req)
	if len(c.limits) > 0 {
		// aggregate the per-field classes to "<kind>/<rt>/<type>" for the evidence file, keep a few full ones
		agg := map[string]int64{}
		for k, v := range c.limits {
			parts := strings.Split(k, "/")
			if len(parts) > 3 {
				parts = parts[:len(parts)-1]
			}
			agg[strings.Join(parts, "/")] += v
		}
		r.Set("third_party_runtime_limitations_excluded", agg)
		if os.Getenv("C18_DEBUG") != "" {
			var ks []string
			for k, v := range c.limits {
				ks = append(ks, fmt.Sprintf("%s = %d", k, v))
			}
			sort.Strings(ks)
			fmt.Fprintln(os.Stderr, strings.Join(ks, "\n"))
		}
	}
	r.Rule("deterministic enumeration: (one adapter value encodes, the message is emptied, the same adapter encodes again: the first result must not change) (every marshal and unmarshal case is repeated with the option list spelt as the opposite of every setting followed by every setting: same bytes / same outcome) runtimes {gogo, legacy golang/protobuf v1, gv2, gv1} x message types (corpus p3/p2[/p3opt]: Scalars, Repeated, Oneofs, MapsV, Required, ReqMix [thorough: all]; the repository's six example packages; well-known types used directly; gogo messages with gogoproto extensions) x value trees (gcore.Singles + Specials [+ Pairs thorough] + JSON-hostile strings/bytes + hand-built) x {UseEnumNumbers} x {IncludeZeroValues} x {indent unset, \"\", \" \", \"\\t\", \"    \"}; per output: json.Valid, decode through csproto.JSONUnmarshaler AND the owning runtime's own decoder + bit-exact tree comparison, encoding/json.Marshal/Unmarshal driving the adapters, indentation line-prefix probe, enum number/name probe and zero-value key probe on the generic structure, content equality across indent strings. Unmarshal side: baseline document {as produced, unknown key (scalar/composite) at top level and inside nested message objects, each populated required field removed (top level and one level down), both} x AllowUnknownFields{f,t} x AllowPartialMessages{f,t}. Plus nil / typed nil / unsupported values / json.Marshaler-Unmarshaler delegation. distinct_nontrivial = outputs that are not an empty object.")
	r.Assume("values whose required fields are not all set are completed first (required fields filled at every nesting level): every runtime refuses to marshal them and the adapter offers no marshal-side AllowPartial option")
	r.Assume("a failing oracle is re-run on the owning runtime called directly with the equivalent options; when the runtime itself shows the same behaviour (e.g. google.protobuf.NullValue with an undefined number always renders null, values the runtime's own codec cannot round-trip) the case is counted under third_party_runtime_limitations_excluded, not as a violation")
	r.Assume("limitations observed that way on the unchanged repository: google.protobuf.NullValue fields holding an undefined number always render as null (all runtimes); gogo's jsonpb cannot parse its own rendering of the maximum Duration; golang's and gogo's jsonpb indent a top-level Struct/Value one level too deep. NaN, +-Inf, -0, 64-bit extremes, undefined numbers of ordinary enums and every byte value ARE included: all runtimes round-trip them")
	r.Assume("JSONAllowPartialMessages is documented to apply to Google V2 messages only: for gogo and legacy-v1 messages with a required key removed only 'no panic' and 'the option does not change the outcome' are demanded")
	r.Assume("types that implement json.Marshaler themselves (structpb.Struct/Value/ListValue) are documented to be delegated to: the formatting options are not probed on them")
	r.Assume("indentation is probed structurally (line prefix = depth x indent, members on their own lines, single line when unset/empty), never byte-compared: protojson randomises inter-token white space")
	r.Finish()
}
