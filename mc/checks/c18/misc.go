package main

import (
	"bytes"
	"encoding/json"
	"errors"
	"fmt"
	"reflect"

	"github.com/CrowdStrike/csproto"
	"google.golang.org/protobuf/types/known/timestamppb"
)

// ---- hand-written types that implement json.Marshaler / json.Unmarshaler themselves

type stubVal struct { // value receiver, not a protobuf message
	calls *int
	out   []byte
	err   error
}

func (s stubVal) MarshalJSON() ([]byte, error) { *s.calls++; return s.out, s.err }

type stubPtr struct { // pointer receiver, not a protobuf message
	calls int
	out   []byte
	err   error
	got   [][]byte
}

func (s *stubPtr) MarshalJSON() ([]byte, error) { s.calls++; return s.out, s.err }
func (s *stubPtr) UnmarshalJSON(b []byte) error {
	s.calls++
	s.got = append(s.got, append([]byte{}, b...))
	return s.err
}

// stubProto IS a Google V2 message (promoted methods of the embedded Timestamp) and brings its own JSON
// methods: the adapter must prefer them over protojson.
type stubProto struct {
	*timestamppb.Timestamp
	calls int
	out   []byte
	err   error
	got   [][]byte
}

func (s *stubProto) MarshalJSON() ([]byte, error) { s.calls++; return s.out, s.err }
func (s *stubProto) UnmarshalJSON(b []byte) error {
	s.calls++
	s.got = append(s.got, append([]byte{}, b...))
	return s.err
}

type stubMap map[string]any // nil-able non-pointer kind implementing json.Unmarshaler

func (s stubMap) UnmarshalJSON(b []byte) error { s["got"] = string(b); return nil }

type plainStruct struct{ A int }

func unmarshalOptionCombos() [][]csproto.JSONOption {
	var out [][]csproto.JSONOption
	out = append(out, nil)
	for _, u := range []bool{false, true} {
		for _, p := range []bool{false, true} {
			out = append(out, []csproto.JSONOption{csproto.JSONAllowUnknownFields(u), csproto.JSONAllowPartialMessages(p)})
		}
	}
	return out
}

func misc(c *checker, subs []*subject) {
	r := c.r
	var evals int64
	defer func() { r.Evals(evals) }()
	fail := func(sig, id string, detail map[string]any) { r.Fail(sig, id, detail) }
	docs := [][]byte{[]byte(`{}`), []byte(`null`), []byte(``), []byte(`{"a":1}`), []byte(`"2020-01-01T00:00:00Z"`)}

	// ------------------------------------------------------------------ nil and typed nil
	type nilCase struct {
		name string
		v    any
	}
	nils := []nilCase{{"untyped-nil", nil}}
	seenT := map[reflect.Type]bool{}
	for _, s := range subs {
		t := reflect.TypeOf(s.fresh())
		if seenT[t] || t.Kind() != reflect.Ptr {
			continue
		}
		seenT[t] = true
		nils = append(nils, nilCase{"typed-nil/" + s.name(), reflect.Zero(t).Interface()})
	}
	nils = append(nils, nilCase{"typed-nil/*stubPtr", (*stubPtr)(nil)}, nilCase{"typed-nil/*stubProto", (*stubProto)(nil)}, nilCase{"typed-nil/*struct{}", (*struct{})(nil)}, nilCase{"typed-nil/*int", (*int)(nil)})
	var nilCount int64
	for _, nc := range nils {
		for _, cb := range c.combos {
			evals++
			nilCount++
			out, err, pan := guardB(func() ([]byte, error) { return csproto.JSONMarshaler(nc.v, cb.opts()...).MarshalJSON() })
			if pan != "" || err != nil || len(out) != 0 {
				fail("nil/marshal-of-nil-is-not-nothing/"+kindClass(nc.name), nc.name+"/"+cb.String(), map[string]any{"value": nc.name, "options": cb.String(), "output": string(out), "error": fmt.Sprint(err), "panic": pan})
			}
		}
		for oi, opts := range unmarshalOptionCombos() {
			for _, doc := range docs {
				evals++
				nilCount++
				err, pan := guardE(func() error { return csproto.JSONUnmarshaler(nc.v, opts...).UnmarshalJSON(doc) })
				if pan != "" || err == nil {
					fail("nil/unmarshal-into-nil-is-not-an-error/"+kindClass(nc.name), fmt.Sprintf("%s/opts%d/%s", nc.name, oi, doc), map[string]any{"value": nc.name, "document": string(doc), "error": fmt.Sprint(err), "panic": pan})
				}
			}
		}
	}
	c.count("nil_cases", nilCount)
	// how encoding/json sees "marshals to nothing" (recorded, not judged: the property fixes the behaviour)
	if _, err := json.Marshal(csproto.JSONMarshaler(nil)); err != nil {
		r.Set("note_encoding_json_on_nil_message", "json.Marshal(csproto.JSONMarshaler(nil)) fails: "+err.Error()+" (consequence of the documented 'nil marshals to nothing')")
	}

	// ------------------------------------------------------------------ unsupported values
	unsupported := []nilCase{
		{"int", 5}, {"string", "s"}, {"struct-value", plainStruct{1}}, {"ptr-to-empty-struct", &struct{}{}}, {"ptr-to-struct", &plainStruct{2}},
		{"float64", 3.5}, {"bool", true}, {"byte-slice", []byte("x")}, {"map", map[string]any{"a": 1}}, {"ptr-to-int", new(int)},
	}
	var unsCount int64
	for _, uc := range unsupported {
		for _, cb := range c.combos {
			evals++
			unsCount++
			out, err, pan := guardB(func() ([]byte, error) { return csproto.JSONMarshaler(uc.v, cb.opts()...).MarshalJSON() })
			if pan != "" {
				fail("unsupported/marshal-panics/"+uc.name, uc.name+"/"+cb.String(), map[string]any{"value": uc.name, "panic": pan})
			} else if err == nil {
				fail("unsupported/marshal-succeeds/"+uc.name, uc.name+"/"+cb.String(), map[string]any{"value": uc.name, "output": string(out)})
			}
		}
		for oi, opts := range unmarshalOptionCombos() {
			for _, doc := range docs {
				evals++
				unsCount++
				err, pan := guardE(func() error { return csproto.JSONUnmarshaler(uc.v, opts...).UnmarshalJSON(doc) })
				if pan != "" {
					fail("unsupported/unmarshal-panics/"+uc.name, fmt.Sprintf("%s/opts%d/%s", uc.name, oi, doc), map[string]any{"value": uc.name, "go_type": fmt.Sprintf("%T", uc.v), "document": string(doc), "panic": pan})
				} else if err == nil {
					fail("unsupported/unmarshal-succeeds/"+uc.name, fmt.Sprintf("%s/opts%d/%s", uc.name, oi, doc), map[string]any{"value": uc.name, "document": string(doc)})
				}
			}
		}
	}
	c.count("unsupported_value_cases", unsCount)

	// ------------------------------------------------------------------ delegation
	stubErr := errors.New("stub error")
	outs := []struct {
		out []byte
		err error
	}{{[]byte(`{"stub":true}`), nil}, {[]byte(`[1, 2,   3]`), nil}, {nil, stubErr}, {[]byte(`not json at all`), nil}}
	var delCount int64
	for oi, o := range outs {
		for _, cb := range c.combos {
			id := fmt.Sprintf("out%d/%s", oi, cb.String())
			// value receiver
			n := 0
			sv := stubVal{&n, o.out, o.err}
			got, err, pan := guardB(func() ([]byte, error) { return csproto.JSONMarshaler(sv, cb.opts()...).MarshalJSON() })
			evals++
			delCount++
			if pan != "" || n != 1 || !bytes.Equal(got, o.out) || err != o.err {
				fail("delegation/marshal/value-receiver-stub", id, map[string]any{"calls": n, "got": string(got), "want": string(o.out), "error": fmt.Sprint(err), "panic": pan})
			}
			// pointer receiver
			sp := &stubPtr{out: o.out, err: o.err}
			got, err, pan = guardB(func() ([]byte, error) { return csproto.JSONMarshaler(sp, cb.opts()...).MarshalJSON() })
			evals++
			delCount++
			if pan != "" || sp.calls != 1 || !bytes.Equal(got, o.out) || err != o.err {
				fail("delegation/marshal/pointer-receiver-stub", id, map[string]any{"calls": sp.calls, "got": string(got), "want": string(o.out), "error": fmt.Sprint(err), "panic": pan})
			}
			// a v2 message with its own MarshalJSON
			pp := &stubProto{Timestamp: &timestamppb.Timestamp{Seconds: 5}, out: o.out, err: o.err}
			got, err, pan = guardB(func() ([]byte, error) { return csproto.JSONMarshaler(pp, cb.opts()...).MarshalJSON() })
			evals++
			delCount++
			if pan != "" || pp.calls != 1 || !bytes.Equal(got, o.out) || err != o.err {
				fail("delegation/marshal/v2-message-with-own-MarshalJSON", id, map[string]any{"calls": pp.calls, "got": string(got), "want": string(o.out), "error": fmt.Sprint(err), "panic": pan})
			}
		}
		for ui, opts := range unmarshalOptionCombos() {
			for di, doc := range docs {
				id := fmt.Sprintf("err%d/opts%d/doc%d", oi, ui, di)
				sp := &stubPtr{err: o.err}
				err, pan := guardE(func() error { return csproto.JSONUnmarshaler(sp, opts...).UnmarshalJSON(doc) })
				evals++
				delCount++
				if pan != "" || sp.calls != 1 || len(sp.got) != 1 || !bytes.Equal(sp.got[0], doc) || err != o.err {
					fail("delegation/unmarshal/pointer-receiver-stub", id, map[string]any{"calls": sp.calls, "document": string(doc), "error": fmt.Sprint(err), "panic": pan})
				}
				pp := &stubProto{Timestamp: &timestamppb.Timestamp{}, err: o.err}
				err, pan = guardE(func() error { return csproto.JSONUnmarshaler(pp, opts...).UnmarshalJSON(doc) })
				evals++
				delCount++
				if pan != "" || pp.calls != 1 || len(pp.got) != 1 || !bytes.Equal(pp.got[0], doc) || err != o.err {
					fail("delegation/unmarshal/v2-message-with-own-UnmarshalJSON", id, map[string]any{"calls": pp.calls, "document": string(doc), "error": fmt.Sprint(err), "panic": pan})
				}
				sm := stubMap{}
				err, pan = guardE(func() error { return csproto.JSONUnmarshaler(sm, opts...).UnmarshalJSON(doc) })
				evals++
				delCount++
				if pan != "" || err != nil || sm["got"] != string(doc) {
					fail("delegation/unmarshal/map-kind-stub", id, map[string]any{"document": string(doc), "error": fmt.Sprint(err), "panic": pan})
				}
			}
		}
	}
	c.count("delegation_cases", delCount)
}

func kindClass(name string) string {
	for i := 0; i < len(name); i++ {
		if name[i] == '/' {
			// typed-nil/<rt>/<typ> -> typed-nil/<rt>
			rest := name[i+1:]
			for j := 0; j < len(rest); j++ {
				if rest[j] == '/' {
					return name[:i+1+j]
				}
			}
			return name
		}
	}
	return name
}
