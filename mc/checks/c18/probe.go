package main

import (
	"bytes"
	"encoding/json"
	"fmt"
	"strconv"
	"strings"

	"google.golang.org/protobuf/reflect/protoreflect"
)

// decodeGeneric decodes JSON text into the generic structure (numbers kept as literals).
func decodeGeneric(b []byte) (any, error) {
	if !json.Valid(b) {
		return nil, fmt.Errorf("not a single well-formed JSON value")
	}
	d := json.NewDecoder(bytes.NewReader(b))
	d.UseNumber()
	var v any
	if err := d.Decode(&v); err != nil {
		return nil, err
	}
	return v, nil
}

func hasContainerContent(v any) bool {
	switch x := v.(type) {
	case map[string]any:
		return len(x) > 0
	case []any:
		return len(x) > 0
	}
	return false
}

// probeIndent checks the documented effect of the indent option on the raw text:
// indent == "" (unset or empty): the text is a single line (no line break outside string literals);
// indent != "": the text is multi-line as soon as the top-level value is a non-empty object/array, every
// object member and array element starts its own line, and the white space that starts a line is exactly
// depth x indent where depth is the bracket nesting depth of that line.
// It never compares bytes between key and value (protojson randomises that white space on purpose).
func probeIndent(out []byte, indent string, generic any) string {
	depth := 0
	inStr, esc := false, false
	lines := 0
	// lastSig: last significant (non white space) byte outside strings before the current position
	var lastSig byte
	for i := 0; i < len(out); i++ {
		c := out[i]
		if inStr {
			switch {
			case esc:
				esc = false
			case c == '\\':
				esc = true
			case c == '"':
				inStr = false
			}
			continue
		}
		switch c {
		case '"':
			if indent != "" && (lastSig == '{' || lastSig == '[' || lastSig == ',') && depth > 0 {
				if !startsLine(out, i) {
					return fmt.Sprintf("offset %d: member/element does not start on its own line", i)
				}
			}
			inStr = true
			lastSig = c
		case '{', '[':
			if indent != "" && (lastSig == '[' || lastSig == ',') && depth > 0 {
				if !startsLine(out, i) {
					return fmt.Sprintf("offset %d: element does not start on its own line", i)
				}
			}
			depth++
			lastSig = c
		case '}', ']':
			depth--
			lastSig = c
		case '\n':
			lines++
			if indent == "" {
				return fmt.Sprintf("offset %d: line break in output although no indentation was requested", i)
			}
			// measure the white space run that starts the next line
			j := i + 1
			for j < len(out) && (out[j] == ' ' || out[j] == '\t') {
				j++
			}
			if j >= len(out) {
				// trailing newline at the very end is tolerated
				continue
			}
			if out[j] == '\n' || out[j] == '\r' {
				// blank line (golang/protobuf jsonpb renders an empty message as "{\n\n}"): nothing is prefixed
				i = j - 1
				continue
			}
			d := depth
			if out[j] == '}' || out[j] == ']' {
				d--
			}
			if d < 0 {
				return fmt.Sprintf("line %d: closing bracket without an opening one", lines+1)
			}
			want := strings.Repeat(indent, d)
			if got := string(out[i+1 : j]); got != want {
				return fmt.Sprintf("line %d: leading white space %q, want %q (depth %d x indent %q)", lines+1, got, want, d, indent)
			}
			i = j - 1
		case ' ', '\t', '\r':
		default:
			if indent != "" && c != ':' && c != ',' && (lastSig == '[' || lastSig == ',') && depth > 0 {
				if !startsLine(out, i) {
					return fmt.Sprintf("offset %d: element does not start on its own line", i)
				}
			}
			lastSig = c
		}
	}
	if indent != "" && lines == 0 && hasContainerContent(generic) {
		return fmt.Sprintf("indent %q requested but the output is a single line", indent)
	}
	return ""
}

// startsLine reports whether only white space separates position i from the preceding line break.
func startsLine(out []byte, i int) bool {
	for j := i - 1; j >= 0; j-- {
		switch out[j] {
		case ' ', '\t':
			continue
		case '\n':
			return true
		default:
			return false
		}
	}
	return false
}

// ---------------------------------------------------------------------------------------------
// descriptor-driven walk of message + generic JSON

type probeErr struct {
	kind string // enum | zero | stray-key | shape
	path string
	msg  string
}

type walker struct {
	useNum, incZero bool
	errs            []probeErr
	enumSlots       int // enum values looked at
	zeroKeys        int // keys present only because of IncludeZeroValues
}

func (w *walker) add(kind, path, format string, a ...any) {
	if len(w.errs) < 8 {
		w.errs = append(w.errs, probeErr{kind, path, fmt.Sprintf(format, a...)})
	}
}

func isWKT(md protoreflect.MessageDescriptor) bool {
	return md.ParentFile() != nil && md.ParentFile().Package() == "google.protobuf"
}

func jsonKey(fd protoreflect.FieldDescriptor, obj map[string]any) (string, any, bool) {
	if v, ok := obj[fd.JSONName()]; ok {
		return fd.JSONName(), v, true
	}
	if v, ok := obj[string(fd.Name())]; ok {
		return string(fd.Name()), v, true
	}
	return fd.JSONName(), nil, false
}

func (w *walker) message(path string, m protoreflect.Message, j any) {
	md := m.Descriptor()
	if isWKT(md) {
		return
	}
	obj, ok := j.(map[string]any)
	if !ok {
		w.add("shape", path, "message %s not rendered as a JSON object but as %T", md.FullName(), j)
		return
	}
	seen := map[string]bool{}
	fds := md.Fields()
	for i := 0; i < fds.Len(); i++ {
		fd := fds.Get(i)
		key, v, present := jsonKey(fd, obj)
		if present {
			seen[key] = true
		}
		has := m.Has(fd)
		want := has || (w.incZero && fd.ContainingOneof() == nil)
		p := path + "." + string(fd.Name())
		if present != want {
			w.add("zero", p, "key present=%v, field populated=%v, IncludeZeroValues=%v", present, has, w.incZero)
			continue
		}
		if !present {
			continue
		}
		if !has {
			w.zeroKeys++
			w.zeroValue(p, fd, m, v)
			continue
		}
		w.value(p, fd, m.Get(fd), v)
	}
	for k := range obj {
		if !seen[k] {
			w.add("stray-key", path, "key %q does not belong to any field of %s", k, md.FullName())
		}
	}
}

// zeroValue: a key that is only there because of IncludeZeroValues must carry a zero-like value.
func (w *walker) zeroValue(p string, fd protoreflect.FieldDescriptor, m protoreflect.Message, v any) {
	switch x := v.(type) {
	case nil:
		return
	case bool:
		if !x {
			return
		}
	case json.Number:
		if f, err := x.Float64(); err == nil && f == 0 {
			if fd.Kind() == protoreflect.EnumKind && !fd.IsList() {
				w.enum(p, fd, m.Get(fd).Enum(), v)
			}
			return
		}
	case string:
		if x == "" || x == "0" {
			return
		}
		if fd.Kind() == protoreflect.EnumKind && !fd.IsList() && !fd.IsMap() {
			w.enum(p, fd, m.Get(fd).Enum(), v)
			return
		}
	case []any:
		if len(x) == 0 {
			return
		}
	case map[string]any:
		if len(x) == 0 {
			return
		}
	}
	w.add("zero", p, "unpopulated field rendered with the non-zero value %v", v)
}

func (w *walker) value(p string, fd protoreflect.FieldDescriptor, v protoreflect.Value, j any) {
	switch {
	case fd.IsList():
		arr, ok := j.([]any)
		l := v.List()
		if !ok || len(arr) != l.Len() {
			w.add("shape", p, "repeated field with %d elements rendered as %T (len %d)", l.Len(), j, len(arr))
			return
		}
		for i := 0; i < l.Len(); i++ {
			w.scalar(fmt.Sprintf("%s[%d]", p, i), fd, l.Get(i), arr[i])
		}
	case fd.IsMap():
		obj, ok := j.(map[string]any)
		mp := v.Map()
		if !ok || len(obj) != mp.Len() {
			w.add("shape", p, "map field with %d entries rendered as %T (len %d)", mp.Len(), j, len(obj))
			return
		}
		mp.Range(func(k protoreflect.MapKey, mv protoreflect.Value) bool {
			ks := fmt.Sprint(k.Interface())
			jv, ok := obj[ks]
			if !ok {
				w.add("shape", p, "map key %q missing in the JSON object", ks)
				return true
			}
			w.scalar(fmt.Sprintf("%s[%s]", p, ks), fd.MapValue(), mv, jv)
			return true
		})
	default:
		w.scalar(p, fd, v, j)
	}
}

func (w *walker) scalar(p string, fd protoreflect.FieldDescriptor, v protoreflect.Value, j any) {
	switch fd.Kind() {
	case protoreflect.MessageKind, protoreflect.GroupKind:
		w.message(p, v.Message(), j)
	case protoreflect.EnumKind:
		w.enum(p, fd, v.Enum(), j)
	}
}

// enum: number iff UseEnumNumbers (or the number has no name); name otherwise. NullValue is always null.
func (w *walker) enum(p string, fd protoreflect.FieldDescriptor, n protoreflect.EnumNumber, j any) {
	if fd.Enum().FullName() == "google.protobuf.NullValue" {
		return
	}
	w.enumSlots++
	ev := fd.Enum().Values().ByNumber(n)
	if w.useNum || ev == nil {
		num, ok := j.(json.Number)
		if !ok || num.String() != strconv.Itoa(int(n)) {
			w.add("enum", p, "enum value %d rendered as %T %v, want the JSON number %d (UseEnumNumbers=%v, defined=%v)", n, j, j, n, w.useNum, ev != nil)
		}
		return
	}
	s, ok := j.(string)
	if !ok || s != string(ev.Name()) {
		w.add("enum", p, "enum value %d rendered as %T %v, want the name %q (UseEnumNumbers=false)", n, j, j, ev.Name())
	}
}

// ---------------------------------------------------------------------------------------------
// sites for the unmarshal-side document mutations

// nestedMessageObjects lists the JSON objects that render nested (non well-known) messages.
func nestedMessageObjects(m protoreflect.Message, j any, top bool, out *[]map[string]any) {
	md := m.Descriptor()
	if isWKT(md) {
		return
	}
	obj, ok := j.(map[string]any)
	if !ok {
		return
	}
	if !top {
		*out = append(*out, obj)
	}
	fds := md.Fields()
	for i := 0; i < fds.Len(); i++ {
		fd := fds.Get(i)
		if !m.Has(fd) {
			continue
		}
		_, jv, present := jsonKey(fd, obj)
		if !present {
			continue
		}
		switch {
		case fd.IsList():
			if fd.Message() == nil {
				continue
			}
			arr, _ := jv.([]any)
			l := m.Get(fd).List()
			for k := 0; k < l.Len() && k < len(arr); k++ {
				nestedMessageObjects(l.Get(k).Message(), arr[k], false, out)
			}
		case fd.IsMap():
			if fd.MapValue().Message() == nil {
				continue
			}
			mo, _ := jv.(map[string]any)
			m.Get(fd).Map().Range(func(k protoreflect.MapKey, v protoreflect.Value) bool {
				if x, ok := mo[fmt.Sprint(k.Interface())]; ok {
					nestedMessageObjects(v.Message(), x, false, out)
				}
				return true
			})
		case fd.Message() != nil:
			nestedMessageObjects(m.Get(fd).Message(), jv, false, out)
		}
	}
}

// reqSite is one populated required field: at the top level (parent == nil) or inside a populated
// singular message field of the top level.
type reqSite struct {
	parent protoreflect.FieldDescriptor
	fd     protoreflect.FieldDescriptor
}

func (s reqSite) String() string {
	if s.parent != nil {
		return string(s.parent.Name()) + "." + string(s.fd.Name())
	}
	return string(s.fd.Name())
}

func requiredSites(m protoreflect.Message) []reqSite {
	var out []reqSite
	fds := m.Descriptor().Fields()
	for i := 0; i < fds.Len(); i++ {
		fd := fds.Get(i)
		if !m.Has(fd) {
			continue
		}
		if fd.Cardinality() == protoreflect.Required {
			out = append(out, reqSite{nil, fd})
		}
		if fd.Message() != nil && !fd.IsList() && !fd.IsMap() && !isWKT(fd.Message()) {
			sub := m.Get(fd).Message()
			sf := fd.Message().Fields()
			for k := 0; k < sf.Len(); k++ {
				if sf.Get(k).Cardinality() == protoreflect.Required && sub.Has(sf.Get(k)) {
					out = append(out, reqSite{fd, sf.Get(k)})
				}
			}
		}
	}
	return out
}

// removeRequired deletes the key of the site from the generic document; false if it is not there.
func removeRequired(doc any, s reqSite) bool {
	obj, ok := doc.(map[string]any)
	if !ok {
		return false
	}
	if s.parent != nil {
		_, sub, present := jsonKey(s.parent, obj)
		if !present {
			return false
		}
		obj, ok = sub.(map[string]any)
		if !ok {
			return false
		}
	}
	key, _, present := jsonKey(s.fd, obj)
	if !present {
		return false
	}
	delete(obj, key)
	return true
}

// clearRequired clears the field of the site in the message.
func clearRequired(m protoreflect.Message, s reqSite) {
	if s.parent != nil {
		pfd := m.Descriptor().Fields().ByNumber(s.parent.Number())
		sub := m.Mutable(pfd).Message()
		sub.Clear(sub.Descriptor().Fields().ByNumber(s.fd.Number()))
		return
	}
	m.Clear(m.Descriptor().Fields().ByNumber(s.fd.Number()))
}
