// C05: generated Marshal decodes, from the schema alone, to the original message.
package main

import "verif/mc/checks/gen"

func main() {
	gen.Main("C05", "exploration",
		"same corpus x runtime x value-tree enumeration as C04; per case the bytes of the generated Marshal are parsed by the reference runtime from the descriptor alone (dynamicpb, never consults generated methods) and the resulting tree must equal the source tree bit-exactly (floats by bits, -0.0, NaN), with identical presence for every field, and no unknown fields. Two further populations of originals: (a) the same trees carrying unknown fields at EVERY level (root, singular children, list elements, map values): first Marshal, second Marshal of the same message, Marshal after Size, csproto.Marshal - each must read back as the tree, unknown fields at the level they belong to; (b) messages that came out of the generated Unmarshal of every legal encoding variant of the case: what the reference reads from Marshal must equal what reflection reads from the message itself. distinct_nontrivial = cases with non-empty output that reached the tree comparison. ROUND 7 ADDITION: hand-built struct shapes compared with the reference runtime's own reading of the struct (nil map values excepted).",
		"the harness is guarded per case: the reference's own marshal of the tree must parse back to the tree and a struct built from the tree must read back as the tree (else internal error, not a violation)")
}
