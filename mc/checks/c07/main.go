// C07: unknown fields survive Unmarshal followed by Marshal.
package main

import "verif/mc/checks/gen"

func main() {
	gen.Main("C07", "exploration",
		"corpus x runtimes x value trees as in C04 x every encoding variant that carries unknown fields (7 shapes: varint 1/10 bytes, fixed32, fixed64, LEN 0/15/128 bytes; numbers just above the known ones, around 2047/2048 and near 2^29; at every position; inside map entries and nested messages): generated Unmarshal, then Size and Marshal; the re-marshaled bytes are parsed by the reference and must carry the same unknown bytes in input order and the same known tree; Size == len(Marshal); a second round trip is a fixed point; and (default copying decode mode) when the caller overwrites its input buffer between Unmarshal and Marshal the output is the same bytes. distinct_nontrivial = variants whose unknown bytes were compared and preserved. ROUND 7 ADDITIONS: unknown fields with one-byte keys where the schema has room; a padded-key unknown field followed by a second unknown field (front/front, front/back, back/back).",
		"unknown fields inside extension ranges are avoided for extendable messages")
}
