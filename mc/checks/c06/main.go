// C06: generated Unmarshal agrees with the reference on every valid encoding.
package main

import "verif/mc/checks/gen"

func main() {
	gen.Main("C06", "exploration",
		"corpus x runtimes x value trees as in C04; for every tree every legal encoding variant generated at the wire level (all order permutations of <= 4 top-level occurrences, else reversal/rotation; packed <-> unpacked, every split point, mixed packed+unpacked; singular scalar twice (last wins); singular message twice / split in two / empty-then-full / full-then-empty; map entries value-key, key only, value only, empty, duplicated key, duplicated key inside one entry, unknown field inside an entry; two members of one oneof; implicit-presence scalars written with their zero value; 7 unknown-field shapes + 2 with a padded (non-minimal) key at every position; the same variants inside nested messages) decoded by the generated Unmarshal into (a) a fresh struct and (b) a struct pre-populated with other content and a primed size cache, compared with the reference runtime's decode of the same bytes (dynamicpb, bit-exact trees incl. unknown bytes). distinct_nontrivial = (variant, destination) pairs that reached the tree comparison and agreed. ROUND 7-8 ADDITIONS: unknown fields with one-byte keys; a padded-key unknown field followed by a second unknown field; a destination whose previous Unmarshal failed half-way; the caller's input buffer is unchanged after Unmarshal.",
		"variants the reference itself rejects are internal errors of the generator, not violations",
		"the expected tree is always the reference's decode of the same bytes (no hand-written expectation)")
}
