// C13: lazy partial decoding equals a full reference parse. Mode X: exhaustive product of a message
// family x definition family x every lazyref.Accessor x {safe, fast} x {Decode function, Decoder object},
// judged against a spec-derived reference walk; plus all short byte strings for totality.
package main

import (
	"bytes"
	"fmt"
	"runtime"
	"sort"
	"strings"

	"github.com/CrowdStrike/csproto"
	"github.com/CrowdStrike/csproto/lazyproto"

	"verif/mc/lib/ev"
	"verif/mc/lib/lazyref"
	"verif/mc/lib/refwire"
)

// ---------------------------------------------------------------- checking one decode

type checker struct {
	sh    *ev.Shard
	accs  []lazyref.Accessor
	calls int64
	nontr int64
	// context for reports
	msgHex, defStr, mode, entry string
}

func (c *checker) fail(sig, where, msg string) {
	c.sh.Fail(sig, fmt.Sprintf("msg=%s def=%s %s/%s %s", c.msgHex, c.defStr, c.mode, c.entry, where),
		map[string]string{"message_hex": c.msgHex, "def": c.defStr, "mode": c.mode, "entry": c.entry, "where": where, "msg": msg})
}

func (c *checker) guard(where string, f func()) (panicked bool) {
	defer func() {
		if p := recover(); p != nil {
			panicked = true
			c.fail("panic/"+strings.SplitN(where, "(", 2)[0], where, fmt.Sprint(p))
		}
	}()
	f()
	return false
}

func absTags(def lazyproto.Def) (flat map[int]bool, nested map[int]lazyproto.Def) {
	flat, nested = map[int]bool{}, map[int]lazyproto.Def{}
	for k, v := range def {
		a := k
		if a < 0 {
			a = -a
		}
		flat[a] = true
		if v != nil {
			nested[a] = v
		}
	}
	return
}

var probeTags = []int{1, 2, 3, 4, 300, 1<<29 - 1}

// checkResult compares every lazyref.Accessor on r with the reference for (fields, def). full=false: only
// require absence of panics (arbitrary bytes).
func (c *checker) checkResult(r *lazyproto.DecodeResult, def lazyproto.Def, fields map[int][]lazyref.Occ, path []int, root *lazyproto.DecodeResult, depth int) {
	flat, nested := absTags(def)
	for _, tag := range probeTags {
		for _, qt := range []int{tag, -tag} {
			occs := fields[tag]
			var wantPresence lazyref.ErrClass
			switch {
			case !flat[tag]:
				wantPresence = lazyref.ENotDefined
			case len(occs) == 0:
				wantPresence = lazyref.ENotFound
			}
			where := fmt.Sprintf("path=%v tag=%d", path, qt)
			var fd *lazyproto.FieldData
			var ferr error
			c.guard("GetFieldData("+where+")", func() { fd, ferr = r.GetFieldData(qt) })
			c.calls++
			if !lazyref.ClassOK(ferr, wantPresence) {
				c.fail("GetFieldData/wrong-error", where, fmt.Sprintf("got %v, lazyref.Expected %s", ferr, wantPresence))
			}
			if len(path) > 0 && qt > 0 && root != nil {
				// the same through the root with a full path
				full := append(append([]int{}, path...), qt)
				var ferr2 error
				c.guard("FieldData("+where+")", func() { _, ferr2 = root.FieldData(full...) })
				c.calls++
				if !lazyref.ClassOK(ferr2, wantPresence) {
					c.fail("FieldData(path)/wrong-error", where, fmt.Sprintf("got %v, lazyref.Expected %s", ferr2, wantPresence))
				}
			}
			if qt < 0 && !(flat[tag] && len(occs) > 0) {
				continue
			}
			for ai := range c.accs {
				a := &c.accs[ai]
				if qt < 0 && !a.StrKind {
					continue // negative tags are for raw access: the typed suite runs on the positive tag
				}
				var want lazyref.Val
				wantErr := wantPresence
				if wantErr == lazyref.ENone {
					want, wantErr = lazyref.Expected(a, occs)
					c.nontr++
				}
				for via := 0; via < 2; via++ {
					if via == 1 && (fd == nil || ferr != nil) {
						continue
					}
					var got lazyref.Val
					var err error
					w := fmt.Sprintf("%s %s via=%d", a.Name, where, via)
					c.guard(a.Name+"("+where+")", func() {
						if via == 0 {
							got, err = a.ViaRes(r, qt)
						} else {
							got, err = a.ViaFD(fd)
						}
					})
					c.calls++
					if !lazyref.ClassOK(err, wantErr) {
						c.fail(a.Name+"/wrong-error/lazyref.Expected-"+wantErr.String(), w, fmt.Sprintf("got error %v (value %v), lazyref.Expected %s %v", err, got, wantErr, want))
						continue
					}
					if wantErr == lazyref.ENone && !lazyref.SameVal(got, want) {
						c.fail(a.Name+"/wrong-value", w, fmt.Sprintf("got %v lazyref.Expected %v", got, want))
					}
				}
			}
		}
	}
	// Range: exactly the declared tags, nil for absent ones
	var seen []int
	c.guard("Range", func() {
		r.Range(func(tag int, f *lazyproto.FieldData) bool {
			seen = append(seen, tag)
			if (f != nil) != (len(fields[tag]) > 0) {
				c.fail("Range/wrong-presence", fmt.Sprintf("path=%v tag=%d", path, tag), fmt.Sprintf("field non-nil=%v but reference occurrences=%d", f != nil, len(fields[tag])))
			}
			return true
		})
	})
	var wantTags []int
	for t := range flat {
		wantTags = append(wantTags, t)
	}
	sort.Ints(wantTags)
	sort.Ints(seen)
	if fmt.Sprint(seen) != fmt.Sprint(wantTags) && len(def) > 0 && !(len(path) == 0 && c.msgHex == "") { // the empty top-level message yields a nil/empty result by design
		c.fail("Range/wrong-tags", fmt.Sprintf("path=%v", path), fmt.Sprintf("visited %v lazyref.Expected %v", seen, wantTags))
	}
	if depth >= 3 {
		return
	}
	// nested
	for _, tag := range probeTags[:4] {
		occs := fields[tag]
		sub, isNested := nested[tag]
		var want lazyref.ErrClass
		switch {
		case len(nested) == 0:
			want = lazyref.ENotDefined
		case !flat[tag]:
			want = lazyref.ENotDefined
		case !isNested:
			want = lazyref.ENestingOrNotDefined
		case len(occs) == 0:
			want = lazyref.ENotFound
		case occs[0].WT != refwire.Len:
			want = lazyref.EMismatch
		}
		where := fmt.Sprintf("path=%v tag=%d", path, tag)
		var nr *lazyproto.DecodeResult
		var err error
		if c.guard("NestedResult("+where+")", func() { nr, err = r.NestedResult(tag) }) {
			continue
		}
		c.calls++
		{
			var nrNeg *lazyproto.DecodeResult
			var errNeg error
			if !c.guard("NestedResult(negated "+where+")", func() { nrNeg, errNeg = r.NestedResult(-tag) }) {
				c.calls++
				if (err == nil) != (errNeg == nil) || (nr == nil) != (nrNeg == nil) {
					c.fail("NestedResult/negated-tag-differs", where, fmt.Sprintf("tag %d: err=%v; tag %d: err=%v", tag, err, -tag, errNeg))
				}
			}
		}
		var subFields map[int][]lazyref.Occ
		subOK := false
		if want == lazyref.ENone {
			subFields, subOK = lazyref.RefFields(occs[len(occs)-1].Payload)
			if !subOK {
				want = lazyref.EAny // payload is not a well-formed message for this definition: error or result, no panic
			}
		}
		switch {
		case want == lazyref.EAny:
			// nothing to compare
		case !lazyref.ClassOK(err, want):
			c.fail("NestedResult/wrong-error/lazyref.Expected-"+want.String(), where, fmt.Sprintf("got %v", err))
		case want == lazyref.ENone:
			c.checkResult(nr, sub, subFields, append(append([]int{}, path...), tag), root, depth+1)
		}
		// NestedResults
		var nrs []*lazyproto.DecodeResult
		if c.guard("NestedResults("+where+")", func() { nrs, err = r.NestedResults(tag) }) {
			continue
		}
		c.calls++
		// a negative tag addresses the same field (the sign only selects raw access in a definition)
		var nrsNeg []*lazyproto.DecodeResult
		var errNeg error
		if !c.guard("NestedResults(negated "+where+")", func() { nrsNeg, errNeg = r.NestedResults(-tag) }) {
			c.calls++
			if (err == nil) != (errNeg == nil) || len(nrs) != len(nrsNeg) {
				c.fail("NestedResults/negated-tag-differs", where, fmt.Sprintf("tag %d: err=%v results=%d; tag %d: err=%v results=%d", tag, err, len(nrs), -tag, errNeg, len(nrsNeg)))
			}
		}
		wantAll := want
		if want == lazyref.ENestingOrNotDefined {
			wantAll = lazyref.ENestingOrNotDefined
		}
		if want == lazyref.ENone || want == lazyref.EAny {
			allOK := occs[0].WT == refwire.Len
			var subs []map[int][]lazyref.Occ
			for _, o := range occs {
				sf, ok := lazyref.RefFields(o.Payload)
				if !ok {
					allOK = false
				}
				subs = append(subs, sf)
			}
			if allOK {
				if err != nil || len(nrs) != len(occs) {
					c.fail("NestedResults/wrong-result", where, fmt.Sprintf("err=%v results=%d lazyref.Expected %d", err, len(nrs), len(occs)))
				} else if depth < 2 {
					for i, x := range nrs {
						c.checkResult(x, sub, subs[i], append(append([]int{}, path...), tag), nil, 3) // leaf check only (no FieldData(path), no deeper nesting)
					}
				}
			}
		} else if !lazyref.ClassOK(err, wantAll) && !(wantAll == lazyref.EMismatch && err != nil) {
			c.fail("NestedResults/wrong-error/lazyref.Expected-"+wantAll.String(), where, fmt.Sprintf("got %v", err))
		}
	}
}

func defString(d lazyproto.Def) string {
	if d == nil {
		return ""
	}
	var ks []int
	for k := range d {
		ks = append(ks, k)
	}
	sort.Ints(ks)
	var sb strings.Builder
	sb.WriteByte('{')
	for i, k := range ks {
		if i > 0 {
			sb.WriteByte(',')
		}
		fmt.Fprintf(&sb, "%d", k)
		if d[k] != nil {
			sb.WriteByte(':')
			sb.WriteString(defString(d[k]))
		}
	}
	sb.WriteByte('}')
	return sb.String()
}

// runPair decodes msg with def through both entry points and both modes.
func (c *checker) runPair(msg []byte, def lazyproto.Def, decs [2]*lazyproto.Decoder, wellFormed bool, fields map[int][]lazyref.Occ) {
	c.msgHex = fmt.Sprintf("%x", msg)
	c.defStr = defString(def)
	for mi, m := range []csproto.DecoderMode{csproto.DecoderModeSafe, csproto.DecoderModeFast} {
		c.mode = m.String()
		// Decoder object
		c.entry = "Decoder"
		in := append([]byte{}, msg...)
		var r *lazyproto.DecodeResult
		var err error
		c.guard("Decoder.Decode", func() { r, err = decs[mi].Decode(in) })
		c.calls++
		c.afterDecode(r, err, def, wellFormed, fields)
		c.guard("Close", func() { _ = r.Close() })
		// decoding and reading only READ the input: whatever the mode, the caller's buffer holds what it held
		if !bytes.Equal(in, msg) {
			c.fail("Decode/input-buffer-modified", "decode", fmt.Sprintf("buffer afterwards %x", in))
			in = append([]byte{}, msg...)
		}
		if mi == 0 {
			// deprecated function entry point (always safe)
			c.entry = "Decode()"
			var rv lazyproto.DecodeResult
			c.guard("Decode()", func() { rv, err = lazyproto.Decode(in, def) })
			c.calls++
			c.afterDecode(&rv, err, def, wellFormed, fields)
			c.guard("Close", func() { _ = rv.Close() })
		}
	}
}

func (c *checker) afterDecode(r *lazyproto.DecodeResult, err error, def lazyproto.Def, wellFormed bool, fields map[int][]lazyref.Occ) {
	if wellFormed {
		if err != nil {
			c.fail("Decode/error-on-well-formed", "decode", err.Error())
			return
		}
		c.checkResult(r, def, fields, nil, r, 0)
		return
	}
	if err != nil {
		return
	}
	// arbitrary bytes accepted by the lazy decoder: every call must still not panic
	c.noPanicWalk(r, def, 0)
}

func (c *checker) noPanicWalk(r *lazyproto.DecodeResult, def lazyproto.Def, depth int) {
	for _, tag := range probeTags[:4] {
		var fd *lazyproto.FieldData
		c.guard("GetFieldData", func() { fd, _ = r.GetFieldData(tag) })
		for ai := range c.accs {
			a := &c.accs[ai]
			c.guard(a.Name, func() { _, _ = a.ViaRes(r, tag) })
			if fd != nil {
				c.guard(a.Name, func() { _, _ = a.ViaFD(fd) })
			}
			c.calls += 2
		}
		if depth < 2 {
			var nr *lazyproto.DecodeResult
			var err error
			c.guard("NestedResult", func() { nr, err = r.NestedResult(tag) })
			if err == nil && nr != nil {
				c.noPanicWalk(nr, def[tag], depth+1)
			}
			var nrs []*lazyproto.DecodeResult
			c.guard("NestedResults", func() { nrs, err = r.NestedResults(tag) })
			for _, x := range nrs {
				c.guard("nested.GetFieldData", func() { _, _ = x.GetFieldData(1) })
			}
			c.guard("FieldData(path)", func() { _, _ = r.FieldData(tag, 1) })
			c.guard("FieldData(path3)", func() { _, _ = r.FieldData(tag, 2, 1) })
		}
	}
	c.guard("Range", func() { r.Range(func(int, *lazyproto.FieldData) bool { return true }) })
}

// ---------------------------------------------------------------- message and definition families

func key(n, wt int) []byte { return refwire.AppendKey(nil, n, wt) }

func cat(parts ...[]byte) []byte {
	var out []byte
	for _, p := range parts {
		out = append(out, p...)
	}
	return out
}

// fieldOptions returns the alternative encodings (lists of occurrences) of field n.
func fieldOptions(n int, subs [][]byte) [][][]byte {
	vi := func(v uint64) []byte { return refwire.AppendVarint(key(n, 0), v) }
	ln := func(p []byte) []byte { return refwire.AppendBytes(key(n, 2), p) }
	f32 := func(v uint32) []byte { return refwire.AppendFixed32(key(n, 5), v) }
	f64 := func(v uint64) []byte { return refwire.AppendFixed64(key(n, 1), v) }
	packedV := cat(refwire.AppendVarint(nil, 1), refwire.AppendVarint(nil, 300), refwire.AppendVarint(nil, ^uint64(0)))
	packedF := cat(refwire.AppendFixed32(nil, 0x3f800000), refwire.AppendFixed32(nil, 0xffffffff))
	opts := [][][]byte{
		nil, // absent
		{vi(1)},
		{vi(1 << 32)},                   // overflows 32-bit accessors
		{vi(3), vi(^uint64(0))},         // two occurrences, last is -1 / max
		{vi(0xffffffff80000000), vi(5)}, // int32 min sign-extended, then 5
		{f32(0x7fc00000)},
		{f32(1), f32(0x80000000)},
		{f64(0x7ff8000000000001)},
		{f64(2), f64(1 << 63)},
		{ln(nil)},
		{ln([]byte("abc"))},
		{ln([]byte("x")), ln(nil), ln([]byte("yz"))}, // repeated strings incl. an empty one
		{ln(packedV)},
		{ln(packedV), ln(nil), ln(refwire.AppendVarint(nil, 7))}, // split packed runs incl. an empty run
		{ln(packedF)},
		{ln(cat(refwire.AppendFixed64(nil, 1), refwire.AppendFixed64(nil, ^uint64(0))))},
	}
	for _, s := range subs {
		opts = append(opts, [][]byte{ln(s)})
	}
	if len(subs) >= 2 {
		opts = append(opts, [][]byte{ln(subs[1]), ln(subs[0]), ln(subs[len(subs)-1])})
	}
	return opts
}

func subMessages(depth int) [][]byte {
	vi := func(n int, v uint64) []byte { return refwire.AppendVarint(key(n, 0), v) }
	ln := func(n int, p []byte) []byte { return refwire.AppendBytes(key(n, 2), p) }
	base := [][]byte{
		nil, // empty nested message
		vi(1, 9),
		cat(vi(1, 300), ln(2, []byte("in"))),
		cat(vi(1, 1), vi(1, 2), refwire.AppendFixed32(key(3, 5), 77)),
	}
	if depth > 1 {
		inner := subMessages(depth - 1)
		base = append(base, ln(2, inner[1]), cat(ln(2, inner[2]), vi(1, 4)), ln(2, nil), cat(ln(2, inner[len(inner)-1]), ln(2, inner[1])))
	}
	return base
}

// assemble concatenates occurrences in ascending order or interleaved (round-robin over fields).
func assemble(fields [][][]byte, interleave bool) []byte {
	var out []byte
	if !interleave {
		for _, f := range fields {
			for _, o := range f {
				out = append(out, o...)
			}
		}
		return out
	}
	for round := 0; ; round++ {
		any := false
		for fi := len(fields) - 1; fi >= 0; fi-- {
			if round < len(fields[fi]) {
				out = append(out, fields[fi][round]...)
				any = true
			}
		}
		if !any {
			return out
		}
	}
}

func subDefs() []lazyproto.Def {
	d1 := lazyproto.NewDef(1, 2, 3)
	d2 := lazyproto.NewDef(1)
	d2.NestedTag(2, 1, 2)
	d3 := lazyproto.NewDef(-2, 3)
	d3.NestedTag(2, 1)
	return []lazyproto.Def{d1, d2, d3}
}

// tagDefOptions: how one tag can appear in a definition.
func applyTagOption(d lazyproto.Def, tag, opt int, subs []lazyproto.Def) {
	switch {
	case opt == 0:
	case opt == 1:
		d[tag] = nil
	case opt == 2:
		d[-tag] = nil
	case opt >= 3 && opt < 3+len(subs):
		d[tag] = subs[opt-3]
	default:
		d[tag] = subs[opt-3-len(subs)]
		d[-tag] = nil
	}
}

func cloneDef(d lazyproto.Def) lazyproto.Def {
	if d == nil {
		return nil
	}
	out := lazyproto.Def{}
	for k, v := range d {
		out[k] = cloneDef(v)
	}
	return out
}

// wreckDef changes every level of d in place: nested definitions lose their tags and gain others, the top level gains tags.
func wreckDef(d lazyproto.Def) {
	for k, v := range d {
		if v != nil {
			wreckDef(v)
			for kk := range v {
				delete(v, kk)
			}
			v[9] = nil
			v[-9] = nil
		}
		_ = k
	}
	d[8] = nil
	d[-8] = nil
}

func worker(sh *ev.Shard) {
	c := &checker{sh: sh, accs: lazyref.BuildAccessors()}
	subs := subDefs()
	nOpt := 3 + 2*len(subs)
	defTags := []int{1, 2, 3, 4}
	// all definitions
	var defs []lazyproto.Def
	total := 1
	for range defTags {
		total *= nOpt
	}
	for x := 0; x < total; x++ {
		d := lazyproto.Def{}
		y := x
		for _, t := range defTags {
			applyTagOption(d, t, y%nOpt, subs)
			y /= nOpt
		}
		defs = append(defs, d)
	}
	// extra definitions for the 2-byte-key and maximal tags
	dx := lazyproto.NewDef(300, 1<<29-1, 1)
	dx.NestedTag(2, 300)
	defs = append(defs, dx)
	// core definitions: every option for each tag with the other tags at "flat" / "nested d2"
	var coreDefs []int
	for ti := range defTags {
		for o := 0; o < nOpt; o++ {
			for _, other := range []int{1, 4} {
				x, mul := 0, 1
				for tj := range defTags {
					v := other
					if tj == ti {
						v = o
					}
					x += v * mul
					mul *= nOpt
				}
				coreDefs = append(coreDefs, x)
			}
		}
	}
	coreDefs = append(coreDefs, 0, len(defs)-1)
	// messages
	depth := 2
	if sh.Thorough() {
		depth = 3
	}
	sm := subMessages(depth)
	msgTags := []int{1, 2, 3}
	var optsPerTag [][][][]byte
	for _, t := range msgTags {
		optsPerTag = append(optsPerTag, fieldOptions(t, sm))
	}
	nFO := len(optsPerTag[0])
	totalMsgs := nFO * nFO * nFO
	mkMsg := func(x int, inter bool) []byte {
		var fs [][][]byte
		y := x
		for ti := range msgTags {
			fs = append(fs, optsPerTag[ti][y%nFO])
			y /= nFO
		}
		return assemble(fs, inter)
	}
	var coreMsgs []int
	for ti := range msgTags {
		for o := 0; o < nFO; o++ {
			x, mul := 0, 1
			for tj := range msgTags {
				v := 1
				if tj == ti {
					v = o
				} else if tj == (ti+1)%3 {
					v = 11
				}
				x += v * mul
				mul *= nFO
			}
			coreMsgs = append(coreMsgs, x)
		}
	}
	decCache := map[int][2]*lazyproto.Decoder{}
	getDecs := func(di int) [2]*lazyproto.Decoder {
		if d, ok := decCache[di]; ok {
			return d
		}
		var out [2]*lazyproto.Decoder
		for mi, m := range []csproto.DecoderMode{csproto.DecoderModeSafe, csproto.DecoderModeFast} {
			// the Decoder objects live for the whole run (their pooled results are recycled from message to message); every
			// second one - alternating between the safe and the fast decoder of consecutive definitions - also carries
			// WithMaxBufferSize(1), so that results trimmed on Close are recycled too: what is decoded never depends on it
			opts := []lazyproto.Option{lazyproto.WithMode(m)}
			if (di+mi)%2 == 1 {
				opts = append(opts, lazyproto.WithMaxBufferSize(1))
			}
			// the Decoder is built from a PRIVATE copy of the definition, and the copy is wrecked right afterwards (nested
			// definitions emptied, bogus tags added at every level): a Def is a map the caller keeps and may reuse for the
			// next decoder; what a Decoder decodes is the definition it was created with
			own := cloneDef(defs[di])
			dec, err := lazyproto.NewDecoder(own, opts...)
			if err != nil {
				sh.Internal("NewDecoder(%s): %v", defString(defs[di]), err)
			}
			wreckDef(own)
			out[mi] = dec
		}
		decCache[di] = out
		return out
	}
	var pairs int64
	task := 0
	mine := func() bool { task++; return task%sh.N == sh.Index }
	doPair := func(mx int, inter bool, di int) {
		msg := mkMsg(mx, inter)
		fields, ok := lazyref.RefFields(msg)
		if !ok {
			sh.Internal("generated message not well-formed: %x", msg)
			return
		}
		sh.Cur("pair", fmt.Sprintf("msg=%x def=%s", msg, defString(defs[di])))
		c.runPair(msg, defs[di], getDecs(di), true, fields)
		pairs++
		if pairs == 7 {
			sh.Sample(map[string]any{"message_hex": fmt.Sprintf("%x", msg), "def": defString(defs[di]), "accessors": len(c.accs), "modes": "safe,fast", "entry_points": "Decoder.Decode, Decode()"})
		}
	}
	// (all messages) x (core defs)
	for mx := 0; mx < totalMsgs; mx++ {
		if !mine() {
			continue
		}
		for _, di := range coreDefs {
			if !sh.Thorough() && (mx+di)%16 != 0 {
				continue // quick tier: every 16th (message, core-def) combination, deterministic
			}
			doPair(mx, mx%2 == 1, di)
		}
	}
	// (core messages) x (all defs)
	for di := range defs {
		if !mine() {
			continue
		}
		for _, mx := range coreMsgs {
			if !sh.Thorough() && (mx+di)%12 != 0 {
				continue
			}
			doPair(mx, di%2 == 1, di)
		}
	}
	// large tags
	if sh.Index == 0 {
		vi := func(n int, v uint64) []byte { return refwire.AppendVarint(key(n, 0), v) }
		for _, msg := range [][]byte{
			cat(vi(300, 5), vi(1<<29-1, 6), vi(1, 7)),
			cat(refwire.AppendBytes(key(2, 2), vi(300, 8)), vi(1<<29-1, 1<<40)),
			cat(refwire.AppendBytes(key(1<<29-1, 2), []byte("big")), refwire.AppendFixed64(key(300, 1), 9)),
		} {
			fields, _ := lazyref.RefFields(msg)
			c.runPair(msg, defs[len(defs)-1], getDecs(len(defs)-1), true, fields)
			pairs++
		}
	}
	sh.Count("wellformed_pairs", pairs)
	// arbitrary bytes: all strings <= L over the wire alphabet x 12 definitions
	sigma := []byte{0x00, 0x01, 0x02, 0x04, 0x05, 0x08, 0x09, 0x0A, 0x0B, 0x0D, 0x12, 0x7F, 0x80, 0x81, 0xFE, 0xFF}
	L := 4
	if sh.Thorough() {
		L = 5
	}
	arbDefs := []int{1, 2, 3, 4, 5 * nOpt, 4 * nOpt, 3 + 4*nOpt, coreDefs[7], coreDefs[20], coreDefs[33], len(defs) - 2, len(defs) - 1}
	var arb, arbWF int64
	buf := make([]byte, 8)
	for l := 0; l <= L; l++ {
		tot := 1
		for i := 0; i < l; i++ {
			tot *= len(sigma)
		}
		for x := 0; x < tot; x++ {
			if !mine() {
				continue
			}
			b := buf[:l]
			y := x
			for i := 0; i < l; i++ {
				b[i] = sigma[y%len(sigma)]
				y /= len(sigma)
			}
			fields, ok := lazyref.RefFields(b)
			for _, di := range arbDefs {
				sh.Cur("arbitrary", fmt.Sprintf("bytes=%x def=%s", b, defString(defs[di])))
				c.runPair(append([]byte{}, b...), defs[di], getDecs(di), ok && l > 0, fields)
				arb++
				if ok {
					arbWF++
				}
			}
		}
	}
	// fixed32 field 1 with every 4-byte payload over an 8-symbol alphabet, under the definitions that declare tag 1 as a
	// NESTED message: the shortest inputs in which scalar bytes can also be parsed as a message (a varint never
	// can, fixed64 needs 9 bytes), i.e. where a missing wire-type check in the nested accessors shows
	if !sh.Thorough() { // the thorough tier covers all 5-byte strings anyway
		b := make([]byte, 5)
		b[0] = 0x0D
		sigma8 := []byte{0x00, 0x01, 0x02, 0x08, 0x0A, 0x12, 0x80, 0xFF}
		for x := 0; x < 1<<12; x++ {
			if !mine() {
				continue
			}
			y := x
			for i := 1; i < 5; i++ {
				b[i] = sigma8[y%len(sigma8)]
				y /= len(sigma8)
			}
			fields, ok := lazyref.RefFields(b)
			for _, di := range arbDefs {
				if defs[di][1] == nil {
					continue
				}
				sh.Cur("fixed32-under-nested-def", fmt.Sprintf("bytes=%x def=%s", b, defString(defs[di])))
				c.runPair(append([]byte{}, b...), defs[di], getDecs(di), ok, fields)
				arb++
				if ok {
					arbWF++
				}
			}
		}
	}
	// long varints: runs of 0..11 continuation bytes (0x80 / 0xFF), with and without a terminating byte, as the value of
	// a varint field, as the payload of a LEN field read through the packed accessors, inside a nested message, and
	// as the key itself; at the END of the buffer and followed by another field. These are the inputs that tell the
	// bounds-checked slow path of the varint reader from its unrolled fast path (buffers of 8, 9, 10, 11 bytes)
	{
		var runs [][]byte
		for k := 0; k <= 11; k++ {
			for _, cb := range []byte{0x80, 0xFF} {
				run := make([]byte, k)
				for i := range run {
					run[i] = cb
				}
				runs = append(runs, run, append(append([]byte{}, run...), 0x01), append(append([]byte{}, run...), 0x7F))
			}
		}
		for _, run := range runs {
			if !mine() {
				continue
			}
			shapes := [][]byte{
				cat(key(1, 0), run),
				cat(key(3, 0), []byte{0x05}, key(1, 0), run),
				cat(key(1, 0), run, key(3, 0), []byte{0x05}),
				refwire.AppendBytes(key(1, 2), run),
				cat(refwire.AppendBytes(key(1, 2), run), key(3, 0), []byte{0x05}),
				refwire.AppendBytes(key(2, 2), cat(key(1, 0), run)),
				refwire.AppendBytes(key(2, 2), refwire.AppendBytes(key(1, 2), run)),
				refwire.AppendBytes(key(1, 2), cat(key(1, 0), run)),
				cat(run, []byte{0x08, 0x01}),
				run,
			}
			for _, b := range shapes {
				fields, ok := lazyref.RefFields(b)
				for _, di := range arbDefs {
					sh.Cur("long-varint", fmt.Sprintf("bytes=%x def=%s", b, defString(defs[di])))
					c.runPair(append([]byte{}, b...), defs[di], getDecs(di), ok && len(b) > 0, fields)
					arb++
					if ok {
						arbWF++
					}
				}
			}
		}
	}
	// many occurrences: one tag occurring 7 / 8 / 9 / 16 / 17 / 33 / 65 times (as separate fields) between and around
	// single occurrences of the other tags, top level and inside a nested message: whatever space an implementation sets
	// aside per tag, the occurrence behind it must not land in a neighbour's
	{
		occ := func(tag, i int, shape int) []byte {
			switch shape {
			case 0:
				return cat(key(tag, 0), refwire.AppendVarint(nil, uint64(1000+i)))
			case 1:
				return refwire.AppendBytes(key(tag, 2), []byte(fmt.Sprintf("name-%d", i)))
			default:
				return refwire.AppendFixed32(key(tag, 5), uint32(0x01010101*uint32(i%200)))
			}
		}
		for _, many := range []int{1, 2, 3} { // the tag that occurs many times
			for _, n := range []int{7, 8, 9, 16, 17, 33, 65} {
				for shape := 0; shape < 3; shape++ {
					if !mine() {
						continue
					}
					var top []byte
					for t := 1; t <= 3; t++ {
						if t != many {
							top = append(top, occ(t, 0, (shape+t)%3)...) // the other tags once, in front ...
						}
					}
					for i := 0; i < n; i++ {
						top = append(top, occ(many, i, shape)...)
					}
					var tail []byte
					for t := 1; t <= 3; t++ {
						if t != many {
							tail = append(tail, occ(t, 1, (shape+t)%3)...) // ... and once more behind
						}
					}
					inputs := [][]byte{top, cat(top, tail), refwire.AppendBytes(key(2, 2), cat(top, tail)), cat(refwire.AppendBytes(key(3, 2), top), refwire.AppendBytes(key(3, 2), tail))}
					for _, b := range inputs {
						fields, ok := lazyref.RefFields(b)
						for _, di := range arbDefs {
							sh.Cur("many-occurrences", fmt.Sprintf("tag=%d n=%d shape=%d def=%s", many, n, shape, defString(defs[di])))
							c.runPair(append([]byte{}, b...), defs[di], getDecs(di), ok, fields)
							arb++
							if ok {
								arbWF++
							}
						}
					}
				}
			}
		}
	}
	sh.Count("arbitrary_byte_cases", arb)
	sh.Count("arbitrary_cases_wellformed_full_oracle", arbWF)
	sh.Count("evals", c.calls)
	sh.Count("nontrivial", c.nontr)
	sh.Count("accessor_calls", c.calls)
	sh.Done()
}

// nilReceivers: what a caller holds after ignoring a not-found / not-defined error is a nil *FieldData or a nil
// *DecodeResult; every accessor on them reports an error (no value) and nothing panics.
func nilReceivers(r *ev.Run) {
	var fd *lazyproto.FieldData
	var res *lazyproto.DecodeResult
	call := func(name string, f func() error) {
		var err error
		var pan any
		func() {
			defer func() { pan = recover() }()
			err = f()
		}()
		r.Evals(1)
		switch {
		case pan != nil:
			r.Fail("nil-receiver/"+name+"/panic", name, map[string]any{"panic": fmt.Sprint(pan)})
		case err == nil:
			r.Fail("nil-receiver/"+name+"/no-error", name, nil)
		}
	}
	for _, a := range lazyref.BuildAccessors() {
		a := a
		call("FieldData."+a.Name, func() error { _, err := a.ViaFD(fd); return err })
		call("DecodeResult."+a.Name, func() error { _, err := a.ViaRes(res, 1); return err })
	}
	call("DecodeResult.GetFieldData", func() error { _, err := res.GetFieldData(1); return err })
	call("DecodeResult.FieldData", func() error { _, err := res.FieldData(1, 2); return err })
	call("DecodeResult.NestedResult", func() error { _, err := res.NestedResult(1); return err })
	call("DecodeResult.NestedResults", func() error { _, err := res.NestedResults(1); return err })
	func() {
		defer func() {
			if p := recover(); p != nil {
				r.Fail("nil-receiver/Range-or-Close/panic", "Range/Close", map[string]any{"panic": fmt.Sprint(p)})
			}
		}()
		res.Range(func(int, *lazyproto.FieldData) bool { return true })
		_ = res.Close()
	}()
}

func main() {
	if sh := ev.ShardFromArgs(); sh != nil {
		worker(sh)
		return
	}
	r := ev.Start("C13", "exploration")
	nilReceivers(r)
	r.RunShards(32, runtime.NumCPU(), 8<<30)
	r.Rule("(every second long-lived Decoder object carries WithMaxBufferSize(1): results trimmed on Close are recycled from message to message) deterministic product: (plus: one tag occurring 7/8/9/16/17/33/65 times around single occurrences of the other tags, top level and nested) (plus: runs of 0..11 continuation bytes 0x80/0xFF, with and without a terminating byte, as varint value, packed payload, nested payload and key, at the end of the buffer and followed by a field, under 12 definitions) message family = 3 tags x ~24 field shapes each (absent; varint x1/x2 incl. 32-bit overflow and sign-extended negatives; fixed32/64 x1/x2; LEN empty / string / repeated strings incl. empty / packed varint runs incl. empty run / packed fixed / nested messages to depth 2 (3 thorough) incl. the EMPTY nested message and repeated nested), assembled ascending and interleaved; definition family = 4 tags x 9 options (absent, flat, negative, 3 nested sub-definitions, nested+negative) = 6561 definitions; explored as (all messages x core definitions) U (core messages x all definitions) [quick: every 16th / 12th combination, thorough: all]; x {safe, fast} x {Decoder.Decode, Decode()} x 26 typed accessors via DecodeResult and via FieldData, GetFieldData, FieldData(path), NestedResult(s), Range. Plus all byte strings <= 4 (5) over a 16-symbol alphabet x 12 definitions (full oracle when the reference accepts them, otherwise no-panic). evaluations = lazyref.Accessor calls; distinct_nontrivial = lazyref.Accessor evaluations on a PRESENT field (reference produced a value or a typed error).")
	r.Assume("each requested field number uses one wire type throughout (property's own precondition); messages mixing wire types are only in the no-panic set")
	r.Assume("where the statement is silent (e.g. reading a string as packed varints that happens to parse) the reference's own expansion is used: parse success => values must match, parse failure => any error")
	r.Finish()
}
