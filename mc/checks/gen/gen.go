// Package gen implements the generated-code properties (C04, C05, ...) over the schema corpus:
// every linked corpus message type x every enumerated value tree, executed on the fast-marshal code
// generated from the CURRENT templates, judged against the reference runtime working from the
// descriptor alone (dynamicpb).
package gen

import (
	"bytes"
	"encoding/json"
	"fmt"
	gogoproto "github.com/gogo/protobuf/proto"
	golangproto "github.com/golang/protobuf/proto"
	"os"
	"os/exec"
	"runtime"
	"runtime/pprof"
	"strings"

	"github.com/CrowdStrike/csproto"
	"google.golang.org/protobuf/proto"
	"google.golang.org/protobuf/reflect/protoreflect"
	"google.golang.org/protobuf/reflect/protoregistry"
	"google.golang.org/protobuf/types/dynamicpb"

	"verif/mc/corpus"
	"verif/mc/lib/ev"
	"verif/mc/lib/gcore"
	"verif/mc/lib/refwire"
)

type sizer interface{ Size() int }
type marshaler interface{ Marshal() ([]byte, error) }
type marshalerTo interface{ MarshalTo([]byte) error }
type unmarshaler interface{ Unmarshal([]byte) error }

// W is the per-worker context.
type W struct {
	sh     *ev.Shard
	prop   string
	evals  int64
	nontr  int64
	sample int
}

func (w *W) fail(t *gcore.Type, oracle, caseID string, msg string, extra map[string]any) {
	sig := fmt.Sprintf("%s/%s/%s.%s/%s", oracle, t.RT, t.File, t.Name, fieldsOf(caseID))
	d := map[string]any{"type": t.String(), "case": caseID, "msg": msg}
	for k, v := range extra {
		d[k] = v
	}
	w.sh.Fail(sig, t.String()+"/"+caseID, d)
}

// fieldsOf reduces a case id ("f_int32=max", "a=1,b=list2", "ext:x_int32=7", "all-last") to the field
// names it touches: the signature names the message and field(s), the replay file the exact value.
func fieldsOf(caseID string) string {
	parts := strings.Split(caseID, ",")
	for i, p := range parts {
		if j := strings.Index(p, "="); j >= 0 {
			parts[i] = p[:j]
		}
	}
	return strings.Join(parts, ",")
}

// build makes a fresh generated struct holding the tree c.
func build(t *gcore.Type, c *dynamicpb.Message) (x any, perr string) {
	defer func() {
		if p := recover(); p != nil {
			perr = fmt.Sprint(p)
		}
	}()
	x = t.New()
	gcore.Copy(gcore.Reflect(x), c)
	if err := gcore.SetExts(t, x, c); err != nil {
		return x, err.Error()
	}
	return x, ""
}

func guard(f func()) (p string) {
	defer func() {
		if r := recover(); r != nil {
			p = fmt.Sprint(r)
		}
	}()
	f()
	return ""
}

func multiEntryMap(m protoreflect.Message) bool {
	multi := false
	m.Range(func(fd protoreflect.FieldDescriptor, v protoreflect.Value) bool {
		switch {
		case fd.IsMap():
			if v.Map().Len() > 1 {
				multi = true
			}
			if fd.MapValue().Message() != nil {
				v.Map().Range(func(_ protoreflect.MapKey, x protoreflect.Value) bool {
					if multiEntryMap(x.Message()) {
						multi = true
					}
					return true
				})
			}
		case fd.IsList() && fd.Message() != nil:
			for i := 0; i < v.List().Len(); i++ {
				if multiEntryMap(v.List().Get(i).Message()) {
					multi = true
				}
			}
		case fd.Message() != nil:
			if multiEntryMap(v.Message()) {
				multi = true
			}
		}
		return !multi
	})
	return multi
}

const canary = 16

// marshalAll runs Size / Marshal / MarshalTo on fresh copies and checks their mutual agreement (C04).
// It returns the bytes of Marshal (nil if it failed).
func (w *W) marshalAll(t *gcore.Type, id string, c *dynamicpb.Message, report bool) []byte {
	x, perr := build(t, c)
	if perr != "" {
		w.sh.Internal("cannot build %s %s: %s", t, id, perr)
		return nil
	}
	y, _ := build(t, c)
	z, _ := build(t, c)
	var szFresh, szSame int
	var b []byte
	var err error
	if p := guard(func() { szFresh = y.(sizer).Size() }); p != "" {
		if report {
			w.fail(t, "C04/Size-panic", id, p, nil)
		}
		return nil
	}
	if p := guard(func() { b, err = x.(marshaler).Marshal() }); p != "" {
		if report {
			w.fail(t, "C04/Marshal-panic", id, p, map[string]any{"size": szFresh})
		}
		return nil
	}
	if err != nil {
		if report {
			w.fail(t, "C04/Marshal-error", id, err.Error(), nil)
		}
		return nil
	}
	if !report {
		return b
	}
	w.evals++
	if len(b) != szFresh {
		w.fail(t, "C04/Size-differs-from-len(Marshal)", id, fmt.Sprintf("Size()=%d len(Marshal())=%d", szFresh, len(b)), map[string]any{"bytes": hexs(b)})
	}
	if p := guard(func() { szSame = x.(sizer).Size() }); p != "" || szSame != len(b) {
		w.fail(t, "C04/Size-after-Marshal-differs", id, fmt.Sprintf("Size() after Marshal()=%d len=%d %s", szSame, len(b), p), nil)
	}
	// MarshalTo into an exactly sized, canary-framed window
	arena := make([]byte, szFresh+2*canary)
	for i := range arena {
		arena[i] = 0xA5
	}
	win := arena[canary : canary+szFresh : canary+szFresh]
	var merr error
	if p := guard(func() { merr = z.(marshalerTo).MarshalTo(win) }); p != "" {
		w.fail(t, "C04/MarshalTo-panic-on-Size()-buffer", id, p, map[string]any{"size": szFresh})
		return b
	}
	if merr != nil {
		w.fail(t, "C04/MarshalTo-error", id, merr.Error(), nil)
		return b
	}
	for i := 0; i < canary; i++ {
		if arena[i] != 0xA5 || arena[canary+szFresh+i] != 0xA5 {
			w.fail(t, "C04/MarshalTo-overrun", id, "canary damaged", nil)
			return b
		}
	}
	if !multiEntryMap(c) && !bytes.Equal(win, b) {
		w.fail(t, "C04/MarshalTo-differs-from-Marshal", id, fmt.Sprintf("MarshalTo=%s Marshal=%s", hexs(win), hexs(b)), nil)
	}
	// Size / Marshal / MarshalTo are read-only: the messages they were called on still hold the tree they were built from
	for _, msg := range []any{x, z} {
		if back, terr := gcore.TreeOf(t, msg); terr != nil {
			w.fail(t, "C04/message-unreadable-after-Marshal", id, terr.Error(), nil)
		} else if df := gcore.Diff(c, back); df != "" {
			w.fail(t, "C04/message-modified-by-Size-or-Marshal", id, df, nil)
		}
	}
	// through csproto's dispatcher on fresh copies
	u, _ := build(t, c)
	var cs int
	var cb []byte
	if p := guard(func() { cs = csproto.Size(u); cb, err = csproto.Marshal(u) }); p != "" || err != nil || cs != len(cb) || len(cb) != len(b) {
		w.fail(t, "C04/csproto.Size-Marshal-disagree", id, fmt.Sprintf("csproto.Size=%d len(csproto.Marshal)=%d len(Marshal)=%d err=%v %s", cs, len(cb), len(b), err, p), nil)
	}
	return b
}

// decodedValues (C04): message values that came out of the generated Unmarshal - of the canonical encoding and of every
// other legal encoding of the case (fields permuted, repeated, split, packed/unpacked, explicit zero values, non-minimal
// varints, unknown fields) - are message values like any other: Size must equal len(Marshal), MarshalTo must fill a
// Size()-byte window exactly, nothing may panic. (What the decode yields is C06's business; inputs it rejects are skipped.)
func (w *W) decodedValues(t *gcore.Type, id string, c *dynamicpb.Message) {
	for _, v := range variants(t.RefDesc(), c, 1) {
		vid := id + "/decoded:" + v.name
		cls := classOfVariant(v.name)
		dec := func() any {
			x := t.New()
			var err error
			if p := guard(func() { err = x.(unmarshaler).Unmarshal(append([]byte{}, v.b...)) }); p != "" || err != nil {
				return nil
			}
			return x
		}
		x, y := dec(), dec()
		if x == nil || y == nil {
			continue
		}
		if tree, terr := gcore.TreeOf(t, x); terr != nil || !initialized(tree) {
			continue // a decoded message that lacks required fields: whether it may be marshaled is C17's business
		}
		w.evals++
		var sz, sz2 int
		var b []byte
		var err error
		if p := guard(func() { sz = x.(sizer).Size(); b, err = x.(marshaler).Marshal(); sz2 = x.(sizer).Size() }); p != "" || err != nil {
			w.failV(t, "C04/decoded-message/Size-or-Marshal-fails", id, cls, vid, fmt.Sprint(p, err), v.b)
			continue
		}
		if sz != len(b) || sz2 != len(b) {
			w.failV(t, "C04/decoded-message/Size-differs-from-len(Marshal)", id, cls, vid, fmt.Sprintf("Size()=%d len(Marshal())=%d Size() afterwards=%d", sz, len(b), sz2), v.b)
			continue
		}
		var ysz int
		arena := make([]byte, 0)
		var merr error
		p := guard(func() {
			ysz = y.(sizer).Size()
			arena = make([]byte, ysz+2*canary)
			for i := range arena {
				arena[i] = 0xA5
			}
			merr = y.(marshalerTo).MarshalTo(arena[canary : canary+ysz : canary+ysz])
		})
		if p != "" || merr != nil {
			w.failV(t, "C04/decoded-message/MarshalTo-fails-on-Size()-buffer", id, cls, vid, fmt.Sprint(p, merr), v.b)
			continue
		}
		ok := ysz == len(b)
		for i := 0; i < canary && ok; i++ {
			ok = arena[i] == 0xA5 && arena[canary+ysz+i] == 0xA5
		}
		if ok {
			if tree, terr := gcore.TreeOf(t, y); terr == nil && !multiEntryMap(tree) {
				ok = bytes.Equal(arena[canary:canary+ysz], b)
			}
		}
		if !ok {
			w.failV(t, "C04/decoded-message/MarshalTo-differs-from-Marshal", id, cls, vid, fmt.Sprintf("MarshalTo=%s Marshal=%s", hexs(arena[canary:canary+ysz]), hexs(b)), v.b)
			continue
		}
		w.nontr++
	}
}

func hexs(b []byte) string {
	if len(b) > 96 {
		return fmt.Sprintf("%x...(%d bytes)", b[:96], len(b))
	}
	return fmt.Sprintf("%x", b)
}

// refDecode parses b with the reference runtime from the descriptor alone.
func refDecode(t *gcore.Type, b []byte) (*dynamicpb.Message, error) {
	d := dynamicpb.NewMessage(t.RefDesc())
	err := proto.UnmarshalOptions{AllowPartial: true, Resolver: t.Resolver()}.Unmarshal(b, d)
	return d, err
}

func (w *W) checkC05(t *gcore.Type, id string, c *dynamicpb.Message) {
	b := w.marshalAll(t, id, c, false)
	if b == nil {
		return // C04's business
	}
	w.evals++
	d, err := refDecode(t, b)
	if err != nil {
		w.fail(t, "C05/reference-rejects-generated-bytes", id, err.Error(), map[string]any{"bytes": hexs(b)})
		return
	}
	if len(d.GetUnknown()) > 0 {
		w.fail(t, "C05/reference-sees-unknown-fields", id, fmt.Sprintf("unknown=%x", []byte(d.GetUnknown())), map[string]any{"bytes": hexs(b)})
		return
	}
	if df := gcore.Diff(c, d); df != "" {
		w.fail(t, "C05/decoded-differs-from-original", id, df, map[string]any{"bytes": hexs(b), "original": gcore.Describe(c)})
		return
	}
	if len(b) > 0 {
		w.nontr++
	}
	// the same value again, but the owning RUNTIME measured it first (applications mix proto.Size / proto.Marshal with
	// the fast-marshal methods; both write the message's size-cache field): the generated bytes must be the same
	x2, perr := build(t, c)
	if perr != "" {
		return
	}
	var b2 []byte
	var err2 error
	p := guard(func() {
		switch t.RT {
		case corpus.Gogo:
			_ = gogoproto.Size(x2.(gogoproto.Message))
		case corpus.Legacy:
			_ = golangproto.Size(x2.(golangproto.Message))
		default:
			_ = proto.Size(x2.(proto.Message))
		}
		b2, err2 = x2.(marshaler).Marshal()
	})
	w.evals++
	bad := ""
	switch {
	case p != "" || err2 != nil:
		bad = fmt.Sprintf("panic=%q err=%v", p, err2)
	case len(b2) != len(b):
		bad = fmt.Sprintf("%d bytes instead of %d", len(b2), len(b))
	default: // the byte order of map entries may differ between two calls: compare what the reference reads
		if d2, derr := refDecode(t, b2); derr != nil {
			bad = "reference rejects the bytes: " + derr.Error()
		} else if df := gcore.Diff(c, d2); df != "" {
			bad = df
		}
	}
	if bad != "" {
		w.fail(t, "C05/output-differs-after-the-runtime-sized-the-message", id, bad, map[string]any{"bytes": hexs(b), "bytes_after_runtime_Size": hexs(b2)})
	}
}

// withUnknowns returns a copy of c in which the message itself and every message below it (singular, list element, map
// value) carries fields its schema does not define, as a message decoded from a newer writer's data does.
func withUnknowns(c *dynamicpb.Message) *dynamicpb.Message {
	d := gcore.ToDyn(c.Descriptor(), c)
	var walk func(m protoreflect.Message, depth int)
	walk = func(m protoreflect.Message, depth int) {
		unk := unknownFields(m.Descriptor())
		raw := append(append([]byte{}, unk[0].raw...), unk[5].raw...)
		if depth%2 == 1 {
			raw = append([]byte{}, unk[3].raw...)
		}
		m.SetUnknown(raw)
		m.Range(func(fd protoreflect.FieldDescriptor, v protoreflect.Value) bool {
			switch {
			case fd.IsExtension():
			case fd.IsMap():
				if fd.MapValue().Message() != nil {
					v.Map().Range(func(_ protoreflect.MapKey, x protoreflect.Value) bool { walk(x.Message(), depth+1); return true })
				}
			case fd.IsList():
				if fd.Message() != nil {
					for i := 0; i < v.List().Len(); i++ {
						walk(v.List().Get(i).Message(), depth+1)
					}
				}
			case fd.Message() != nil:
				walk(v.Message(), depth+1)
			}
			return true
		})
	}
	walk(d, 0)
	return d
}

// c05Unknowns: the original carries unknown fields at every level. Marshal (first call, second call on the same message,
// and after Size was called first) must give bytes from which the reference reads back the same tree, unknown fields
// of every level included and at the level they belong to.
func (w *W) c05Unknowns(t *gcore.Type, id string, c *dynamicpb.Message) {
	if c.Descriptor().Fields().Len() == 0 {
		return
	}
	cu := withUnknowns(c)
	x, perr := build(t, cu)
	if perr != "" {
		return
	}
	y, _ := build(t, cu)
	uid := id + "/with-unknown-fields-at-every-level"
	outs := map[string][]byte{}
	var err error
	if p := guard(func() {
		var b []byte
		if b, err = x.(marshaler).Marshal(); err != nil {
			return
		}
		outs["first Marshal"] = b
		if b, err = x.(marshaler).Marshal(); err != nil {
			return
		}
		outs["second Marshal of the same message"] = b
		_ = y.(sizer).Size()
		if b, err = y.(marshaler).Marshal(); err != nil {
			return
		}
		outs["Marshal after Size"] = b
		if b, err = csproto.Marshal(y); err != nil {
			return
		}
		outs["csproto.Marshal after that"] = b
	}); p != "" || err != nil {
		w.fail(t, "C05/original-with-unknown-fields/Marshal-fails", uid, fmt.Sprint(p, err), nil)
		return
	}
	for _, k := range []string{"first Marshal", "second Marshal of the same message", "Marshal after Size", "csproto.Marshal after that"} {
		b := outs[k]
		w.evals++
		d, derr := refDecode(t, b)
		if derr != nil {
			w.fail(t, "C05/original-with-unknown-fields/reference-rejects-generated-bytes", uid, k+": "+derr.Error(), map[string]any{"bytes": hexs(b), "call": k})
			return
		}
		if df := gcore.Diff(cu, d); df != "" {
			w.fail(t, "C05/original-with-unknown-fields/decoded-differs-from-original", uid, k+": "+df, map[string]any{"bytes": hexs(b), "call": k})
			return
		}
	}
	w.nontr++
}

// c05Decoded: the original is a message that came out of the generated Unmarshal (of every legal encoding of the case), as
// most messages a program re-marshals do: its in-memory representation differs from a freshly built one (empty but non-nil
// slices, retained unknown fields, a primed size cache). What the reference reads from its Marshal output must equal what
// reflection reads from the message itself.
func (w *W) c05Decoded(t *gcore.Type, id string, c *dynamicpb.Message) {
	for _, v := range variants(t.RefDesc(), c, 1) {
		x := t.New()
		tree, err, pan := w.decodeGen(t, x, v.b)
		if pan != "" || err != nil || tree == nil || !initialized(tree) {
			continue // C06 / C17
		}
		vid := id + "/decoded:" + v.name
		cls := classOfVariant(v.name)
		var b []byte
		if p := guard(func() { b, err = x.(marshaler).Marshal() }); p != "" || err != nil {
			continue // C04
		}
		w.evals++
		d, derr := refDecode(t, b)
		if derr != nil {
			w.failV(t, "C05/decoded-original/reference-rejects-generated-bytes", id, cls, vid, derr.Error(), v.b)
			continue
		}
		if df := gcore.Diff(tree, d); df != "" {
			// the message may hold as raw unknown bytes what the reference (which knows every extension of the corpus)
			// resolves to an extension field: compare after giving the original's own encoding to the same reader
			if n, nerr := refDecode(t, canonical(tree)); nerr == nil && gcore.Diff(n, d) == "" {
				w.nontr++
				continue
			}
			w.failV(t, "C05/decoded-original/decoded-differs-from-original", id, cls, vid, df, v.b)
			continue
		}
		w.nontr++
	}
}

// decodeGen runs the generated Unmarshal on a private copy of b into x and reads the tree back.
func (w *W) decodeGen(t *gcore.Type, x any, b []byte) (tree *dynamicpb.Message, err error, panicked string) {
	in := append([]byte{}, b...)
	panicked = guard(func() { err = x.(unmarshaler).Unmarshal(in) })
	if panicked != "" || err != nil {
		return nil, err, panicked
	}
	if !bytes.Equal(in, b) {
		return nil, nil, fmt.Sprintf("Unmarshal modified the caller's input buffer: %x", in)
	}
	tree, terr := gcore.TreeOf(t, x)
	if terr != nil {
		return nil, nil, "reading the struct back: " + terr.Error()
	}
	return tree, nil, ""
}

// prepopulated returns a struct that already holds other content (and a primed size cache).
var preTrees = map[*gcore.Type]*dynamicpb.Message{}

func prepopulated(t *gcore.Type) any {
	c := preTrees[t]
	if c == nil {
		sp := gcore.Specials(t.RefDesc())
		c = sp[len(sp)-1].Msg
		gcore.FillRequired(c)
		preTrees[t] = c
	}
	x, perr := build(t, c)
	if perr != "" {
		return t.New()
	}
	_ = guard(func() { _ = x.(sizer).Size() })
	return x
}

func (w *W) checkC06(t *gcore.Type, id string, c *dynamicpb.Message) {
	for vi, v := range variants(t.RefDesc(), c, 1) {
		ref, rerr := refDecode(t, v.b)
		if rerr != nil {
			w.sh.Internal("variant generator produced bytes the reference rejects: %s %s %s: %v (%x)", t, id, v.name, rerr, v.b)
			continue
		}
		vid := id + "/" + v.name
		ndst := 2
		if vi == 0 && len(v.b) > 1 {
			ndst = 3 // the canonical encoding also goes into a destination whose previous Unmarshal FAILED half-way
		}
		for dst := 0; dst < ndst; dst++ {
			var x any
			switch dst {
			case 0:
				x = t.New()
			case 1:
				x = prepopulated(t)
			default:
				x = t.New()
				failed := false
				for cut := len(v.b) - 1; cut > 0 && !failed; cut-- {
					var ferr error
					p := guard(func() { ferr = x.(unmarshaler).Unmarshal(append([]byte{}, v.b[:cut]...)) })
					failed = p == "" && ferr != nil
					if p != "" {
						break // C08's business
					}
				}
				if !failed {
					continue
				}
			}
			w.evals++
			tree, err, pan := w.decodeGen(t, x, v.b)
			cls := classOfVariant(v.name)
			switch {
			case pan != "":
				w.failV(t, "C06/Unmarshal-panic", id, cls, vid, pan, v.b)
			case err != nil:
				w.failV(t, "C06/Unmarshal-error-on-valid-encoding", id, cls, vid, err.Error(), v.b)
			default:
				if df := gcore.Diff(ref, tree); df != "" {
					o := "C06/differs-from-reference"
					if dst >= 1 {
						o = "C06/result-depends-on-previous-destination-content"
						if f, _, _ := w.decodeGen(t, t.New(), v.b); f != nil && gcore.Diff(ref, f) != "" {
							o = "C06/differs-from-reference"
						}
					}
					w.failV(t, o, id, cls, vid, df, v.b)
				} else {
					w.nontr++
				}
			}
		}
	}
}

// classOfVariant maps a variant name to its shape class (part of the failure signature).
func classOfVariant(name string) string {
	if i := strings.LastIndex(name, ">"); i >= 0 {
		return "nested>" + classOfVariant(name[i+1:])
	}
	if i := strings.Index(name, ":"); i >= 0 && !strings.HasPrefix(name, "oneof:") {
		n := name[i+1:]
		if j := strings.Index(n, "@"); j >= 0 {
			n = n[:j]
		}
		return n
	}
	if strings.HasPrefix(name, "perm") {
		return "permutation"
	}
	if strings.HasPrefix(name, "padded") || strings.Contains(name, "-then-padded") {
		return "padded-key-and-second-unknown-field"
	}
	if strings.HasPrefix(name, "unknown") {
		return "unknown-field"
	}
	if strings.HasPrefix(name, "oneof:") {
		return "oneof-two-members"
	}
	return name
}

func shapeSpecific(cls string) bool {
	for strings.HasPrefix(cls, "nested>") {
		cls = cls[len("nested>"):]
	}
	switch cls {
	case "dup-key", "dup-key-within-entry", "empty-entry", "key-only", "value-only", "value-key", "unknown-in-entry",
		"twice", "split-in-two", "full-then-empty", "empty-then-full":
		return true
	}
	return false
}

func (w *W) failV(t *gcore.Type, oracle, caseID, cls, vid, msg string, b []byte) {
	// the signature names oracle, runtime, message and the encoding-shape class (the template snippet at fault);
	// field and value are in the case id / replay file
	sig := fmt.Sprintf("%s/%s/%s.%s/%s", oracle, t.RT, t.File, t.Name, fieldsOf(caseID))
	if shapeSpecific(cls) {
		// the wire shape itself identifies the snippet at fault (map-entry decoding, duplicated message field)
		sig = fmt.Sprintf("%s/%s/%s", oracle, t.RT, cls)
	}
	w.sh.Fail(sig, t.String()+"/"+vid, map[string]any{"type": t.String(), "case": vid, "msg": msg, "bytes": hexs(b)})
}

// checkC07: unknown fields survive Unmarshal -> Marshal, Size accounts for them, second round trip is a fixed point.
func (w *W) checkC07(t *gcore.Type, id string, c *dynamicpb.Message) {
	for _, v := range variants(t.RefDesc(), c, 1) {
		if !strings.Contains(v.name, "unknown") {
			continue
		}
		ref, rerr := refDecode(t, v.b)
		if rerr != nil {
			continue
		}
		vid := id + "/" + v.name
		cls := classOfVariant(v.name)
		x := t.New()
		w.evals++
		var err error
		in := append([]byte{}, v.b...)
		if p := guard(func() { err = x.(unmarshaler).Unmarshal(in) }); p != "" || err != nil {
			// Rejected. If the SAME message without the unknown fields is accepted, it is the unknown field that made a
			// well-formed input unreadable: the data of the newer schema does not pass through. Otherwise the rejection
			// has another cause and is C06/C08's business.
			y := t.New()
			var cerr error
			canon := canonical(c)
			if cp := guard(func() { cerr = y.(unmarshaler).Unmarshal(append([]byte{}, canon...)) }); cp == "" && cerr == nil {
				w.failV(t, "C07/message-rejected-because-of-an-unknown-field", id, cls, vid, fmt.Sprint(p, err), v.b)
			}
			continue
		}
		var out []byte
		var sz int
		if p := guard(func() { sz = x.(sizer).Size(); out, err = x.(marshaler).Marshal() }); p != "" || err != nil {
			w.failV(t, "C07/Marshal-after-Unmarshal-fails", id, cls, vid, fmt.Sprint(p, err), v.b)
			continue
		}
		if sz != len(out) {
			w.failV(t, "C07/Size-differs-from-len(Marshal)-with-unknown-fields", id, cls, vid, fmt.Sprintf("Size=%d len=%d", sz, len(out)), v.b)
		}
		back, berr := refDecode(t, out)
		if berr != nil {
			w.failV(t, "C07/re-marshaled-bytes-rejected-by-reference", id, cls, vid, berr.Error(), out)
			continue
		}
		if !bytes.Equal(ref.GetUnknown(), back.GetUnknown()) {
			w.failV(t, "C07/unknown-fields-not-preserved", id, cls, vid, fmt.Sprintf("input unknown=%x re-marshaled unknown=%x", []byte(ref.GetUnknown()), []byte(back.GetUnknown())), v.b)
			continue
		}
		if df := gcore.Diff(ref, back); df != "" {
			w.failV(t, "C07/known-fields-changed", id, cls, vid, df, v.b)
			continue
		}
		// fixed point
		y := t.New()
		var out2 []byte
		in2 := append([]byte{}, out...)
		if p := guard(func() {
			if err = y.(unmarshaler).Unmarshal(in2); err == nil {
				out2, err = y.(marshaler).Marshal()
			}
		}); p != "" || err != nil {
			w.failV(t, "C07/second-round-trip-fails", id, cls, vid, fmt.Sprint(p, err), out)
			continue
		}
		if !multiEntryMap(ref) && !bytes.Equal(out, out2) {
			w.failV(t, "C07/second-round-trip-not-a-fixed-point", id, cls, vid, fmt.Sprintf("%s vs %s", hexs(out), hexs(out2)), out)
			continue
		}
		// the caller re-uses its read buffer between Unmarshal and the next Marshal (default, copying decode mode only)
		if !strings.Contains(os.Getenv("VERIF_GEN_OPTS"), "enableunsafedecode=true") {
			z := t.New()
			in3 := append([]byte{}, v.b...)
			var out3 []byte
			if p := guard(func() {
				if err = z.(unmarshaler).Unmarshal(in3); err == nil {
					for i := range in3 {
						in3[i] = ^in3[i]
					}
					out3, err = z.(marshaler).Marshal()
				}
			}); p != "" || err != nil {
				w.failV(t, "C07/Marshal-fails-after-the-input-buffer-was-reused", id, cls, vid, fmt.Sprint(p, err), v.b)
				continue
			}
			if !multiEntryMap(ref) && !bytes.Equal(out3, out) {
				w.failV(t, "C07/unknown-fields-not-preserved-when-the-input-buffer-is-reused", id, cls, vid, fmt.Sprintf("%s vs %s", hexs(out3), hexs(out)), v.b)
				continue
			}
		}
		if len(ref.GetUnknown()) > 0 {
			w.nontr++
		}
	}
}

// checkC10: after a default-mode Unmarshal the message must not depend on the caller's buffer.
func (w *W) checkC10(t *gcore.Type, id string, c *dynamicpb.Message) {
	// every legal encoding of the tree (order, packing, repeated / split occurrences, map-entry shapes incl. an unknown field
	// INSIDE an entry, unknown fields at every position, the same one level down): a decoding path taken only for a rare
	// shape may treat the buffer differently - for the field it handles or for everything decoded after it
	vs := variants(t.RefDesc(), c, 1)
	pick := append([]variant{}, vs...)
	// a declared extension number arriving with the WRONG wire type is kept as an unknown field by its own code
	// path; as the first (only) unknown field of the message it must be a private copy like any other
	if id == "empty" || strings.HasPrefix(id, "ext:") {
		for _, xt := range t.Exts() {
			xd := xt.TypeDescriptor()
			num := int(xd.Number())
			var mis []byte
			switch xd.Kind() {
			case protoreflect.StringKind, protoreflect.BytesKind, protoreflect.MessageKind:
				mis = refwire.AppendVarint(refwire.AppendKey(nil, num, refwire.Varint), 150)
			default:
				mis = refwire.AppendBytes(refwire.AppendKey(nil, num, refwire.Len), []byte("abc"))
			}
			if xd.IsList() && xd.Kind() != protoreflect.StringKind && xd.Kind() != protoreflect.BytesKind && xd.Kind() != protoreflect.MessageKind {
				continue // a LEN payload is the packed form of a repeated scalar: not a mismatch
			}
			pick = append(pick, variant{name: fmt.Sprintf("mistyped-extension-%d-first", num), b: append(append([]byte{}, mis...), vs[0].b...)})
			pick = append(pick, variant{name: fmt.Sprintf("mistyped-extension-%d-last", num), b: append(append([]byte{}, vs[0].b...), mis...)})
		}
	}
	for _, v := range pick {
		if len(v.b) == 0 {
			continue
		}
		x := t.New()
		in := append([]byte{}, v.b...)
		var err error
		w.evals++
		if p := guard(func() { err = x.(unmarshaler).Unmarshal(in) }); p != "" || err != nil {
			continue
		}
		before, terr := gcore.TreeOf(t, x)
		if terr != nil {
			continue
		}
		snapshot := gcore.ToDyn(t.RefDesc(), before) // deep copy (Copy clones bytes)
		copyExts(snapshot, before)
		for _, pattern := range []byte{0xFF, 0x00} {
			for i := range in {
				if pattern == 0xFF {
					in[i] = ^v.b[i]
				} else {
					in[i] = 0
				}
			}
			after, terr := gcore.TreeOf(t, x)
			if terr != nil {
				w.failV(t, "C10/message-unreadable-after-buffer-overwrite", id, classOfVariant(v.name), id+"/"+v.name, terr.Error(), v.b)
				break
			}
			if df := gcore.Diff(snapshot, after); df != "" {
				w.failV(t, "C10/message-changed-when-input-buffer-was-overwritten", id, classOfVariant(v.name), id+"/"+v.name, df, v.b)
				break
			}
		}
		// recycle the buffer for a different decode
		other := t.New()
		copy(in, v.b)
		for i := range in {
			in[i] = 0
		}
		_ = guard(func() { _ = other.(unmarshaler).Unmarshal(in[:0]) })
		if after, terr := gcore.TreeOf(t, x); terr == nil {
			if df := gcore.Diff(snapshot, after); df != "" {
				w.failV(t, "C10/message-changed-when-input-buffer-was-reused", id, classOfVariant(v.name), id+"/"+v.name, df, v.b)
			} else if hasVarLen(snapshot) {
				w.nontr++
			}
		}
	}
}

func copyExts(dst, src protoreflect.Message) {
	src.Range(func(fd protoreflect.FieldDescriptor, v protoreflect.Value) bool {
		if fd.IsExtension() {
			if fd.Message() != nil && !fd.IsList() {
				nm := dynamicpb.NewMessage(fd.Message())
				gcore.Copy(nm, v.Message())
				dst.Set(fd, protoreflect.ValueOfMessage(nm))
			} else if !fd.IsList() {
				if b, ok := v.Interface().([]byte); ok {
					dst.Set(fd, protoreflect.ValueOfBytes(append([]byte{}, b...)))
				} else {
					dst.Set(fd, v)
				}
			}
		}
		return true
	})
}

func hasVarLen(m protoreflect.Message) bool {
	found := len(m.GetUnknown()) > 0
	m.Range(func(fd protoreflect.FieldDescriptor, v protoreflect.Value) bool {
		switch fd.Kind() {
		case protoreflect.StringKind, protoreflect.BytesKind, protoreflect.MessageKind:
			found = true
		}
		if fd.IsMap() {
			found = true
		}
		return !found
	})
	return found
}

// ---- C08: totality on arbitrary bytes; no silent disagreement

// mechanism attributes a both-accept disagreement to an already triaged decoding mechanism by looking
// at the wire shape of b (recursively): a map entry that is not exactly key-then-value, a singular
// message field occurring more than once, a file-scope or repeated extension. "" = none of them.
func mechanism(md protoreflect.MessageDescriptor, b []byte, t *gcore.Type) string {
	fs, err := refwire.Parse(b)
	if err != nil {
		return ""
	}
	seen := map[int]int{}
	for _, f := range fs {
		fd := md.Fields().ByNumber(protoreflect.FieldNumber(f.Num))
		if fd == nil {
			if md.ExtensionRanges().Has(protoreflect.FieldNumber(f.Num)) && (t.File == "p2extfile" || t.File == "p2extrep") {
				return "unsupported-extension-shape"
			}
			// a singular message-typed EXTENSION occurring more than once: same replace-instead-of-merge mechanism
			if xt, err := t.Resolver().FindExtensionByNumber(md.FullName(), protoreflect.FieldNumber(f.Num)); err == nil {
				if xd := xt.TypeDescriptor(); xd.Message() != nil && !xd.IsList() && f.WT == refwire.Len {
					seen[f.Num]++
					if seen[f.Num] > 1 {
						return "message-merge"
					}
					if m := mechanism(xd.Message(), b[f.DataFrom:f.End], t); m != "" {
						return m
					}
				}
			}
			continue
		}
		seen[f.Num]++
		if f.WT != refwire.Len {
			continue
		}
		payload := b[f.DataFrom:f.End]
		switch {
		case fd.IsMap():
			es, err := refwire.Parse(payload)
			if err != nil {
				continue
			}
			if len(es) != 2 || es[0].Num != 1 || es[1].Num != 2 {
				// a message-typed VALUE occurring twice inside one entry is the replace-instead-of-merge mechanism (the
				// reference merges the two occurrences); any other unusual entry shape keeps its own class
				if vd := fd.MapValue(); vd.Message() != nil {
					nv := 0
					for _, e := range es {
						if e.Num == 2 && e.WT == refwire.Len {
							nv++
						}
					}
					if nv > 1 {
						return "message-merge"
					}
				}
				return "map-entry-shape"
			}
			if vd := fd.MapValue(); vd.Message() != nil && es[1].WT == refwire.Len {
				if m := mechanism(vd.Message(), payload[es[1].DataFrom:es[1].End], t); m != "" {
					return m
				}
			}
		case fd.Message() != nil:
			if !fd.IsList() && seen[f.Num] > 1 {
				return "message-merge"
			}
			if m := mechanism(fd.Message(), payload, t); m != "" {
				return m
			}
		}
	}
	return ""
}

func (w *W) c08One(t *gcore.Type, id string, b []byte, measure bool) {
	w.evals++
	if w.sh.Trace {
		w.sh.Cur("C08/"+t.String(), fmt.Sprintf("%s/%s/%x", t, id, b))
	}
	x := t.New()
	var err error
	in := append([]byte{}, b...)
	var ms0, ms1 runtime.MemStats
	if measure {
		runtime.ReadMemStats(&ms0)
	}
	p := guard(func() { err = x.(unmarshaler).Unmarshal(in) })
	if measure {
		runtime.ReadMemStats(&ms1)
		if d := ms1.TotalAlloc - ms0.TotalAlloc; d > uint64(64*len(b)+64<<10) {
			w.sh.Fail(fmt.Sprintf("C08/allocation-out-of-proportion/%s/%s.%s", t.RT, t.File, t.Name), t.String()+"/"+id, map[string]any{"bytes": hexs(b), "alloc": d, "len": len(b)})
		}
	}
	if p != "" {
		w.sh.Fail(fmt.Sprintf("C08/Unmarshal-panic/%s/%s.%s", t.RT, t.File, t.Name), t.String()+"/"+id, map[string]any{"bytes": hexs(b), "msg": p})
		return
	}
	// whatever the verdict, decoding READS its input: the caller's buffer holds what it held before
	if !bytes.Equal(in, b) {
		w.sh.Fail(fmt.Sprintf("C08/input-buffer-modified-by-Unmarshal/%s/%s.%s", t.RT, t.File, t.Name), t.String()+"/"+id, map[string]any{"bytes": hexs(b), "buffer_afterwards": hexs(in), "error": fmt.Sprint(err)})
		return
	}
	if err != nil {
		return
	}
	ref, rerr := refDecode(t, b)
	if rerr != nil {
		return // the generated code may be more lenient than the reference; only agreement of ACCEPTED inputs is required
	}
	tree, terr := gcore.TreeOf(t, x)
	if terr != nil {
		w.sh.Fail(fmt.Sprintf("C08/decoded-struct-unreadable/%s/%s.%s", t.RT, t.File, t.Name), t.String()+"/"+id, map[string]any{"bytes": hexs(b), "msg": terr.Error()})
		return
	}
	w.nontr++
	if df := gcore.Diff(ref, tree); df != "" {
		mech := mechanism(t.RefDesc(), b, t)
		sig := fmt.Sprintf("C08/silent-disagreement/%s/%s.%s", t.RT, t.File, t.Name)
		if mech != "" {
			sig = fmt.Sprintf("C08/silent-disagreement/%s/%s", t.RT, mech)
		}
		w.sh.Fail(sig, t.String()+"/"+id, map[string]any{"bytes": hexs(b), "msg": df, "mechanism": mech})
	}
}

var replacements = []func(b byte) byte{
	func(byte) byte { return 0x00 }, func(byte) byte { return 0x01 }, func(byte) byte { return 0x7F }, func(byte) byte { return 0x80 }, func(byte) byte { return 0xFF },
	func(b byte) byte { return b ^ 0x01 }, func(b byte) byte { return b ^ 0x80 }, func(b byte) byte { return b + 1 }, func(b byte) byte { return b - 1 },
	func(byte) byte { return 0x0A }, func(byte) byte { return 0x0D },
}

func (w *W) checkC08(t *gcore.Type, id string, c *dynamicpb.Message) {
	seed := canonical(c)
	if len(seed) == 0 {
		return
	}
	// every legal encoding variant of the tree as it is (fields permuted / split / given twice, unknown fields of every
	// shape at every position and interleaved with the known ones, padded keys): arbitrary bytes for the dispatch loop,
	// and inputs on which the reference has a definite answer
	for _, v := range variants(t.RefDesc(), c, 1) {
		if len(v.b) <= 4096 {
			w.c08One(t, id+"/variant:"+v.name, v.b, false)
		}
	}
	// truncation at every offset
	for n := 0; n < len(seed); n++ {
		if len(seed) > 300 && n%7 != 0 && n < len(seed)-16 {
			continue
		}
		w.c08One(t, fmt.Sprintf("%s/trunc@%d", id, n), seed[:n], false)
	}
	// the seed twice in a row: still a valid encoding (every field occurs twice: repeated fields arrive in two
	// chunks, scalars are overwritten by an equal value), arbitrary for the field-dispatch loop
	if len(seed) <= 4096 {
		w.c08One(t, id+"/concat-self", append(append([]byte{}, seed...), seed...), false)
	}
	// byte replacement at every offset
	if len(seed) <= 96 {
		mut := make([]byte, len(seed))
		for off := range seed {
			for ri, rf := range replacements {
				copy(mut, seed)
				mut[off] = rf(seed[off])
				if mut[off] == seed[off] {
					continue
				}
				w.c08One(t, fmt.Sprintf("%s/byte@%d:r%d", id, off, ri), mut, false)
			}
		}
	}
	// length-prefix inflation (top level and one level down)
	var inflate func(prefix []byte, body []byte, suffix []byte, depth int)
	inflate = func(prefix, body, suffix []byte, depth int) {
		fs, err := refwire.Parse(body)
		if err != nil {
			return
		}
		for fi, f := range fs {
			if f.WT != refwire.Len {
				continue
			}
			l := uint64(f.End - f.DataFrom)
			for li, nl := range []uint64{l + 1, l * 2, 0x7F, 1 << 14, 1<<31 - 1, 1 << 31, 1 << 32, 1 << 63, ^uint64(0)} {
				var mut []byte
				mut = append(mut, prefix...)
				mut = append(mut, body[:f.ValStart]...)
				mut = refwire.AppendVarint(mut, nl)
				mut = append(mut, body[f.DataFrom:]...)
				mut = append(mut, suffix...)
				w.c08One(t, fmt.Sprintf("%s/len@%d.%d:l%d", id, depth, fi, li), mut, true)
			}
			if depth == 0 {
				var pre []byte
				pre = append(pre, prefix...)
				pre = append(pre, body[:f.DataFrom]...)
				inflate(pre, body[f.DataFrom:f.End], append(append([]byte{}, body[f.End:]...), suffix...), 1)
			}
		}
	}
	if len(seed) <= 200 {
		inflate(nil, seed, nil, 0)
	}
}

var sigma16 = []byte{0x00, 0x01, 0x02, 0x04, 0x05, 0x08, 0x09, 0x0A, 0x0B, 0x0D, 0x12, 0x7F, 0x80, 0x81, 0xFE, 0xFF}

// c08Short: every byte string of length <= L over the wire alphabet against type t.
func (w *W) c08Short(t *gcore.Type, L int, mine func() bool) {
	buf := make([]byte, 8)
	for l := 0; l <= L; l++ {
		tot := 1
		for i := 0; i < l; i++ {
			tot *= len(sigma16)
		}
		for x := 0; x < tot; x++ {
			if !mine() {
				continue
			}
			b := buf[:l]
			y := x
			for i := 0; i < l; i++ {
				b[i] = sigma16[y%len(sigma16)]
				y /= len(sigma16)
			}
			w.c08One(t, fmt.Sprintf("short:%x", b), b, false)
		}
	}
}

// ---- C17: required fields in both directions

// requiredCases enumerates, for a type, trees with every subset (bounded) of required fields unset,
// at the top level and in every nesting position the corpus offers.
func requiredCases(t *gcore.Type) []gcore.Case {
	md := t.RefDesc()
	var req []protoreflect.FieldDescriptor
	for i := 0; i < md.Fields().Len(); i++ {
		if f := md.Fields().Get(i); f.Cardinality() == protoreflect.Required {
			req = append(req, f)
		}
	}
	var out []gcore.Case
	full := func() *dynamicpb.Message {
		m := dynamicpb.NewMessage(md)
		gcore.FillRequired(m)
		return m
	}
	if len(req) > 0 {
		var masks []uint32
		if len(req) <= 6 {
			for x := uint32(0); x < 1<<uint(len(req)); x++ {
				masks = append(masks, x)
			}
		} else {
			masks = append(masks, 0, 1<<uint(len(req))-1)
			for i := range req {
				masks = append(masks, 1<<uint(i), (1<<uint(len(req))-1)&^(1<<uint(i)))
			}
			for x := uint32(0); x < 64; x++ { // every subset of the first six
				masks = append(masks, x)
			}
		}
		for _, mask := range masks { // bit set = field left UNSET
			for _, withOther := range []bool{false, true} {
				m := full()
				var names []string
				for i, f := range req {
					if mask&(1<<uint(i)) != 0 {
						m.Clear(f)
						names = append(names, string(f.Name()))
					}
				}
				if withOther {
					added := false
					for i := 0; i < md.Fields().Len() && !added; i++ {
						f := md.Fields().Get(i)
						if f.Cardinality() == protoreflect.Optional && f.Message() == nil && f.ContainingOneof() == nil {
							gcore.SetSimple(m, f)
							added = true
						}
					}
					if !added {
						continue
					}
				}
				out = append(out, gcore.Case{ID: fmt.Sprintf("unset[%s]other=%v", strings.Join(names, "+"), withOther), Msg: m})
			}
		}
	}
	// required fields that are PRESENT with the zero / empty value of their kind (0, false, "", empty bytes, empty message): the
	// message is complete - both directions must accept it (all of them at once; each alone among non-zero ones)
	if len(req) > 0 {
		zero := func(m *dynamicpb.Message, f protoreflect.FieldDescriptor) bool {
			if f.Message() != nil {
				if hasRequired(f.Message()) {
					return false
				}
				m.Set(f, protoreflect.ValueOfMessage(dynamicpb.NewMessage(f.Message())))
				return true
			}
			gcore.SetZero(m, f)
			return true
		}
		all := full()
		for _, f := range req {
			zero(all, f)
		}
		out = append(out, gcore.Case{ID: "present-with-zero-value[all]", Msg: all})
		// a required ENUM field holding a number its enum does not define (or a negative one): Go's protobuf runtimes keep
		// such numbers in the field (enums are open in Go), so the field is present and the message complete
		for _, f := range req {
			if f.Kind() != protoreflect.EnumKind {
				continue
			}
			for _, num := range []protoreflect.EnumNumber{7, -1, 2147483647} {
				if f.Enum().Values().ByNumber(num) != nil {
					continue
				}
				m := full()
				m.Set(f, protoreflect.ValueOfEnum(num))
				out = append(out, gcore.Case{ID: fmt.Sprintf("present-with-undefined-enum-number[%s=%d]", f.Name(), num), Msg: m})
			}
		}
		for _, f := range req {
			m := full()
			if zero(m, f) {
				out = append(out, gcore.Case{ID: "present-with-zero-value[" + string(f.Name()) + "]", Msg: m})
			}
		}
	}
	// nesting positions: any message-typed field whose type has required fields, holding a deficient / complete value
	for i := 0; i < md.Fields().Len(); i++ {
		f := md.Fields().Get(i)
		var sub protoreflect.MessageDescriptor
		switch {
		case f.IsMap():
			sub = f.MapValue().Message()
		default:
			sub = f.Message()
		}
		if sub == nil || !needsRequired(sub, 0) {
			continue
		}
		for _, deficient := range []bool{true, false} {
			m := full()
			v := dynamicpb.NewMessage(sub)
			if !hasRequired(sub) {
				// the child type has no required field of its own, a message further down has (Top -> Outer -> Inner):
				// the verdict has to travel up through a level that has nothing to check itself
				v = deepValue(sub, deficient, 0)
			} else if !deficient {
				gcore.FillRequired(v)
			} else {
				// set something optional so the deficient message is not empty on the wire
				for j := 0; j < sub.Fields().Len(); j++ {
					if sf := sub.Fields().Get(j); sf.Cardinality() == protoreflect.Optional && sf.Message() == nil {
						gcore.SetSimple(v, sf)
						break
					}
				}
			}
			for _, emptyToo := range []bool{false, true} {
				if emptyToo && !deficient {
					continue
				}
				vv := v
				if emptyToo {
					vv = dynamicpb.NewMessage(sub) // completely empty deficient message
				}
				mm := dynamicpb.NewMessage(md)
				gcore.Copy(mm, m)
				switch {
				case f.IsMap():
					mm.Mutable(f).Map().Set(protoreflect.ValueOfString("k").MapKey(), protoreflect.ValueOfMessage(vv))
				case f.IsList():
					mm.Mutable(f).List().Append(protoreflect.ValueOfMessage(vv))
				default:
					mm.Set(f, protoreflect.ValueOfMessage(vv))
				}
				out = append(out, gcore.Case{ID: fmt.Sprintf("nested:%s/deficient=%v/empty=%v", f.Name(), deficient, emptyToo), Msg: mm})
			}
		}
	}
	// several elements / entries of which only SOME are deficient, in every order: an error found at one element must not be
	// forgotten because a later element is fine
	for i := 0; i < md.Fields().Len(); i++ {
		f := md.Fields().Get(i)
		if !(f.IsList() && f.Message() != nil && hasRequired(f.Message())) && !(f.IsMap() && f.MapValue().Message() != nil && hasRequired(f.MapValue().Message()) && f.MapKey().Kind() == protoreflect.StringKind) {
			continue
		}
		sub := f.Message()
		if f.IsMap() {
			sub = f.MapValue().Message()
		}
		mk := func(good bool) protoreflect.Value {
			v := dynamicpb.NewMessage(sub)
			if good {
				gcore.FillRequired(v)
			} else {
				for j := 0; j < sub.Fields().Len(); j++ {
					if sf := sub.Fields().Get(j); sf.Cardinality() == protoreflect.Optional && sf.Message() == nil {
						gcore.SetSimple(v, sf)
						break
					}
				}
			}
			return protoreflect.ValueOfMessage(v)
		}
		for _, pattern := range []string{"bg", "gb", "gbg", "bgg", "bbg", "gg"} {
			mm := dynamicpb.NewMessage(md)
			gcore.Copy(mm, full())
			for k, ch := range pattern {
				if f.IsMap() {
					mm.Mutable(f).Map().Set(protoreflect.ValueOfString(fmt.Sprintf("k%d", k)).MapKey(), mk(ch == 'g'))
				} else {
					mm.Mutable(f).List().Append(mk(ch == 'g'))
				}
			}
			out = append(out, gcore.Case{ID: fmt.Sprintf("nested:%s/elements=%s(g=complete,b=deficient)", f.Name(), pattern), Msg: mm})
		}
	}
	// the extension position: a message-typed extension whose type has required fields
	for _, xt := range t.Exts() {
		xd := xt.TypeDescriptor()
		sub := xd.Message()
		if sub == nil || xd.IsList() || !hasRequired(sub) {
			continue
		}
		for _, kind := range []string{"complete", "deficient", "deficient-empty"} {
			v := dynamicpb.NewMessage(sub)
			switch kind {
			case "complete":
				gcore.FillRequired(v)
			case "deficient":
				for j := 0; j < sub.Fields().Len(); j++ {
					if sf := sub.Fields().Get(j); sf.Cardinality() == protoreflect.Optional && sf.Message() == nil {
						gcore.SetSimple(v, sf)
						break
					}
				}
			}
			mm := dynamicpb.NewMessage(md)
			gcore.Copy(mm, full())
			mm.Set(xd, protoreflect.ValueOfMessage(v))
			out = append(out, gcore.Case{ID: fmt.Sprintf("extension:%s/%s", xd.Name(), kind), Msg: mm})
		}
	}
	if len(req) > 0 || len(out) > 0 {
		out = append(out, gcore.Case{ID: "empty-message", Msg: dynamicpb.NewMessage(md)})
	}
	return out
}

// needsRequired: md has a required field itself or, transitively, through a message-typed field.
func needsRequired(md protoreflect.MessageDescriptor, depth int) bool {
	if hasRequired(md) {
		return true
	}
	if depth > 3 {
		return false
	}
	for i := 0; i < md.Fields().Len(); i++ {
		f := md.Fields().Get(i)
		sub := f.Message()
		if f.IsMap() {
			sub = f.MapValue().Message()
		}
		if sub != nil && sub.FullName() != md.FullName() && needsRequired(sub, depth+1) {
			return true
		}
	}
	return false
}

// deepValue builds a value of md (which has no required field of its own) whose first message-typed field leading to a
// required field holds a deficient / complete value, recursively.
func deepValue(md protoreflect.MessageDescriptor, deficient bool, depth int) *dynamicpb.Message {
	m := dynamicpb.NewMessage(md)
	for i := 0; i < md.Fields().Len(); i++ {
		f := md.Fields().Get(i)
		sub := f.Message()
		if f.IsMap() {
			sub = f.MapValue().Message()
		}
		if sub == nil || sub.FullName() == md.FullName() || !needsRequired(sub, depth+1) {
			continue
		}
		var child *dynamicpb.Message
		switch {
		case !hasRequired(sub):
			child = deepValue(sub, deficient, depth+1)
		case deficient:
			child = dynamicpb.NewMessage(sub)
			for j := 0; j < sub.Fields().Len(); j++ {
				if sf := sub.Fields().Get(j); sf.Cardinality() == protoreflect.Optional && sf.Message() == nil {
					gcore.SetSimple(child, sf)
					break
				}
			}
		default:
			child = dynamicpb.NewMessage(sub)
			gcore.FillRequired(child)
		}
		switch {
		case f.IsMap():
			m.Mutable(f).Map().Set(protoreflect.ValueOfString("k").MapKey(), protoreflect.ValueOfMessage(child))
		case f.IsList():
			m.Mutable(f).List().Append(protoreflect.ValueOfMessage(child))
		default:
			m.Set(f, protoreflect.ValueOfMessage(child))
		}
		break
	}
	return m
}

func hasRequired(md protoreflect.MessageDescriptor) bool {
	for i := 0; i < md.Fields().Len(); i++ {
		if md.Fields().Get(i).Cardinality() == protoreflect.Required {
			return true
		}
	}
	return false
}

func (w *W) checkC17(t *gcore.Type, id string, c *dynamicpb.Message) {
	want := proto.CheckInitialized(c) == nil
	cls := strings.SplitN(id, "/", 2)[0]
	if strings.HasPrefix(id, "unset[") {
		cls = "top-level-required"
		if strings.HasPrefix(id, "unset[]") {
			cls = "all-required-set"
		}
	}
	report := func(oracle, msg string, b []byte) {
		sig := fmt.Sprintf("%s/%s/%s.%s/%s", oracle, t.RT, t.File, t.Name, cls)
		w.sh.Fail(sig, t.String()+"/"+id, map[string]any{"type": t.String(), "case": id, "tree": gcore.Describe(c), "reference_initialized": want, "msg": msg, "bytes": hexs(b)})
	}
	// direction 1: marshal
	for _, via := range []string{"Marshal", "MarshalTo", "csproto.Marshal"} {
		x, perr := build(t, c)
		if perr != "" {
			w.sh.Internal("cannot build %s %s: %s", t, id, perr)
			return
		}
		var err error
		var b []byte
		p := guard(func() {
			switch via {
			case "Marshal":
				b, err = x.(marshaler).Marshal()
			case "MarshalTo":
				b = make([]byte, x.(sizer).Size()+64)
				err = x.(marshalerTo).MarshalTo(b)
			default:
				b, err = csproto.Marshal(x)
			}
		})
		w.evals++
		switch {
		case p != "":
			report("C17/"+via+"-panic", p, nil)
		case want && err != nil:
			report("C17/"+via+"-spurious-required-error", err.Error(), nil)
		case !want && err == nil:
			report("C17/"+via+"-accepts-missing-required-field", "reference: "+proto.CheckInitialized(c).Error(), b)
		default:
			if !want {
				w.nontr++
			}
		}
	}
	// direction 2: unmarshal the reference's (partial) encoding
	b := canonical(c)
	refErr := proto.UnmarshalOptions{Resolver: t.Resolver()}.Unmarshal(b, dynamicpb.NewMessage(t.RefDesc()))
	x := t.New()
	var err error
	in := append([]byte{}, b...)
	p := guard(func() { err = x.(unmarshaler).Unmarshal(in) })
	w.evals++
	switch {
	case p != "":
		report("C17/Unmarshal-panic", p, b)
	case refErr == nil && err != nil:
		report("C17/Unmarshal-spurious-error", err.Error(), b)
	case refErr != nil && err == nil:
		report("C17/Unmarshal-accepts-missing-required-field", "reference: "+refErr.Error(), b)
	default:
		if refErr != nil {
			w.nontr++
		}
	}
	// ... and into a receiver that already holds a COMPLETE message (decode loops reuse receivers): the verdict is
	// about the input, not about what the receiver held before
	full := dynamicpb.NewMessage(t.RefDesc())
	gcore.FillRequired(full)
	for _, via := range []string{"Unmarshal", "csproto.Unmarshal"} {
		y, perr := build(t, full)
		if perr != "" {
			break
		}
		in := append([]byte{}, b...)
		p := guard(func() {
			if via == "Unmarshal" {
				err = y.(unmarshaler).Unmarshal(in)
			} else {
				err = csproto.Unmarshal(in, y)
			}
		})
		w.evals++
		switch {
		case p != "":
			report("C17/"+via+"-into-populated-receiver-panic", p, b)
		case refErr == nil && err != nil:
			report("C17/"+via+"-into-populated-receiver-spurious-error", err.Error(), b)
		case refErr != nil && err == nil:
			report("C17/"+via+"-into-populated-receiver-accepts-missing-required-field", "reference: "+refErr.Error(), b)
		}
	}
}

func initialized(m proto.Message) bool { return proto.CheckInitialized(m) == nil }

// cases enumerates the value trees of one type for the tier.
func cases(t *gcore.Type, thorough bool) []gcore.Case {
	md := t.RefDesc()
	out := gcore.Singles(md, thorough)
	out = append(out, gcore.Specials(md)...)
	out = append(out, gcore.ExtCases(t, thorough)...)
	if thorough {
		out = append(out, gcore.Pairs(md)...)
	}
	return out
}

// selfCheck guards the harness: the reference's own marshal of a tree parses back to the tree, and a
// struct built from the tree reads back (through reflection) as the tree.
func (w *W) selfCheck(t *gcore.Type, id string, c *dynamicpb.Message) bool {
	b, err := proto.MarshalOptions{AllowPartial: true, Deterministic: true}.Marshal(c)
	if err != nil {
		w.sh.Internal("reference cannot marshal %s %s: %v", t, id, err)
		return false
	}
	d, err := refDecode(t, b)
	if err != nil || gcore.Diff(c, d) != "" {
		w.sh.Internal("reference round trip differs for %s %s: %v %s", t, id, err, gcore.Diff(c, d))
		return false
	}
	x, perr := build(t, c)
	if perr != "" {
		w.sh.Internal("cannot build %s %s: %s", t, id, perr)
		return false
	}
	back, terr := gcore.TreeOf(t, x)
	if terr != nil {
		w.sh.Internal("cannot read back %s %s: %v", t, id, terr)
		return false
	}
	if df := gcore.Diff(c, back); df != "" {
		w.sh.Internal("struct built from tree reads back differently for %s %s: %s", t, id, df)
		return false
	}
	return true
}

func worker(sh *ev.Shard, prop string) {
	if pf := os.Getenv("VERIF_PROF"); pf != "" && sh.Index == 3 {
		f, _ := os.Create(pf)
		pprof.StartCPUProfile(f)
		defer pprof.StopCPUProfile()
	}
	w := &W{sh: sh, prop: prop}
	types := gcore.Types()
	// Every second worker process (and every replay) first makes the legitimate, FAILING extension calls a generic helper
	// makes when it probes arbitrary messages: each extension of the corpus is asked of a message of ANOTHER type of the same
	// runtime (HasExtension / GetExtension: false / error, message untouched). Whatever csproto remembers from such a call
	// must not change what the generated Size / Marshal / Unmarshal of the right message type do afterwards; the other
	// workers cover "first use is the correct one".
	if (sh.Index%2 == 1 || replayType != "") && prop != "C08" {
		sh.Count("foreign_extension_probes_before_the_cases", foreignProbes(types))
	}
	task := 0
	for _, t := range types {
		if !wantRuntime(t.RT, sh.Thorough()) {
			continue
		}
		if _, ok := t.New().(marshaler); !ok {
			// the package compiled but this message type got no fast-marshal methods (e.g. its per-message file was
			// overwritten by another message's file): nothing exists that could hold the property for it
			if task%sh.N == sh.Index {
				opt := ""
				if o := strings.TrimSpace(os.Getenv("VERIF_GEN_OPTS")); o != "" {
					opt = "[" + o + "]"
				}
				sh.Fail(fmt.Sprintf("%s/message-type-without-generated-methods/%s/%s.%s%s", prop, t.RT, t.File, t.Name, opt), t.String(), map[string]any{"type": t.String(), "generator_options": os.Getenv("VERIF_GEN_OPTS")})
			}
			task++
			continue
		}
		cs := cases(t, sh.Thorough())
		if prop == "C08" { // mutation families multiply every seed by ~10^3: seeds are the singles/specials/extension trees of both tiers
			cs = cases(t, false)
		}
		if prop == "C17" {
			cs = requiredCases(t)
		}
		for _, c := range cs {
			task++
			if replayType != "" {
				if t.String() != replayType || c.ID != replayCase {
					continue
				}
			} else if task%sh.N != sh.Index {
				continue
			}
			sh.Cur(prop, t.String()+"/"+c.ID)
			if prop == "C17" {
				w.checkC17(t, c.ID, c.Msg)
				continue
			}
			if !initialized(c.Msg) {
				continue // required-field behaviour is C17
			}
			if !w.selfCheck(t, c.ID, c.Msg) {
				continue
			}
			switch prop {
			case "C04":
				if b := w.marshalAll(t, c.ID, c.Msg, true); len(b) > 0 {
					w.nontr++
				}
				w.decodedValues(t, c.ID, c.Msg)
				w.c04NilShapes(t, c.ID, c.Msg)
			case "C05":
				w.checkC05(t, c.ID, c.Msg)
				w.c05Unknowns(t, c.ID, c.Msg)
				w.c05Decoded(t, c.ID, c.Msg)
				w.c05NilShapes(t, c.ID, c.Msg)
			case "C06":
				w.checkC06(t, c.ID, c.Msg)
			case "C07":
				w.checkC07(t, c.ID, c.Msg)
			case "C10":
				w.checkC10(t, c.ID, c.Msg)
			case "C08":
				w.checkC08(t, c.ID, c.Msg)
			}
			if w.sample < 2 && task%97 == 0 {
				w.sample++
				sh.Sample(map[string]any{"type": t.String(), "case": c.ID, "tree": gcore.Describe(c.Msg)})
			}
		}
		if prop == "C08" && replayType == "" {
			L := 3
			if sh.Thorough() {
				L = 4
			}
			w.c08Short(t, L, func() bool { task++; return task%sh.N == sh.Index })
		}
	}
	sh.Count("evals", w.evals)
	sh.Count("nontrivial", w.nontr)
	pprof.StopCPUProfile()
	sh.Done()
}

// foreignProbes: see worker. Returns the number of (extension, foreign message) pairs probed.
func foreignProbes(types []*gcore.Type) int64 {
	var n int64
	for _, t := range types {
		xts := t.Exts()
		if len(xts) == 0 {
			continue
		}
		// a message of another type of the same runtime
		var other *gcore.Type
		for _, o := range types {
			if o.RT == t.RT && o.Full != t.Full {
				other = o
				break
			}
		}
		if other == nil {
			continue
		}
		var descs []any
		switch t.RT {
		case corpus.Gogo:
			if gm, ok := t.New().(gogoproto.Message); ok {
				for _, d := range gogoproto.RegisteredExtensions(gm) {
					descs = append(descs, d)
				}
			}
		case corpus.Legacy:
			if lm, ok := t.New().(golangproto.Message); ok {
				for _, d := range golangproto.RegisteredExtensions(lm) { //nolint:staticcheck
					descs = append(descs, d)
				}
			}
		default:
			for _, xt := range xts {
				if gx, err := protoregistry.GlobalTypes.FindExtensionByName(xt.TypeDescriptor().FullName()); err == nil {
					descs = append(descs, gx)
				}
			}
		}
		for _, d := range descs {
			o := other.New()
			_ = guard(func() { _ = csproto.HasExtension(o, d) })
			_ = guard(func() { _, _ = csproto.GetExtension(o, d) })
			n++
		}
	}
	return n
}

func wantRuntime(rt corpus.Runtime, thorough bool) bool {
	// all four flavours in both tiers (the quick tier used to take gogo and gv2 only; the legacy and gv1 flavours share
	// the templates with them but not the runtime underneath, and the corpus is small enough)
	return true
}

// Pre, if set, runs in the parent process before the corpus shards (property-specific extra clauses).
var Pre func(r *ev.Run)

// Main is the entry point shared by the per-property binaries.
// replayType / replayCase restrict a worker to one (type, value tree): single-case replay.
var replayType, replayCase string

func Main(prop, level string, rule string, assumptions ...string) {
	gcore.BigLists = prop != "C08" && prop != "C17"
	for i, a := range os.Args {
		if a == "--replay-case" && i+1 < len(os.Args) {
			// "<rt>/<file>/<Msg>/<case id>[/<variant or mutation>]": re-run every oracle of the property on that one value tree
			parts := strings.SplitN(os.Args[i+1], "/", 5)
			if len(parts) >= 4 {
				replayType, replayCase = strings.Join(parts[:3], "/"), parts[3]
			}
		}
	}
	if sh := ev.ShardFromArgs(); sh != nil {
		worker(sh, prop)
		return
	}
	r := ev.Start(prop, level)
	reportQuarantine(r)
	genRacePass(r, prop)
	if Pre != nil {
		Pre(r)
	}
	if replayType != "" {
		r.RunShards(1, 1, 8<<30, "--replay-case", replayType+"/"+replayCase)
		r.Set("replayed_case", replayType+"/"+replayCase)
	} else {
		r.RunShards(32, runtime.NumCPU(), 8<<30)
	}
	r.Rule(rule)
	for _, a := range assumptions {
		r.Assume(a)
	}
	r.Finish()
}

// genRacePass: for the properties whose operations a template could make non-reentrant (C04, C06, C17) the freshly generated
// code is exercised by several goroutines under the race detector (checks/gen/race_test.go). The cooperative explorer
// cannot see plain memory shared through a package-level variable; the race detector and the result comparison can.
func genRacePass(r *ev.Run, prop string) {
	if prop != "C04" && prop != "C06" && prop != "C17" {
		return
	}
	run := os.Getenv("VERIF_RUN_DIR")
	if os.Getenv("VERIF_SKIP_RACE") != "" || run == "" || replayType != "" {
		r.Set("race_pass", map[string]any{"sampling": true, "skipped": true})
		return
	}
	tags, err := os.ReadFile(run + "/tags")
	if err != nil {
		r.Internal("race pass: %v", err)
		return
	}
	cmd := exec.Command("go", "test", "-race", "-count=1", "-vet=off", "-tags", strings.TrimSpace(string(tags)), "-overlay", run+"/fm/overlay.json",
		"./checks/gen", "-run", "TestGenRace", "-v", "-args", "-prop", prop, "-iters", ev.Pick(r, "150", "1500"))
	cmd.Dir = ev.VerifDir() + "/mc"
	cmd.Env = append(os.Environ(), "GOFLAGS=-mod=mod", "GOPROXY=off", "GOSUMDB=off", "GOTOOLCHAIN=local")
	out, err := cmd.CombinedOutput()
	s := string(out)
	res := map[string]any{"sampling": true, "cmd": "go test -race ./checks/gen -run TestGenRace -args -prop " + prop}
	clip := func(i int) string { return s[i:min(len(s), i+2500)] }
	switch {
	case strings.Contains(s, "DATA RACE"):
		r.Fail(prop+"/race-detector-report", "free-running -race pass over the generated code", map[string]any{"report": clip(strings.Index(s, "WARNING: DATA RACE"))})
		res["result"] = "DATA RACE"
	case strings.Contains(s, "REENTRANCY-FAILURE"):
		r.Fail(prop+"/race-pass/result-differs-from-sequential", "free-running -race pass over the generated code", map[string]any{"report": clip(strings.Index(s, "REENTRANCY-FAILURE"))})
		res["result"] = "wrong result"
	case err != nil:
		r.Internal("race pass could not run: %v: %s", err, s[max(0, len(s)-1200):])
	default:
		res["result"] = "no race reported"
		for _, l := range strings.Split(s, "\n") {
			if strings.HasPrefix(l, "RACEPASS ") {
				res["summary"] = l
			}
		}
	}
	r.Set("race_pass", res)
}

// reportQuarantine records which corpus cells could not be generated / compiled in this run: listed in the evidence
// and reported as violations (the other cells are still checked, so one broken cell does not hide the rest).
func reportQuarantine(r *ev.Run) {
	p := os.Getenv("VERIF_GEN_COMPILE")
	if p == "" {
		return
	}
	b, err := os.ReadFile(p)
	if err != nil {
		return
	}
	var comp []struct {
		Runtime, File string
		Generated     bool
		Compiles      *bool
		GenError      string   `json:"gen_error"`
		CompileErrors []string `json:"compile_errors"`
	}
	if json.Unmarshal(b, &comp) != nil {
		return
	}
	var q, linked []string
	for _, c := range comp {
		if !c.Generated || c.Compiles == nil || !*c.Compiles {
			q = append(q, c.Runtime+"/"+c.File)
			// The property quantifies over every message type of the corpus. A cell whose fast-marshal code cannot be
			// generated or does not compile has no Size/Marshal/Unmarshal to hold the property: that is a violation
			// here as well (C16 names the cause), not a silent reduction of the corpus.
			r.Fail(fmt.Sprintf("%s/corpus-cell-has-no-usable-generated-code/%s/%s", r.ID, c.Runtime, c.File), c.Runtime+"/"+c.File,
				map[string]any{"generator_error": c.GenError, "compile_errors": c.CompileErrors, "generator_options": strings.TrimSpace(os.Getenv("VERIF_GEN_OPTS"))})
		} else {
			linked = append(linked, c.Runtime+"/"+c.File)
		}
	}
	r.Set("corpus_packages_linked", linked)
	r.Set("corpus_cells_quarantined(not generated or not compiling: see C16)", q)
	r.Set("generator_options", strings.TrimSpace(os.Getenv("VERIF_GEN_OPTS")))
	if alt := os.Getenv("VERIF_GEN_ALT"); alt != "" {
		r.Set("generator_option_variants", alt)
	}
}
