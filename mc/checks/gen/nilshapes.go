package gen

// Hand-built struct shapes that no decode and no reflection-based constructor produces but that a Go program can
// build with composite literals: a nil element in a slice of messages, a nil message as a map value, a oneof wrapper
// whose message is nil, a typed-nil oneof wrapper, the same child referenced twice. They are applied with Go
// reflection to a struct that was built from a value tree, at the top level and inside the first level of children.

import (
	"bytes"
	"fmt"
	"reflect"
	"sort"
	"strings"

	"google.golang.org/protobuf/types/dynamicpb"

	"verif/mc/lib/gcore"
)

type nilShape struct {
	name  string
	apply func(root reflect.Value) // root: pointer to a freshly built struct
}

func isMsgPtr(t reflect.Type) bool {
	return t.Kind() == reflect.Ptr && t.Elem().Kind() == reflect.Struct
}

func sortedKeys(m reflect.Value) []reflect.Value {
	ks := m.MapKeys()
	sort.Slice(ks, func(i, j int) bool { return fmt.Sprint(ks[i].Interface()) < fmt.Sprint(ks[j].Interface()) })
	return ks
}

// nilShapesOf lists the shapes applicable to the struct x points to. path addresses the struct inside the root
// (sequence of field indexes / -1-n for "element n" steps) so that a shape can be re-applied to a fresh copy.
func nilShapesOf(x any) []nilShape {
	var out []nilShape
	collectNilShapes(reflect.ValueOf(x), nil, "", 0, &out)
	return out
}

type step struct {
	field int
	elem  int           // -1: not a list step
	key   reflect.Value // valid: map step
}

func follow(root reflect.Value, path []step) reflect.Value {
	v := root
	for _, s := range path {
		f := v.Elem().Field(s.field)
		switch {
		case s.key.IsValid():
			v = f.MapIndex(s.key)
		case s.elem >= 0:
			v = f.Index(s.elem)
		default:
			v = f
		}
	}
	return v
}

func collectNilShapes(v reflect.Value, path []step, prefix string, depth int, out *[]nilShape) {
	if v.Kind() != reflect.Ptr || v.IsNil() || v.Elem().Kind() != reflect.Struct {
		return
	}
	st := v.Elem()
	for i := 0; i < st.NumField(); i++ {
		sf := st.Type().Field(i)
		if sf.PkgPath != "" || len(sf.Name) > 3 && sf.Name[:4] == "XXX_" {
			continue
		}
		i := i
		f := st.Field(i)
		p := append([]step{}, path...)
		name := prefix + sf.Name
		add := func(n string, fn func(f reflect.Value)) {
			*out = append(*out, nilShape{name + ":" + n, func(root reflect.Value) { fn(follow(root, p).Elem().Field(i)) }})
		}
		switch {
		case f.Kind() == reflect.Slice && isMsgPtr(f.Type().Elem()):
			n := f.Len()
			if n >= 1 {
				add("nil-element-first", func(f reflect.Value) { f.Index(0).Set(reflect.Zero(f.Type().Elem())) })
				add("nil-element-appended", func(f reflect.Value) { f.Set(reflect.Append(f, reflect.Zero(f.Type().Elem()))) })
			}
			if n >= 2 {
				add("nil-element-last", func(f reflect.Value) { f.Index(f.Len() - 1).Set(reflect.Zero(f.Type().Elem())) })
				add("all-elements-nil", func(f reflect.Value) {
					for k := 0; k < f.Len(); k++ {
						f.Index(k).Set(reflect.Zero(f.Type().Elem()))
					}
				})
				add("same-child-twice", func(f reflect.Value) { f.Index(1).Set(f.Index(0)) })
			}
			if n == 0 {
				add("only-a-nil-element", func(f reflect.Value) { f.Set(reflect.Append(f, reflect.Zero(f.Type().Elem()))) })
			}
			if depth < 1 && n >= 1 {
				collectNilShapes(f.Index(0), append(p, step{field: i, elem: 0}), name+"[0].", depth+1, out)
			}
		case f.Kind() == reflect.Map && isMsgPtr(f.Type().Elem()):
			if f.Len() >= 1 {
				k := sortedKeys(f)[0]
				add("nil-map-value", func(f reflect.Value) { f.SetMapIndex(sortedKeys(f)[0], reflect.Zero(f.Type().Elem())) })
				if f.Len() >= 2 {
					add("all-map-values-nil", func(f reflect.Value) {
						for _, k := range sortedKeys(f) {
							f.SetMapIndex(k, reflect.Zero(f.Type().Elem()))
						}
					})
					add("same-child-under-two-keys", func(f reflect.Value) { ks := sortedKeys(f); f.SetMapIndex(ks[1], f.MapIndex(ks[0])) })
				}
				if depth < 1 {
					collectNilShapes(f.MapIndex(k), append(p, step{field: i, elem: -1, key: k}), name+"[k].", depth+1, out)
				}
			} else {
				add("only-a-nil-map-value", func(f reflect.Value) {
					if f.IsNil() {
						f.Set(reflect.MakeMap(f.Type()))
					}
					f.SetMapIndex(reflect.Zero(f.Type().Key()), reflect.Zero(f.Type().Elem()))
				})
			}
		case f.Kind() == reflect.Interface && !f.IsNil():
			w := f.Elem() // *Wrapper
			if w.Kind() == reflect.Ptr && !w.IsNil() && w.Elem().Kind() == reflect.Struct && w.Elem().NumField() == 1 {
				add("typed-nil-oneof-wrapper", func(f reflect.Value) { f.Set(reflect.Zero(f.Elem().Type())) })
				if isMsgPtr(w.Elem().Field(0).Type()) {
					add("oneof-wrapper-holding-nil", func(f reflect.Value) {
						nw := reflect.New(f.Elem().Type().Elem())
						f.Set(nw)
					})
				}
			}
		case isMsgPtr(f.Type()) && !f.IsNil():
			if depth < 1 {
				collectNilShapes(f, append(p, step{field: i, elem: -1}), name+".", depth+1, out)
			}
		}
	}
}

func shapeKind(name string) string {
	for i := len(name) - 1; i >= 0; i-- {
		if name[i] == ':' {
			return name[i+1:]
		}
	}
	return name
}

// c04NilShapes (C04): Size == len(Marshal) == bytes written by MarshalTo, and no panic, for every hand-built shape of the case.
func (w *W) c04NilShapes(t *gcore.Type, id string, c *dynamicpb.Message) {
	x0, perr := build(t, c)
	if perr != "" {
		return
	}
	for _, s := range nilShapesOf(x0) {
		mk := func() any {
			x, _ := build(t, c)
			s.apply(reflect.ValueOf(x))
			return x
		}
		sid := id + "/shape:" + s.name
		if tree, terr := gcore.TreeOf(t, mk()); terr == nil && !initialized(tree) {
			continue // the shape reads as a message lacking required fields (a nil child of a type that has some): C17's business
		}
		x, y := mk(), mk()
		w.evals++
		var sz, sz2 int
		var b []byte
		var err error
		if p := guard(func() { sz = x.(sizer).Size(); b, err = x.(marshaler).Marshal(); sz2 = x.(sizer).Size() }); p != "" || err != nil {
			w.fail(t, "C04/hand-built-shape/"+shapeKind(s.name)+"/Size-or-Marshal-fails", sid, fmt.Sprint(p, err), nil)
			continue
		}
		if sz != len(b) || sz2 != len(b) {
			w.fail(t, "C04/hand-built-shape/"+shapeKind(s.name)+"/Size-differs-from-len(Marshal)", sid, fmt.Sprintf("Size()=%d len(Marshal())=%d Size() afterwards=%d", sz, len(b), sz2), map[string]any{"bytes": hexs(b)})
			continue
		}
		var ysz int
		var arena []byte
		var merr error
		p := guard(func() {
			ysz = y.(sizer).Size()
			arena = make([]byte, ysz+2*canary)
			for i := range arena {
				arena[i] = 0xA5
			}
			merr = y.(marshalerTo).MarshalTo(arena[canary : canary+ysz : canary+ysz])
		})
		if p != "" || merr != nil {
			w.fail(t, "C04/hand-built-shape/"+shapeKind(s.name)+"/MarshalTo-fails-on-Size()-buffer", sid, fmt.Sprint(p, merr), nil)
			continue
		}
		ok := ysz == len(b)
		for i := 0; i < canary && ok; i++ {
			ok = arena[i] == 0xA5 && arena[canary+ysz+i] == 0xA5
		}
		if ok && !multiEntryMap(c) {
			ok = bytes.Equal(arena[canary:canary+ysz], b)
		}
		if !ok {
			w.fail(t, "C04/hand-built-shape/"+shapeKind(s.name)+"/MarshalTo-differs-from-Marshal", sid, fmt.Sprintf("MarshalTo=%s Marshal=%s", hexs(arena[canary:canary+ysz]), hexs(b)), nil)
			continue
		}
		w.nontr++
	}
}

// c05NilShapes (C05): the reference runtime's reading of the generated bytes equals the reference runtime's reading of the
// struct itself (protoreflect view: a nil list element / nil oneof message reads as an empty message, a typed nil wrapper
// as an unset oneof) for the hand-built shapes of the case.
func (w *W) c05NilShapes(t *gcore.Type, id string, c *dynamicpb.Message) {
	x0, perr := build(t, c)
	if perr != "" {
		return
	}
	for _, s := range nilShapesOf(x0) {
		mk := func() any {
			x, _ := build(t, c)
			s.apply(reflect.ValueOf(x))
			return x
		}
		sid := id + "/shape:" + s.name
		if strings.Contains(shapeKind(s.name), "nil-map-value") || strings.Contains(shapeKind(s.name), "map-values-nil") {
			// a nil message as a map value is not a message value the runtimes agree on (gogo and golang/protobuf 1.3 refuse to
			// marshal it, protobuf-go writes an empty value, the generated code leaves the entry out): C04 checks that
			// Size / Marshal / MarshalTo stay consistent for it, C05 has no reference to compare with
			continue
		}
		want, terr := gcore.TreeOf(t, mk())
		if terr != nil || !initialized(want) {
			continue
		}
		var b []byte
		var err error
		if p := guard(func() { b, err = mk().(marshaler).Marshal() }); p != "" || err != nil {
			continue // C04's business
		}
		w.evals++
		d, derr := refDecode(t, b)
		if derr != nil {
			w.fail(t, "C05/hand-built-shape/"+shapeKind(s.name)+"/reference-rejects-generated-bytes", sid, derr.Error(), map[string]any{"bytes": hexs(b)})
			continue
		}
		if df := gcore.Diff(want, d); df != "" || len(d.GetUnknown()) > 0 {
			w.fail(t, "C05/hand-built-shape/"+shapeKind(s.name)+"/decoded-differs-from-original", sid, df, map[string]any{"bytes": hexs(b), "original": gcore.Describe(want)})
			continue
		}
		w.nontr++
	}
}
