package gen

import (
	"fmt"

	"google.golang.org/protobuf/proto"
	"google.golang.org/protobuf/reflect/protoreflect"
	"google.golang.org/protobuf/types/dynamicpb"

	"verif/mc/lib/gcore"
	"verif/mc/lib/refwire"
)

// variant is one legal wire encoding derived from a value tree.
type variant struct {
	name string
	b    []byte
}

func canonical(c *dynamicpb.Message) []byte {
	b, err := proto.MarshalOptions{AllowPartial: true, Deterministic: true}.Marshal(c)
	if err != nil {
		panic(err)
	}
	return b
}

type wfield struct {
	num int
	wt  int
	raw []byte // key + payload
	pay []byte // payload without key; for LEN: without length prefix
}

func split(b []byte) []wfield {
	fs, err := refwire.Parse(b)
	if err != nil {
		panic(fmt.Sprintf("split: reference bytes not well-formed: %v", err))
	}
	out := make([]wfield, len(fs))
	for i, f := range fs {
		out[i] = wfield{num: f.Num, wt: f.WT, raw: b[f.Start:f.End], pay: b[f.DataFrom:f.End]}
	}
	return out
}

func join(fs []wfield) []byte {
	var out []byte
	for _, f := range fs {
		out = append(out, f.raw...)
	}
	return out
}

func lenField(num int, payload []byte) wfield {
	raw := refwire.AppendBytes(refwire.AppendKey(nil, num, refwire.Len), payload)
	return wfield{num: num, wt: refwire.Len, raw: raw, pay: payload}
}

func packable(fd protoreflect.FieldDescriptor) bool {
	switch fd.Kind() {
	case protoreflect.StringKind, protoreflect.BytesKind, protoreflect.MessageKind, protoreflect.GroupKind:
		return false
	}
	return fd.IsList()
}

func scalarWT(fd protoreflect.FieldDescriptor) int {
	switch fd.Kind() {
	case protoreflect.Fixed32Kind, protoreflect.Sfixed32Kind, protoreflect.FloatKind:
		return refwire.Fixed32
	case protoreflect.Fixed64Kind, protoreflect.Sfixed64Kind, protoreflect.DoubleKind:
		return refwire.Fixed64
	case protoreflect.StringKind, protoreflect.BytesKind, protoreflect.MessageKind:
		return refwire.Len
	}
	return refwire.Varint
}

// elements splits a packed payload into element encodings.
func elements(fd protoreflect.FieldDescriptor, payload []byte) [][]byte {
	var out [][]byte
	wt := scalarWT(fd)
	for len(payload) > 0 {
		n, err := refwire.PayloadLen(payload, wt)
		if err != nil {
			panic("elements: " + err.Error())
		}
		out = append(out, payload[:n])
		payload = payload[n:]
	}
	return out
}

func permutations(n int) [][]int {
	if n > 4 {
		rev := make([]int, n)
		rot := make([]int, n)
		for i := range rev {
			rev[i] = n - 1 - i
			rot[i] = (i + 1) % n
		}
		return [][]int{rev, rot}
	}
	var out [][]int
	var rec func(cur []int, used int)
	rec = func(cur []int, used int) {
		if len(cur) == n {
			out = append(out, append([]int{}, cur...))
			return
		}
		for i := 0; i < n; i++ {
			if used&(1<<i) == 0 {
				rec(append(cur, i), used|1<<i)
			}
		}
	}
	rec(nil, 0)
	return out[1:] // identity excluded
}

// unknownFields returns well-formed fields whose numbers are not in md, one per wire type/payload class.
func unknownFields(md protoreflect.MessageDescriptor) []wfield {
	free := func(start int) int {
		n := start
		for md.Fields().ByNumber(protoreflect.FieldNumber(n)) != nil || md.ExtensionRanges().Has(protoreflect.FieldNumber(n)) {
			n++
		}
		return n
	}
	mk := func(num, wt int, payload []byte) wfield {
		raw := append(refwire.AppendKey(nil, num, wt), payload...)
		return wfield{num: num, wt: wt, raw: raw}
	}
	if u, ok := unkCache[md.FullName()]; ok {
		return u
	}
	var a, b, c int
	if md.ExtensionRanges().Len() > 0 { // extendable: stay below the extension range
		a, b, c = free(50), free(60), free(70)
	} else {
		a, b, c = free(90), free(2047), free(1<<29-1000)
	}
	u := []wfield{
		mk(a, refwire.Varint, refwire.AppendVarint(nil, 1)),
		mk(b, refwire.Varint, refwire.AppendVarint(nil, ^uint64(0))),
		mk(a, refwire.Fixed32, refwire.AppendFixed32(nil, 0xdeadbeef)),
		mk(c, refwire.Fixed64, refwire.AppendFixed64(nil, 0x0102030405060708)),
		lenField(b, nil),
		lenField(c, []byte("unknown-payload")),
		lenField(a, make([]byte, 128)),
	}
	// the largest legal field number with every non-varint wire type (its key is the largest legal key)
	if max := 1<<29 - 1; md.Fields().ByNumber(protoreflect.FieldNumber(max)) == nil && !md.ExtensionRanges().Has(protoreflect.FieldNumber(max)) {
		u = append(u, mk(max, refwire.Fixed32, refwire.AppendFixed32(nil, 7)), lenField(max, []byte("m")), mk(max, refwire.Fixed64, refwire.AppendFixed64(nil, 9)))
	}
	// an unknown field whose key is a single byte (numbers 1-15), where the schema leaves one free: decoders tend to treat
	// one-byte keys specially
	if lo := free(1); lo <= 15 {
		u = append(u, mk(lo, refwire.Varint, refwire.AppendVarint(nil, 42)), lenField(lo, []byte("lo")))
	}
	unkCache[md.FullName()] = u
	return u
}

var unkCache = map[protoreflect.FullName][]wfield{}

// variants enumerates legal encodings of the tree c (descriptor md). full=false gives a reduced set.
func variants(md protoreflect.MessageDescriptor, c *dynamicpb.Message, depth int) []variant {
	return variantsAt(md, c, depth, true)
}

// paddedUnknown: unknown fields whose KEY is written with a non-minimal (padded) varint - legal on the wire - in front of a
// varint and of a LEN payload: Skip has to find the start of such a key, in either decoder mode. Used at the top level of
// the message under check only: a child may be decoded by its runtime rather than by generated code (well-known types,
// types that lost their methods to a known finding), and protobuf-go's table-driven decoder re-encodes the key of an
// unknown field minimally while the dynamicpb reference keeps it verbatim - a difference inside the reference runtime.
func paddedUnknown(md protoreflect.MessageDescriptor) []wfield {
	base := unknownFields(md)
	pad := func(num, wt int, payload []byte) wfield {
		k := refwire.AppendKey(nil, num, wt)
		k[len(k)-1] |= 0x80
		k = append(k, 0x00)
		return wfield{num: num, wt: wt, raw: append(k, payload...)}
	}
	return []wfield{pad(base[0].num, refwire.Varint, refwire.AppendVarint(nil, 300)), pad(base[1].num, refwire.Len, append([]byte{2}, "pk"...))}
}

func variantsAt(md protoreflect.MessageDescriptor, c *dynamicpb.Message, depth int, top bool) []variant {
	base := canonical(c)
	out := []variant{{"canonical", base}}
	fs := split(base)
	add := func(name string, x []wfield) { out = append(out, variant{name, join(x)}) }
	// 1. order permutations of the top-level occurrences
	if len(fs) > 1 && len(fs) <= 6 {
		for pi, p := range permutations(len(fs)) {
			// permuting occurrences of the SAME repeated field would change the list order: keep their relative order
			ok := true
			last := map[int]int{}
			for _, idx := range p {
				if prev, seen := last[fs[idx].num]; seen && prev > idx {
					ok = false
				}
				last[fs[idx].num] = idx
			}
			if !ok {
				continue
			}
			x := make([]wfield, len(fs))
			for i, idx := range p {
				x[i] = fs[idx]
			}
			add(fmt.Sprintf("perm%d", pi), x)
		}
	}
	unk := unknownFields(md)
	if top {
		unk = append(append([]wfield{}, unk...), paddedUnknown(md)...)
	}
	for i, f := range fs {
		fd := md.Fields().ByNumber(protoreflect.FieldNumber(f.num))
		if fd == nil {
			continue // extension or unknown
		}
		pre, post := fs[:i:i], fs[i+1:]
		switch {
		case packable(fd) && f.wt == refwire.Len:
			// packed run -> unpacked, split, mixed
			els := elements(fd, f.pay)
			var unp []wfield
			for _, e := range els {
				raw := append(refwire.AppendKey(nil, f.num, scalarWT(fd)), e...)
				unp = append(unp, wfield{num: f.num, wt: scalarWT(fd), raw: raw})
			}
			add(fmt.Sprintf("%s:unpacked", fd.Name()), append(append(append([]wfield{}, pre...), unp...), post...))
			for cut := 0; cut <= len(els) && cut <= 3; cut++ {
				var a, b []byte
				for j, e := range els {
					if j < cut {
						a = append(a, e...)
					} else {
						b = append(b, e...)
					}
				}
				add(fmt.Sprintf("%s:split@%d", fd.Name(), cut), append(append(append([]wfield{}, pre...), lenField(f.num, a), lenField(f.num, b)), post...))
			}
			if len(els) > 1 {
				var rest []byte
				for _, e := range els[1:] {
					rest = append(rest, e...)
				}
				add(fmt.Sprintf("%s:mixed", fd.Name()), append(append(append([]wfield{}, pre...), unp[0], lenField(f.num, rest)), post...))
			}
		case packable(fd) && f.wt != refwire.Len:
			// first unpacked occurrence of a run: pack the whole run (only when this is the first of its number)
			first := true
			for _, g := range pre {
				if g.num == f.num {
					first = false
				}
			}
			if first {
				var payload []byte
				var others []wfield
				for _, g := range fs {
					if g.num == f.num {
						payload = append(payload, g.raw[len(refwire.AppendKey(nil, g.num, g.wt)):]...)
					} else {
						others = append(others, g)
					}
				}
				add(fmt.Sprintf("%s:packed", fd.Name()), append(others, lenField(f.num, payload)))
			}
		case fd.IsMap():
			ents := split(f.pay)
			var k, v *wfield
			for j := range ents {
				if ents[j].num == 1 {
					k = &ents[j]
				} else if ents[j].num == 2 {
					v = &ents[j]
				}
			}
			entry := func(parts ...*wfield) wfield {
				var p []byte
				for _, x := range parts {
					if x != nil {
						p = append(p, x.raw...)
					}
				}
				return lenField(f.num, p)
			}
			rep := func(name string, e ...wfield) {
				add(fmt.Sprintf("%s:%s", fd.Name(), name), append(append(append([]wfield{}, pre...), e...), post...))
			}
			rep("value-key", entry(v, k))
			rep("key-only", entry(k))
			rep("value-only", entry(v))
			rep("empty-entry", entry())
			rep("dup-key", entry(k), entry(k, v))
			rep("dup-key-within-entry", entry(k, v, k, v))
			rep("unknown-in-entry", entry(k, &unk[0], v))
		case fd.Message() != nil && !fd.IsList():
			// a singular message field occurring twice (merge semantics), split in two halves, nested variants
			sub := split(f.pay)
			if len(sub) > 1 {
				h := len(sub) / 2
				add(fmt.Sprintf("%s:split-in-two", fd.Name()), append(append(append([]wfield{}, pre...), lenField(f.num, join(sub[:h])), lenField(f.num, join(sub[h:]))), post...))
			}
			add(fmt.Sprintf("%s:twice", fd.Name()), append(append(append([]wfield{}, pre...), f, f), post...))
			add(fmt.Sprintf("%s:empty-then-full", fd.Name()), append(append(append([]wfield{}, pre...), lenField(f.num, nil), f), post...))
			add(fmt.Sprintf("%s:full-then-empty", fd.Name()), append(append(append([]wfield{}, pre...), f, lenField(f.num, nil)), post...))
			if depth > 0 {
				subMsg := dynamicpb.NewMessage(fd.Message())
				if err := (proto.UnmarshalOptions{AllowPartial: true}).Unmarshal(f.pay, subMsg); err == nil {
					for _, sv := range variantsAt(fd.Message(), subMsg, depth-1, false) {
						if sv.name == "canonical" {
							continue
						}
						add(fmt.Sprintf("%s>%s", fd.Name(), sv.name), append(append(append([]wfield{}, pre...), lenField(f.num, sv.b)), post...))
					}
				}
			}
		case !fd.IsList() && fd.Message() == nil:
			// singular scalar occurring twice: last one wins; first occurrence carries another value
			other := otherScalar(fd, f)
			add(fmt.Sprintf("%s:dup-last-wins", fd.Name()), append(append(append([]wfield{}, pre...), other, f), post...))
			if fd.Kind() == protoreflect.BoolKind {
				alt := wfield{num: f.num, wt: f.wt, raw: append(refwire.AppendKey(nil, f.num, 0), 0x81, 0x00)} // non-minimal but legal varint 1
				add(fmt.Sprintf("%s:nonminimal-varint", fd.Name()), append(append(append([]wfield{}, pre...), alt), post...))
			}
		}
	}
	// implicit-presence scalars that are unset in c, written with their zero value (legal; decodes to the same message)
	zeros := 0
	for i := 0; i < md.Fields().Len() && zeros < 3; i++ {
		fd := md.Fields().Get(i)
		if fd.HasPresence() || fd.IsList() || fd.IsMap() || fd.Message() != nil || c.Has(fd) {
			continue
		}
		var z wfield
		switch wt := scalarWT(fd); wt {
		case refwire.Varint:
			z = wfield{num: int(fd.Number()), wt: wt, raw: append(refwire.AppendKey(nil, int(fd.Number()), wt), 0)}
		case refwire.Fixed32:
			z = wfield{num: int(fd.Number()), wt: wt, raw: refwire.AppendFixed32(refwire.AppendKey(nil, int(fd.Number()), wt), 0)}
		case refwire.Fixed64:
			z = wfield{num: int(fd.Number()), wt: wt, raw: refwire.AppendFixed64(refwire.AppendKey(nil, int(fd.Number()), wt), 0)}
		default:
			z = lenField(int(fd.Number()), nil)
		}
		zeros++
		add(fmt.Sprintf("%s:explicit-zero", fd.Name()), append(append([]wfield{}, fs...), z))
		add(fmt.Sprintf("%s:explicit-zero-first", fd.Name()), append([]wfield{z}, fs...))
	}
	// oneof: two members of the same oneof on the wire (last one wins)
	for i := 0; i < md.Oneofs().Len(); i++ {
		oo := md.Oneofs().Get(i)
		if oo.IsSynthetic() {
			continue
		}
		set := c.WhichOneof(oo)
		if set == nil {
			continue
		}
		for j := 0; j < oo.Fields().Len() && j < 3; j++ {
			o := oo.Fields().Get(j)
			if o.Number() == set.Number() {
				continue
			}
			om := dynamicpb.NewMessage(md)
			switch {
			case o.Message() != nil:
				sub := dynamicpb.NewMessage(o.Message())
				gcore.FillRequired(sub) // the superseded member must itself be a valid message
				om.Set(o, protoreflect.ValueOfMessage(sub))
			default:
				om.Set(o, o.Default())
			}
			ob := canonical(om)
			add(fmt.Sprintf("oneof:%s-then-%s", o.Name(), set.Name()), append(split(ob), fs...))
		}
	}
	// unknown fields at every position
	for ui, u := range unk {
		for pos := 0; pos <= len(fs); pos++ {
			if len(fs) > 4 && pos != 0 && pos != len(fs) && pos != len(fs)/2 {
				continue
			}
			x := append(append(append([]wfield{}, fs[:pos]...), u), fs[pos:]...)
			add(fmt.Sprintf("unknown%d@%d", ui, pos), x)
		}
	}
	add("unknown-all-kinds-interleaved", interleave(fs, unk))
	if top {
		// two unknown fields in one message, the first with a padded key, the second with a minimal one (of every shape):
		// what Skip remembers about one key must not leak into the next field
		base := unknownFields(md)
		for pi, pk := range paddedUnknown(md) {
			for qi, q := range base {
				if qi >= 1 && qi < len(base)-2 {
					continue // the first shape and the last two (one-byte keys where the schema has room)
				}
				add(fmt.Sprintf("padded%d-then-unknown%d@front", pi, qi), append([]wfield{pk, q}, fs...))
				add(fmt.Sprintf("padded%d@front-unknown%d@back", pi, qi), append(append([]wfield{pk}, fs...), q))
				add(fmt.Sprintf("unknown%d-then-padded%d@back", qi, pi), append(append([]wfield{}, fs...), q, pk))
			}
		}
	}
	return out
}

func interleave(fs, unk []wfield) []wfield {
	var out []wfield
	for i := 0; i < len(fs) || i < len(unk); i++ {
		if i < len(unk) {
			out = append(out, unk[i])
		}
		if i < len(fs) {
			out = append(out, fs[i])
		}
	}
	return out
}

// otherScalar builds another well-formed occurrence of the same singular scalar field.
func otherScalar(fd protoreflect.FieldDescriptor, f wfield) wfield {
	key := refwire.AppendKey(nil, f.num, f.wt)
	switch f.wt {
	case refwire.Varint:
		return wfield{num: f.num, wt: f.wt, raw: append(key, 0x05)}
	case refwire.Fixed32:
		return wfield{num: f.num, wt: f.wt, raw: refwire.AppendFixed32(key, 0x40400000)}
	case refwire.Fixed64:
		return wfield{num: f.num, wt: f.wt, raw: refwire.AppendFixed64(key, 0x4008000000000000)}
	}
	return lenField(f.num, []byte("other"))
}
