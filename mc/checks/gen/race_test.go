package gen

import (
	"flag"
	"fmt"
	"sync"
	"testing"

	"google.golang.org/protobuf/proto"
	"google.golang.org/protobuf/types/dynamicpb"

	"verif/mc/lib/gcore"
)

var raceProp = flag.String("prop", "C04", "property whose operations are exercised (C04: Size/Marshal/MarshalTo, C06: Unmarshal, C17: required-field verdicts)")
var raceIters = flag.Int("iters", 200, "iterations per goroutine")

// TestGenRace: free-running complement of the generated-code checks, run under the race detector on the code
// generated from the CURRENT templates. Goroutines work on PRIVATE messages of the same types at the same time; every
// result must be what the same call gives when nothing else runs, and the race detector must stay silent. Anything the
// generated code shares between calls (a scratch buffer or list hoisted to package scope) shows here.
func TestGenRace(t *testing.T) {
	type job struct {
		typ    *gcore.Type
		tree   *dynamicpb.Message
		bytes  []byte // canonical encoding of tree
		accept bool   // sequential verdict of generated Unmarshal on bytes
		ok     bool   // proto.CheckInitialized(tree) == nil
	}
	var jobs []job
	for _, ty := range gcore.Types() {
		if ty.File != "p2" && ty.File != "p3" {
			continue
		}
		switch ty.Name {
		case "Scalars", "Repeated", "Packed", "Oneofs", "MapsV", "Child", "Required", "ReqMix", "ReqHolder", "ReqChild":
		default:
			continue
		}
		var cs []gcore.Case
		if *raceProp == "C17" {
			cs = requiredCases(ty)
		} else {
			cs = gcore.Specials(ty.RefDesc())
			s := gcore.Singles(ty.RefDesc(), false)
			for i := 0; i < len(s); i += 9 {
				cs = append(cs, s[i])
			}
		}
		for _, c := range cs {
			j := job{typ: ty, tree: c.Msg, bytes: canonical(c.Msg), ok: proto.CheckInitialized(c.Msg) == nil}
			if *raceProp != "C17" && !j.ok {
				continue
			}
			x := ty.New()
			var err error
			if p := guard(func() { err = x.(unmarshaler).Unmarshal(append([]byte{}, j.bytes...)) }); p == "" && err == nil {
				j.accept = true
			}
			jobs = append(jobs, j)
			if len(jobs) > 4000 {
				break
			}
		}
	}
	if len(jobs) == 0 {
		t.Fatal("no corpus types linked")
	}
	var wg sync.WaitGroup
	var mu sync.Mutex
	failures := 0
	fail := func(format string, a ...any) {
		mu.Lock()
		failures++
		if failures <= 5 {
			t.Errorf("REENTRANCY-FAILURE "+format, a...)
		}
		mu.Unlock()
	}
	const G = 8
	for g := 0; g < G; g++ {
		wg.Add(1)
		go func(g int) {
			defer wg.Done()
			for i := 0; i < *raceIters; i++ {
				j := jobs[(g*7919+i)%len(jobs)]
				switch *raceProp {
				case "C04":
					x, perr := build(j.typ, j.tree)
					if perr != "" {
						continue
					}
					var b []byte
					var err error
					if p := guard(func() { b, err = x.(marshaler).Marshal() }); p != "" || err != nil {
						fail("%s: Marshal: %v %s", j.typ, err, p)
						continue
					}
					if d, derr := refDecode(j.typ, b); derr != nil {
						fail("%s: reference rejects bytes marshaled while other goroutines marshal: %v", j.typ, derr)
					} else if df := gcore.Diff(j.tree, d); df != "" {
						fail("%s: marshaled bytes decode to something else: %s", j.typ, df)
					}
				case "C06":
					x := j.typ.New()
					var err error
					p := guard(func() { err = x.(unmarshaler).Unmarshal(append([]byte{}, j.bytes...)) })
					if (p == "" && err == nil) != j.accept {
						fail("%s: Unmarshal verdict differs from the sequential one: %v %s", j.typ, err, p)
						continue
					}
					if j.accept {
						tree, terr := gcore.TreeOf(j.typ, x)
						if terr != nil {
							fail("%s: %v", j.typ, terr)
						} else if df := gcore.Diff(j.tree, tree); df != "" {
							fail("%s: decoded message differs: %s", j.typ, df)
						}
					}
				case "C17":
					x := j.typ.New()
					var err error
					p := guard(func() { err = x.(unmarshaler).Unmarshal(append([]byte{}, j.bytes...)) })
					if (p == "" && err == nil) != j.accept {
						fail("%s: required-field verdict of Unmarshal differs from the sequential one (sequential accept=%v): %v %s", j.typ, j.accept, err, p)
					}
					y, perr := build(j.typ, j.tree)
					if perr != "" {
						continue
					}
					var merr error
					mp := guard(func() { _, merr = y.(marshaler).Marshal() })
					if (mp == "" && merr == nil) != j.ok {
						fail("%s: required-field verdict of Marshal differs (message initialised=%v): %v %s", j.typ, j.ok, merr, mp)
					}
				}
			}
		}(g)
	}
	wg.Wait()
	fmt.Printf("RACEPASS %s generated-code calls=%d goroutines=%d cases=%d\n", *raceProp, G**raceIters, G, len(jobs))
}
