// C04: generated Size == len(Marshal) == bytes written by MarshalTo; no panics.
package main

import "verif/mc/checks/gen"

func main() {
	gen.Main("C04", "exploration",
		"deterministic enumeration over the schema corpus (feature matrix: proto2/proto3 x 17 kinds x {implicit, optional, required, repeated, packed, unpacked, oneof, map value, map key} + recursion + field-number boundaries) x runtimes {gogo, gv2, legacy, gv1} x value trees (every field alone at every boundary value of its domain incl. zero/empty/nil-vs-empty/127-128-byte payloads/lists of 15..128 elements/maps/nested-in-nested; all-first/all-second/all-last; thorough: all field pairs over reduced domains). Per case, on FRESH structs built through reflection: Size() (separate copy), Marshal(), Size() again, MarshalTo(exact canary-framed window), csproto.Size/Marshal. Second population: message values that came out of the generated Unmarshal of EVERY legal encoding variant of the case (canonical, fields permuted / given twice / split, packed<->unpacked, explicit zero values, non-minimal varints, unknown fields): Size == len(Marshal) == Size afterwards, MarshalTo fills a Size()-byte canary-framed window with the same bytes. distinct_nontrivial = cases with non-empty output. ROUND 7-9 ADDITIONS: hand-built struct shapes (nil list element, nil map value, oneof wrapper holding nil, typed nil wrapper, shared child; top level and one level down; shapes that read as uninitialised are left to C17); packed payloads of exactly 127/128 (16383/16384) bytes; lists of 4097 (thorough 2049, 8193) elements; all list fields at once with falling / rising lengths; field numbers >= 2^28 in every shape (p3big/p2big); after Size / Marshal / MarshalTo the message still holds the tree it was built from.",
		"values whose required fields are not all set are C17's business and skipped here",
		"MarshalTo is compared byte-for-byte with Marshal only when no map has more than one entry (Go map order)")
}
