// Package codec holds what C01 and C02 share: the table of scalar / packed kinds of csproto's
// hand-written codec, each bound to (a) the real Encoder/Decoder calls, (b) the size helpers,
// (c) the spec-derived reference and (d) protowire.
package codec

import (
	"bytes"
	"math"
	"unsafe"

	"github.com/CrowdStrike/csproto"
	"google.golang.org/protobuf/encoding/protowire"

	"verif/mc/lib/refwire"
)

// Scalar describes one scalar kind. Values travel as uint64 "bits"; Norm maps an arbitrary 64-bit
// pattern into the kind's domain (canonical bits).
type Scalar struct {
	Name   string
	WT     int
	Bits32 bool // the domain has 2^32 values (thorough tier enumerates all of them)
	Norm   func(u uint64) uint64
	Enc    func(e *csproto.Encoder, tag int, u uint64)
	Size   func(u uint64) int // payload size predicted from csproto's size helpers
	Dec    func(d *csproto.Decoder) (uint64, error)
	Ref    func(b []byte, u uint64) []byte // payload per the spec reference
	PW     func(b []byte, u uint64) []byte // payload per protowire
}

func sx32(u uint64) uint64 { return uint64(int64(int32(uint32(u)))) }
func lo32(u uint64) uint64 { return uint64(uint32(u)) }
func id64(u uint64) uint64 { return u }

// Scalars is the table of the 13 numeric/bool scalar kinds.
var Scalars = []Scalar{
	{Name: "bool", WT: refwire.Varint, Norm: func(u uint64) uint64 { return u & 1 },
		Enc:  func(e *csproto.Encoder, tag int, u uint64) { e.EncodeBool(tag, u != 0) },
		Size: func(u uint64) int { return 1 },
		Dec: func(d *csproto.Decoder) (uint64, error) {
			v, err := d.DecodeBool()
			if v {
				return 1, err
			}
			return 0, err
		},
		Ref: func(b []byte, u uint64) []byte { return refwire.AppendVarint(b, u) },
		PW:  func(b []byte, u uint64) []byte { return protowire.AppendVarint(b, protowire.EncodeBool(u != 0)) }},
	{Name: "int32", WT: refwire.Varint, Bits32: true, Norm: sx32,
		Enc:  func(e *csproto.Encoder, tag int, u uint64) { e.EncodeInt32(tag, int32(u)) },
		Size: func(u uint64) int { return csproto.SizeOfVarint(uint64(int32(u))) },
		Dec:  func(d *csproto.Decoder) (uint64, error) { v, err := d.DecodeInt32(); return uint64(int64(v)), err },
		Ref:  func(b []byte, u uint64) []byte { return refwire.AppendVarint(b, uint64(int64(int32(u)))) },
		PW:   func(b []byte, u uint64) []byte { return protowire.AppendVarint(b, uint64(int64(int32(u)))) }},
	{Name: "int64", WT: refwire.Varint, Norm: id64,
		Enc:  func(e *csproto.Encoder, tag int, u uint64) { e.EncodeInt64(tag, int64(u)) },
		Size: func(u uint64) int { return csproto.SizeOfVarint(u) },
		Dec:  func(d *csproto.Decoder) (uint64, error) { v, err := d.DecodeInt64(); return uint64(v), err },
		Ref:  func(b []byte, u uint64) []byte { return refwire.AppendVarint(b, u) },
		PW:   func(b []byte, u uint64) []byte { return protowire.AppendVarint(b, u) }},
	{Name: "uint32", WT: refwire.Varint, Bits32: true, Norm: lo32,
		Enc:  func(e *csproto.Encoder, tag int, u uint64) { e.EncodeUInt32(tag, uint32(u)) },
		Size: func(u uint64) int { return csproto.SizeOfVarint(u) },
		Dec:  func(d *csproto.Decoder) (uint64, error) { v, err := d.DecodeUInt32(); return uint64(v), err },
		Ref:  func(b []byte, u uint64) []byte { return refwire.AppendVarint(b, u) },
		PW:   func(b []byte, u uint64) []byte { return protowire.AppendVarint(b, u) }},
	{Name: "uint64", WT: refwire.Varint, Norm: id64,
		Enc:  func(e *csproto.Encoder, tag int, u uint64) { e.EncodeUInt64(tag, u) },
		Size: func(u uint64) int { return csproto.SizeOfVarint(u) },
		Dec:  func(d *csproto.Decoder) (uint64, error) { return d.DecodeUInt64() },
		Ref:  func(b []byte, u uint64) []byte { return refwire.AppendVarint(b, u) },
		PW:   func(b []byte, u uint64) []byte { return protowire.AppendVarint(b, u) }},
	{Name: "sint32", WT: refwire.Varint, Bits32: true, Norm: sx32,
		Enc:  func(e *csproto.Encoder, tag int, u uint64) { e.EncodeSInt32(tag, int32(u)) },
		Size: func(u uint64) int { return csproto.SizeOfZigZag(uint64(int32(u))) },
		Dec:  func(d *csproto.Decoder) (uint64, error) { v, err := d.DecodeSInt32(); return uint64(int64(v)), err },
		Ref:  func(b []byte, u uint64) []byte { return refwire.AppendVarint(b, refwire.ZigZag32(int32(u))) },
		PW: func(b []byte, u uint64) []byte {
			return protowire.AppendVarint(b, protowire.EncodeZigZag(int64(int32(u))))
		}},
	{Name: "sint64", WT: refwire.Varint, Norm: id64,
		Enc:  func(e *csproto.Encoder, tag int, u uint64) { e.EncodeSInt64(tag, int64(u)) },
		Size: func(u uint64) int { return csproto.SizeOfZigZag(u) },
		Dec:  func(d *csproto.Decoder) (uint64, error) { v, err := d.DecodeSInt64(); return uint64(v), err },
		Ref:  func(b []byte, u uint64) []byte { return refwire.AppendVarint(b, refwire.ZigZag64(int64(u))) },
		PW:   func(b []byte, u uint64) []byte { return protowire.AppendVarint(b, protowire.EncodeZigZag(int64(u))) }},
	{Name: "fixed32", WT: refwire.Fixed32, Bits32: true, Norm: lo32,
		Enc:  func(e *csproto.Encoder, tag int, u uint64) { e.EncodeFixed32(tag, uint32(u)) },
		Size: func(u uint64) int { return 4 },
		Dec:  func(d *csproto.Decoder) (uint64, error) { v, err := d.DecodeFixed32(); return uint64(v), err },
		Ref:  func(b []byte, u uint64) []byte { return refwire.AppendFixed32(b, uint32(u)) },
		PW:   func(b []byte, u uint64) []byte { return protowire.AppendFixed32(b, uint32(u)) }},
	{Name: "fixed64", WT: refwire.Fixed64, Norm: id64,
		Enc:  func(e *csproto.Encoder, tag int, u uint64) { e.EncodeFixed64(tag, u) },
		Size: func(u uint64) int { return 8 },
		Dec:  func(d *csproto.Decoder) (uint64, error) { return d.DecodeFixed64() },
		Ref:  func(b []byte, u uint64) []byte { return refwire.AppendFixed64(b, u) },
		PW:   func(b []byte, u uint64) []byte { return protowire.AppendFixed64(b, u) }},
	// sfixed32/sfixed64 have no dedicated scalar calls: the documented use is EncodeFixed32(uint32(v)) /
	// int32(DecodeFixed32()); the signed reinterpretation is exercised here.
	{Name: "sfixed32", WT: refwire.Fixed32, Bits32: true, Norm: sx32,
		Enc:  func(e *csproto.Encoder, tag int, u uint64) { e.EncodeFixed32(tag, uint32(int32(u))) },
		Size: func(u uint64) int { return 4 },
		Dec: func(d *csproto.Decoder) (uint64, error) {
			v, err := d.DecodeFixed32()
			return uint64(int64(int32(v))), err
		},
		Ref: func(b []byte, u uint64) []byte { return refwire.AppendFixed32(b, uint32(u)) },
		PW:  func(b []byte, u uint64) []byte { return protowire.AppendFixed32(b, uint32(u)) }},
	{Name: "sfixed64", WT: refwire.Fixed64, Norm: id64,
		Enc:  func(e *csproto.Encoder, tag int, u uint64) { e.EncodeFixed64(tag, uint64(int64(u))) },
		Size: func(u uint64) int { return 8 },
		Dec:  func(d *csproto.Decoder) (uint64, error) { v, err := d.DecodeFixed64(); return uint64(int64(v)), err },
		Ref:  func(b []byte, u uint64) []byte { return refwire.AppendFixed64(b, u) },
		PW:   func(b []byte, u uint64) []byte { return protowire.AppendFixed64(b, u) }},
	{Name: "float", WT: refwire.Fixed32, Bits32: true, Norm: lo32,
		Enc:  func(e *csproto.Encoder, tag int, u uint64) { e.EncodeFloat32(tag, math.Float32frombits(uint32(u))) },
		Size: func(u uint64) int { return 4 },
		Dec: func(d *csproto.Decoder) (uint64, error) {
			v, err := d.DecodeFloat32()
			return uint64(math.Float32bits(v)), err
		},
		Ref: func(b []byte, u uint64) []byte { return refwire.AppendFixed32(b, uint32(u)) },
		PW:  func(b []byte, u uint64) []byte { return protowire.AppendFixed32(b, uint32(u)) }},
	{Name: "double", WT: refwire.Fixed64, Norm: id64,
		Enc:  func(e *csproto.Encoder, tag int, u uint64) { e.EncodeFloat64(tag, math.Float64frombits(u)) },
		Size: func(u uint64) int { return 8 },
		Dec: func(d *csproto.Decoder) (uint64, error) {
			v, err := d.DecodeFloat64()
			return math.Float64bits(v), err
		},
		Ref: func(b []byte, u uint64) []byte { return refwire.AppendFixed64(b, u) },
		PW:  func(b []byte, u uint64) []byte { return protowire.AppendFixed64(b, u) }},
}

// Packed describes one packed list kind; elements travel as []uint64 of canonical bits of Elem.
type Packed struct {
	Name string
	Elem string // name of the scalar kind of the elements
	Enc  func(e *csproto.Encoder, tag int, vs []uint64)
	Dec  func(d *csproto.Decoder) ([]uint64, error)
}

// kept hands the encoder a slice with spare capacity behind it and panics if the call changed the slice it was given or
// wrote into the capacity behind it: an encoder reads its arguments (compared as raw memory, so NaN payloads count).
func kept[T any](ts []T, call func(a []T)) {
	const spare = 4
	arena := make([]T, len(ts)+spare)
	copy(arena, ts)
	for i := 0; i < spare && len(ts) > 0; i++ {
		arena[len(ts)+i] = ts[i%len(ts)]
	}
	raw := func() []byte {
		if len(arena) == 0 {
			return nil
		}
		return unsafe.Slice((*byte)(unsafe.Pointer(&arena[0])), len(arena)*int(unsafe.Sizeof(arena[0])))
	}
	before := append([]byte{}, raw()...)
	call(arena[:len(ts)])
	if !bytes.Equal(before, raw()) {
		panic("the encoder modified the slice it was given (or the capacity behind it)")
	}
}

func conv[T any](vs []uint64, f func(uint64) T) []T {
	out := make([]T, len(vs))
	for i, v := range vs {
		out[i] = f(v)
	}
	return out
}
func back[T any](vs []T, f func(T) uint64) []uint64 {
	if vs == nil {
		return nil
	}
	out := make([]uint64, len(vs))
	for i, v := range vs {
		out[i] = f(v)
	}
	return out
}

// Packeds is the table of the 14 packed kinds.
var Packeds = []Packed{
	{"packed_bool", "bool",
		func(e *csproto.Encoder, tag int, vs []uint64) {
			kept(conv(vs, func(u uint64) bool { return u != 0 }), func(a []bool) { e.EncodePackedBool(tag, a) })
		},
		func(d *csproto.Decoder) ([]uint64, error) {
			v, err := d.DecodePackedBool()
			return back(v, func(b bool) uint64 {
				if b {
					return 1
				}
				return 0
			}), err
		}},
	{"packed_int32", "int32",
		func(e *csproto.Encoder, tag int, vs []uint64) {
			kept(conv(vs, func(u uint64) int32 { return int32(u) }), func(a []int32) { e.EncodePackedInt32(tag, a) })
		},
		func(d *csproto.Decoder) ([]uint64, error) {
			v, err := d.DecodePackedInt32()
			return back(v, func(x int32) uint64 { return uint64(int64(x)) }), err
		}},
	{"packed_int64", "int64",
		func(e *csproto.Encoder, tag int, vs []uint64) {
			kept(conv(vs, func(u uint64) int64 { return int64(u) }), func(a []int64) { e.EncodePackedInt64(tag, a) })
		},
		func(d *csproto.Decoder) ([]uint64, error) {
			v, err := d.DecodePackedInt64()
			return back(v, func(x int64) uint64 { return uint64(x) }), err
		}},
	{"packed_uint32", "uint32",
		func(e *csproto.Encoder, tag int, vs []uint64) {
			kept(conv(vs, func(u uint64) uint32 { return uint32(u) }), func(a []uint32) { e.EncodePackedUInt32(tag, a) })
		},
		func(d *csproto.Decoder) ([]uint64, error) {
			v, err := d.DecodePackedUint32()
			return back(v, func(x uint32) uint64 { return uint64(x) }), err
		}},
	{"packed_uint64", "uint64",
		func(e *csproto.Encoder, tag int, vs []uint64) {
			kept(append([]uint64{}, vs...), func(a []uint64) { e.EncodePackedUInt64(tag, a) })
		},
		func(d *csproto.Decoder) ([]uint64, error) { return d.DecodePackedUint64() }},
	{"packed_sint32", "sint32",
		func(e *csproto.Encoder, tag int, vs []uint64) {
			kept(conv(vs, func(u uint64) int32 { return int32(u) }), func(a []int32) { e.EncodePackedSInt32(tag, a) })
		},
		func(d *csproto.Decoder) ([]uint64, error) {
			v, err := d.DecodePackedSint32()
			return back(v, func(x int32) uint64 { return uint64(int64(x)) }), err
		}},
	{"packed_sint64", "sint64",
		func(e *csproto.Encoder, tag int, vs []uint64) {
			kept(conv(vs, func(u uint64) int64 { return int64(u) }), func(a []int64) { e.EncodePackedSInt64(tag, a) })
		},
		func(d *csproto.Decoder) ([]uint64, error) {
			v, err := d.DecodePackedSint64()
			return back(v, func(x int64) uint64 { return uint64(x) }), err
		}},
	{"packed_fixed32", "fixed32",
		func(e *csproto.Encoder, tag int, vs []uint64) {
			kept(conv(vs, func(u uint64) uint32 { return uint32(u) }), func(a []uint32) { e.EncodePackedFixed32(tag, a) })
		},
		func(d *csproto.Decoder) ([]uint64, error) {
			v, err := d.DecodePackedFixed32()
			return back(v, func(x uint32) uint64 { return uint64(x) }), err
		}},
	{"packed_fixed64", "fixed64",
		func(e *csproto.Encoder, tag int, vs []uint64) {
			kept(append([]uint64{}, vs...), func(a []uint64) { e.EncodePackedFixed64(tag, a) })
		},
		func(d *csproto.Decoder) ([]uint64, error) { return d.DecodePackedFixed64() }},
	{"packed_sfixed32", "sfixed32",
		func(e *csproto.Encoder, tag int, vs []uint64) {
			kept(conv(vs, func(u uint64) int32 { return int32(u) }), func(a []int32) { e.EncodePackedSFixed32(tag, a) })
		},
		func(d *csproto.Decoder) ([]uint64, error) {
			v, err := d.DecodePackedFixed32()
			return back(v, func(x uint32) uint64 { return uint64(int64(int32(x))) }), err
		}},
	{"packed_sfixed64", "sfixed64",
		func(e *csproto.Encoder, tag int, vs []uint64) {
			kept(conv(vs, func(u uint64) int64 { return int64(u) }), func(a []int64) { e.EncodePackedSFixed64(tag, a) })
		},
		func(d *csproto.Decoder) ([]uint64, error) {
			v, err := d.DecodePackedFixed64()
			return back(v, func(x uint64) uint64 { return x }), err
		}},
	{"packed_float", "float",
		func(e *csproto.Encoder, tag int, vs []uint64) {
			kept(conv(vs, func(u uint64) float32 { return math.Float32frombits(uint32(u)) }), func(a []float32) { e.EncodePackedFloat32(tag, a) })
		},
		func(d *csproto.Decoder) ([]uint64, error) {
			v, err := d.DecodePackedFloat32()
			return back(v, func(x float32) uint64 { return uint64(math.Float32bits(x)) }), err
		}},
	{"packed_double", "double",
		func(e *csproto.Encoder, tag int, vs []uint64) {
			kept(conv(vs, func(u uint64) float64 { return math.Float64frombits(u) }), func(a []float64) { e.EncodePackedFloat64(tag, a) })
		},
		func(d *csproto.Decoder) ([]uint64, error) {
			v, err := d.DecodePackedFloat64()
			return back(v, func(x float64) uint64 { return math.Float64bits(x) }), err
		}},
}

// ScalarByName finds a scalar kind.
func ScalarByName(n string) *Scalar {
	for i := range Scalars {
		if Scalars[i].Name == n {
			return &Scalars[i]
		}
	}
	panic("no scalar kind " + n)
}

// BoundaryBits returns the boundary value set over 64-bit patterns: for every bit length b in
// 0..64 {2^b-1, 2^b, 2^b+1} and their two's complement negations, float classes of both widths.
func BoundaryBits() []uint64 {
	seen := map[uint64]bool{}
	var out []uint64
	add := func(u uint64) {
		if !seen[u] {
			seen[u] = true
			out = append(out, u)
		}
	}
	for b := uint(0); b <= 64; b++ {
		var p uint64
		if b < 64 {
			p = 1 << b
		}
		for _, u := range []uint64{p - 1, p, p + 1} {
			add(u)
			add(-u)
		}
	}
	for _, f := range []float64{0, math.Copysign(0, -1), 1, -1, math.Inf(1), math.Inf(-1), math.NaN(), math.SmallestNonzeroFloat64, math.MaxFloat64, -math.MaxFloat64} {
		add(math.Float64bits(f))
	}
	for _, f := range []float32{0, float32(math.Copysign(0, -1)), 1, -1, float32(math.Inf(1)), float32(math.Inf(-1)), math.SmallestNonzeroFloat32, math.MaxFloat32} {
		add(uint64(math.Float32bits(f)))
	}
	// signalling / quiet NaN payloads of both widths
	for _, u := range []uint64{0x7fc00000, 0x7fa00000, 0xffc00001, 0x7f800001, 0x7ff8000000000000, 0x7ff4000000000000, 0xfff8000000000001, 0x7ff0000000000001} {
		add(u)
	}
	return out
}

// BoundaryTags returns {1..lim} ∪ {2^k-1, 2^k, 2^k+1 | k <= 29} ∩ [1, 2^29-1].
func BoundaryTags(lim int) []int {
	seen := map[int]bool{}
	var out []int
	add := func(t int) {
		if t >= 1 && t <= (1<<29)-1 && !seen[t] {
			seen[t] = true
			out = append(out, t)
		}
	}
	for t := 1; t <= lim; t++ {
		add(t)
	}
	for k := uint(0); k <= 29; k++ {
		add(1<<k - 1)
		add(1 << k)
		add(1<<k + 1)
	}
	return out
}
