//go:build verifshim

package main

import (
	"fmt"
	"strings"

	"github.com/CrowdStrike/csproto"
	gogodesc "github.com/gogo/protobuf/protoc-gen-gogo/descriptor"
	gogotypes "github.com/gogo/protobuf/types"
	"google.golang.org/protobuf/encoding/prototext"
	"google.golang.org/protobuf/proto"
	"google.golang.org/protobuf/types/descriptorpb"
	"google.golang.org/protobuf/types/known/wrapperspb"

	"verif/mc/corpus"
	"verif/mc/lib/ev"
	"verif/mc/lib/gcore"
)

// textOnly: messages in states a program has but a constructor does not produce - unknown fields retained from a newer
// writer, a proto2 message whose required field is not set yet, a string holding invalid UTF-8. The owning runtimes' text
// renderers (prototext.Format, MarshalTextString) are lenient debugging aids: they render all of these, unknown fields
// included. csproto.MarshalText must give that result (for Google V2 compared after collapsing runs of white space, which
// protobuf-go varies on purpose between binaries; for the V1 APIs byte for byte).
func textOnly(r *ev.Run) int64 {
	var n int64
	norm := func(s string) string { return strings.Join(strings.Fields(s), " ") }
	unk := []byte{0x78, 0x07, 0x82, 0x01, 0x02, 'x', 'y'} // field 15 varint 7, field 16 bytes "xy"
	type tcase struct {
		name string
		m    any
		want func(any) string
		v2   bool
	}
	v2want := func(m any) string { return prototext.Format(m.(proto.Message)) }
	var cases []tcase
	sv := wrapperspb.String("abc")
	sv.ProtoReflect().SetUnknown(unk)
	cases = append(cases,
		tcase{"plain/googlev2/StringValue+unknown-fields", sv, v2want, true},
		tcase{"plain/googlev2/NamePart-required-field-unset", &descriptorpb.UninterpretedOption_NamePart{NamePart: proto.String("n")}, v2want, true},
		tcase{"plain/googlev2/UninterpretedOption{NamePart-partial}", &descriptorpb.UninterpretedOption{Name: []*descriptorpb.UninterpretedOption_NamePart{{}}}, v2want, true},
		tcase{"plain/googlev2/StringValue-invalid-UTF-8", wrapperspb.String("a\xffb"), v2want, true},
	)
	gsv := &gogotypes.StringValue{Value: "abc", XXX_unrecognized: append([]byte{}, unk...)}
	cases = append(cases,
		tcase{"selfmarshal/gogo/StringValue+unknown-fields", gsv, clsGogo.text, false},
		tcase{"plain/gogo/NamePart-required-field-unset", &gogodesc.UninterpretedOption_NamePart{NamePart: ptr("n")}, clsGogo.text, false},
		tcase{"selfmarshal/gogo/StringValue-invalid-UTF-8", &gogotypes.StringValue{Value: "a\xffb"}, clsGogo.text, false},
		tcase{"plain/googlev1/LegacyPlain+unknown-fields", &LegacyPlain{Name: ptr("n"), XXX_unrecognized: append([]byte{}, unk...)}, clsV1.text, false},
	)
	// fast-marshal corpus messages of every flavour holding unknown fields
	for _, t := range gcore.Types() {
		if (t.File != "p3" && t.File != "p2") || t.Name != "Child" {
			continue
		}
		x := t.New()
		mr := gcore.Reflect(x)
		mr.SetUnknown(append([]byte{0x90, 0x03, 0x01}, lenField50()...)) // field 50 varint 1, field 51 bytes
		c := tcase{"fastmarshal/" + t.String() + "+unknown-fields", x, nil, false}
		switch t.RT {
		case corpus.Gogo:
			c.want = clsGogo.text
		case corpus.Legacy:
			c.want = clsV1.text
		default:
			c.want, c.v2 = v2want, true
		}
		cases = append(cases, c)
	}
	for _, c := range cases {
		n++
		var want, got string
		var err error
		if p := guard(func() { want = c.want(c.m) }); p != "" {
			continue // the owning runtime itself cannot render it: nothing to be interchangeable with
		}
		p := guard(func() { got, err = csproto.MarshalText(c.m) })
		ok := p == "" && err == nil && (got == want || (c.v2 && norm(got) == norm(want)))
		if !ok {
			r.Fail("C11/MarshalText/"+c.name, c.name, map[string]any{"csproto": got, "error": fmt.Sprint(err), "panic": p, "owning_runtime": want})
		}
	}
	return n
}

func lenField50() []byte { return []byte{0x9a, 0x03, 0x02, 'h', 'i'} }
