//go:build verifshim

// C11: the runtime-agnostic API is a transparent, stable dispatcher.
// Mode X: exhaustive product of message flavours x values x API functions, differential against the
// owning runtime called directly. Mode S: every interleaving of 2-3 goroutines triggering the first
// classification of the same never-seen type (sync.Map of message_types.go behind the shim).
package main

import (
	"bytes"
	"errors"
	"fmt"
	"google.golang.org/protobuf/reflect/protoreflect"
	"os"
	"os/exec"
	"reflect"
	"strings"

	"github.com/CrowdStrike/csproto"
	vsync "github.com/CrowdStrike/csproto/zzverif/vsync"
	gogoproto "github.com/gogo/protobuf/proto"
	gogodesc "github.com/gogo/protobuf/protoc-gen-gogo/descriptor"
	gogotypes "github.com/gogo/protobuf/types"
	golangproto "github.com/golang/protobuf/proto"
	"google.golang.org/protobuf/encoding/prototext"
	"google.golang.org/protobuf/proto"
	"google.golang.org/protobuf/types/descriptorpb"
	"google.golang.org/protobuf/types/dynamicpb"
	"google.golang.org/protobuf/types/known/durationpb"
	"google.golang.org/protobuf/types/known/structpb"
	"google.golang.org/protobuf/types/known/timestamppb"
	"google.golang.org/protobuf/types/known/wrapperspb"

	"verif/mc/corpus"
	"verif/mc/lib/ev"
	"verif/mc/lib/gcore"
)

// ---- hand-written Google V1 (pre-APIv2) messages without fast-marshal methods

type LegacyPlain struct {
	Name                 *string      `protobuf:"bytes,1,opt,name=name" json:"name,omitempty"`
	Id                   *int64       `protobuf:"varint,2,opt,name=id" json:"id,omitempty"`
	Tags                 []string     `protobuf:"bytes,3,rep,name=tags" json:"tags,omitempty"`
	Child                *LegacyPlain `protobuf:"bytes,4,opt,name=child" json:"child,omitempty"`
	XXX_NoUnkeyedLiteral struct{}     `json:"-"`
	XXX_unrecognized     []byte       `json:"-"`
	XXX_sizecache        int32        `json:"-"`
}

func (m *LegacyPlain) Reset()         { *m = LegacyPlain{} }
func (m *LegacyPlain) String() string { return golangproto.CompactTextString(m) }
func (*LegacyPlain) ProtoMessage()    {}

var xxx_messageInfo_LegacyPlain golangproto.InternalMessageInfo

func (m *LegacyPlain) XXX_Unmarshal(b []byte) error {
	return xxx_messageInfo_LegacyPlain.Unmarshal(m, b)
}
func (m *LegacyPlain) XXX_Marshal(b []byte, deterministic bool) ([]byte, error) {
	return xxx_messageInfo_LegacyPlain.Marshal(b, m, deterministic)
}
func (m *LegacyPlain) XXX_Size() int { return xxx_messageInfo_LegacyPlain.Size(m) }

// LegacyBare: the oldest generated shape, no XXX_ methods at all (still a golang/protobuf message).
type LegacyBare struct {
	Name             *string `protobuf:"bytes,1,opt,name=name" json:"name,omitempty"`
	N                *int32  `protobuf:"varint,2,opt,name=n" json:"n,omitempty"`
	XXX_unrecognized []byte  `json:"-"`
}

func (m *LegacyBare) Reset()         { *m = LegacyBare{} }
func (m *LegacyBare) String() string { return golangproto.CompactTextString(m) }
func (*LegacyBare) ProtoMessage()    {}

// ---- owning-runtime operations

type class struct {
	name      string
	mt        csproto.MessageType
	marshal   func(any) ([]byte, error)
	unmarshal func([]byte, any) error
	size      func(any) int
	clone     func(any) any
	equal     func(a, b any) bool
	text      func(any) string
}

var (
	clsGogo = &class{"gogo", csproto.MessageTypeGogo,
		func(m any) ([]byte, error) { return gogoproto.Marshal(m.(gogoproto.Message)) },
		func(b []byte, m any) error { return gogoproto.Unmarshal(b, m.(gogoproto.Message)) },
		func(m any) int { return gogoproto.Size(m.(gogoproto.Message)) },
		func(m any) any { return gogoproto.Clone(m.(gogoproto.Message)) },
		func(a, b any) bool { return gogoproto.Equal(a.(gogoproto.Message), b.(gogoproto.Message)) },
		func(m any) string { return gogoproto.MarshalTextString(m.(gogoproto.Message)) }}
	clsV1 = &class{"googlev1", csproto.MessageTypeGoogleV1,
		func(m any) ([]byte, error) { return golangproto.Marshal(m.(golangproto.Message)) },
		func(b []byte, m any) error { return golangproto.Unmarshal(b, m.(golangproto.Message)) },
		func(m any) int { return golangproto.Size(m.(golangproto.Message)) },
		func(m any) any { return golangproto.Clone(m.(golangproto.Message)) },
		func(a, b any) bool { return golangproto.Equal(a.(golangproto.Message), b.(golangproto.Message)) },
		func(m any) string { return golangproto.MarshalTextString(m.(golangproto.Message)) }}
	clsV2 = &class{"googlev2", csproto.MessageTypeGoogle,
		func(m any) ([]byte, error) { return proto.Marshal(m.(proto.Message)) },
		func(b []byte, m any) error { return proto.Unmarshal(b, m.(proto.Message)) },
		func(m any) int { return proto.Size(m.(proto.Message)) },
		func(m any) any { return proto.Clone(m.(proto.Message)) },
		func(a, b any) bool { return proto.Equal(a.(proto.Message), b.(proto.Message)) },
		nil}
)

type subject struct {
	name string
	cls  *class
	mk   func() any // fresh, populated value
	zero func() any // fresh empty value of the same type
}

func ptr[T any](v T) *T { return &v }

func subjects(thorough bool) []subject {
	var out []subject
	twins := map[string]int{}
	// fast-marshal corpus types of every runtime
	for _, t := range gcore.Types() {
		t := t
		if (t.File != "p3" && t.File != "p2") || strings.Contains("Scalars Repeated Oneofs MapsV Child Empty Packed", t.Name) == false {
			continue
		}
		var cls *class
		switch t.RT {
		case corpus.Gogo:
			cls = clsGogo
		case corpus.Legacy:
			cls = clsV1
		default:
			cls = clsV2
		}
		cs := gcore.Singles(t.RefDesc(), false)
		cs = append(cs, gcore.Specials(t.RefDesc())...)
		step := 7
		if thorough {
			step = 1
		}
		for i := 0; i < len(cs); i++ {
			c := cs[i]
			if i%step != 0 && !strings.Contains(c.ID, "nan") { // NaN-bearing values are always included (Equal differs per runtime)
				continue
			}
			if proto.CheckInitialized(c.Msg) != nil {
				continue
			}
			out = append(out, subject{fmt.Sprintf("fastmarshal/%s/%s", t, c.ID), cls,
				func() any { x := t.New(); gcore.Copy(gcore.Reflect(x), c.Msg); return x }, t.New})
			// twin: a dynamicpb message over the GENERATED type's own descriptor with the same contents. For the Google V2
			// runtime message equality is defined on descriptors, not on Go types: Equal(generated, twin) is true.
			if cls == clsV2 && twins[t.String()] < 2 {
				twins[t.String()]++
				desc := t.New().(proto.Message).ProtoReflect().Descriptor()
				out = append(out, subject{fmt.Sprintf("dynamic-twin/%s/%s", t, c.ID), cls,
					func() any { x := dynamicpb.NewMessage(desc); gcore.Copy(x, c.Msg); return x },
					func() any { return dynamicpb.NewMessage(desc) }})
			}
		}
	}
	add := func(name string, cls *class, mk func() any) {
		out = append(out, subject{name, cls, mk, func() any { return reflect.New(reflect.TypeOf(mk()).Elem()).Interface() }})
	}
	// plain Google V2 messages incl. well-known types
	add("plain/googlev2/Timestamp", clsV2, func() any { return &timestamppb.Timestamp{Seconds: 1700000000, Nanos: 999} })
	add("plain/googlev2/Timestamp-empty", clsV2, func() any { return &timestamppb.Timestamp{} })
	add("plain/googlev2/Duration", clsV2, func() any { return durationpb.New(-3e9) })
	add("plain/googlev2/Struct", clsV2, func() any {
		s, _ := structpb.NewStruct(map[string]any{"k": "v"})
		return s
	})
	// plain messages whose sub-message size caches are stale (measured, then a sub-message changed its size): the
	// dispatcher must hand them to the runtime in a way that re-measures them
	add("plain/googlev2/Value-measured-then-element-grown", clsV2, func() any {
		l, _ := structpb.NewList([]any{"a", 2.0})
		v := structpb.NewListValue(l)
		_ = proto.Size(v)
		l.Values[0] = structpb.NewStringValue(strings.Repeat("b", 40))
		return v
	})
	add("plain/googlev2/DescriptorProto-marshaled-then-nested-renamed", clsV2, func() any {
		d := &descriptorpb.DescriptorProto{Name: proto.String("M"), NestedType: []*descriptorpb.DescriptorProto{{Name: proto.String("N")}}}
		_, _ = proto.Marshal(d)
		d.NestedType[0].Name = proto.String(strings.Repeat("N", 200))
		return d
	})
	add("plain/googlev2/StringValue128", clsV2, func() any { return wrapperspb.String(strings.Repeat("x", 128)) })
	add("plain/googlev2/FileDescriptorProto", clsV2, func() any {
		return &descriptorpb.FileDescriptorProto{Name: proto.String("a.proto"), Dependency: []string{"b", "c"}, MessageType: []*descriptorpb.DescriptorProto{{Name: proto.String("M")}}}
	})
	// plain gogo messages (XXX_ methods only) and gogo's own self-marshaling well-known types
	add("plain/gogo/FileDescriptorProto", clsGogo, func() any {
		return &gogodesc.FileDescriptorProto{Name: ptr("a.proto"), Dependency: []string{"b"}, MessageType: []*gogodesc.DescriptorProto{{Name: ptr("M")}}}
	})
	add("plain/gogo/FieldOptions-empty", clsGogo, func() any { return &gogodesc.FieldOptions{} })
	add("selfmarshal/gogo/Timestamp", clsGogo, func() any { return &gogotypes.Timestamp{Seconds: 5, Nanos: 6} })
	// a gogo Any holding a message of a type the gogo registry knows: text rendering has an "expanded" form that the
	// runtime's default does not use
	add("selfmarshal/gogo/Any{Duration}", clsGogo, func() any {
		a, err := gogotypes.MarshalAny(&gogotypes.Duration{Seconds: 90})
		if err != nil {
			panic(err)
		}
		return a
	})
	add("selfmarshal/gogo/StringValue", clsGogo, func() any { return &gogotypes.StringValue{Value: strings.Repeat("y", 127)} })
	// plain Google V1 messages
	add("plain/googlev1/LegacyPlain", clsV1, func() any {
		return &LegacyPlain{Name: ptr("n"), Id: ptr(int64(-1)), Tags: []string{"", "t"}, Child: &LegacyPlain{Id: ptr(int64(7))}}
	})
	add("plain/googlev1/LegacyPlain-empty", clsV1, func() any { return &LegacyPlain{} })
	add("plain/googlev1/LegacyBare", clsV1, func() any { return &LegacyBare{Name: ptr("bare"), N: ptr(int32(300))} })
	return out
}

// racePass: free-running complement under the race detector (the cooperative scheduler's hand-offs are
// happens-before edges, and plain memory shared between goroutines has no scheduling point at all): goroutines
// classify, clone, compare and query messages of several runtimes at the same time.
func racePass(r *ev.Run) {
	if os.Getenv("VERIF_SKIP_RACE") != "" {
		r.Set("race_pass", map[string]any{"sampling": true, "skipped": true})
		return
	}
	cmd := exec.Command("go", "test", "-race", "-count=1", "-vet=off", "./checks/c15race", "-run", "TestC11RacePass", "-v", "-args", "-iters", ev.Pick(r, "300", "3000"))
	cmd.Dir = ev.VerifDir() + "/mc"
	cmd.Env = append(os.Environ(), "GOFLAGS=-mod=mod", "GOPROXY=off", "GOSUMDB=off", "GOTOOLCHAIN=local")
	out, err := cmd.CombinedOutput()
	s := string(out)
	res := map[string]any{"sampling": true, "cmd": strings.Join(cmd.Args, " ")}
	switch {
	case strings.Contains(s, "DATA RACE"):
		rep := s[strings.Index(s, "WARNING: DATA RACE"):]
		if len(rep) > 3000 {
			rep = rep[:3000]
		}
		r.Fail("C11/race-detector-report", "free-running -race pass", map[string]any{"report": rep})
		res["result"] = "DATA RACE"
	case strings.Contains(s, "DISPATCH-FAILURE"):
		i := strings.Index(s, "DISPATCH-FAILURE")
		r.Fail("C11/race-pass/wrong-answer", "free-running -race pass", map[string]any{"report": s[i:min(len(s), i+800)]})
		res["result"] = "wrong answer"
	case err != nil:
		tail := s
		if len(tail) > 1200 {
			tail = tail[len(tail)-1200:]
		}
		r.Internal("race pass could not run: %v: %s", err, tail)
	default:
		res["result"] = "no race reported"
		for _, l := range strings.Split(s, "\n") {
			if strings.HasPrefix(l, "RACEPASS ") {
				res["summary"] = l
			}
		}
	}
	r.Set("race_pass", res)
}

// v2NoReset is a Google V2 message (ProtoReflect only) that has no Reset method.
type v2NoReset struct{ inner *timestamppb.Timestamp }

func (w *v2NoReset) ProtoReflect() protoreflect.Message { return w.inner.ProtoReflect() }

// textStub implements encoding.TextMarshaler only.
type textStub struct {
	text string
	err  error
}

func (t *textStub) MarshalText() ([]byte, error) {
	if t.err != nil {
		return nil, t.err
	}
	return []byte(t.text), nil
}

func guard(f func()) (p string) {
	defer func() {
		if r := recover(); r != nil {
			p = fmt.Sprint(r)
		}
	}()
	f()
	return ""
}

// same compares two messages bit-exactly through reflection (NaN == NaN, unlike the runtimes' Equal).
func same(a, b any) bool {
	return gcore.Diff(gcore.Reflect(a), gcore.Reflect(b)) == ""
}

func kind(s subject) string {
	parts := strings.Split(s.name, "/")
	if parts[0] == "fastmarshal" {
		return parts[0] + "/" + parts[1] + "/" + parts[2] + "." + parts[3]
	}
	return s.name
}

func main() {
	r := ev.Start("C11", "model_checking")
	subs := subjects(r.Thorough())
	fail := func(fn string, s subject, msg string) {
		r.Fail("C11/"+fn+"/"+kind(s), s.name, map[string]any{"subject": s.name, "msg": msg})
	}
	var evals, nontr int64
	for _, s := range subs {
		m := s.mk()
		// MsgType
		var mt csproto.MessageType
		if p := guard(func() { mt = csproto.MsgType(m) }); p != "" || mt != s.cls.mt {
			fail("MsgType", s, fmt.Sprintf("got %d want %d %s", mt, s.cls.mt, p))
		}
		// Marshal / Size
		var cb, rb []byte
		var cerr, rerr error
		var csz int
		if p := guard(func() { cb, cerr = csproto.Marshal(s.mk()); csz = csproto.Size(s.mk()) }); p != "" {
			fail("Marshal-panic", s, p)
			continue
		}
		rb, rerr = s.cls.marshal(s.mk())
		evals += 3
		if (cerr == nil) != (rerr == nil) {
			fail("Marshal", s, fmt.Sprintf("csproto.Marshal err=%v, owning runtime err=%v", cerr, rerr))
			continue
		}
		if cerr != nil {
			continue
		}
		if csz != len(cb) {
			fail("Size", s, fmt.Sprintf("csproto.Size=%d len(csproto.Marshal)=%d", csz, len(cb)))
		}
		// bytes from either side decode to equal messages on either side
		for _, dir := range []struct {
			name string
			b    []byte
			dec  func([]byte, any) error
		}{
			{"csproto-bytes->runtime", cb, s.cls.unmarshal},
			{"runtime-bytes->csproto", rb, func(b []byte, x any) error { return csproto.Unmarshal(b, x) }},
			{"csproto-bytes->csproto", cb, func(b []byte, x any) error { return csproto.Unmarshal(b, x) }},
			{"runtime-bytes->GrpcCodec", rb, func(b []byte, x any) error { return csproto.GrpcCodec{}.Unmarshal(b, x) }},
		} {
			z := s.zero()
			var err error
			if p := guard(func() { err = dir.dec(dir.b, z) }); p != "" || err != nil {
				fail("Unmarshal/"+dir.name, s, fmt.Sprintf("err=%v %s", err, p))
				continue
			}
			evals++
			if !same(s.mk(), z) {
				fail("Unmarshal/"+dir.name, s, "decoded message differs from the original: "+gcore.Diff(gcore.Reflect(s.mk()), gcore.Reflect(z)))
			} else {
				nontr++
			}
		}
		// the destination's previous content must not matter (the owning runtimes' Unmarshal resets first)
		if zb, zerr := s.cls.marshal(s.zero()); zerr == nil {
			for _, dir := range []struct {
				name string
				dec  func([]byte, any) error
			}{
				{"csproto", func(b []byte, x any) error { return csproto.Unmarshal(b, x) }},
				{"GrpcCodec", func(b []byte, x any) error { return csproto.GrpcCodec{}.Unmarshal(b, x) }},
			} {
				for _, in := range []struct {
					what string
					b    []byte
					want func() any
				}{{"own-bytes-into-populated-target", rb, s.mk}, {"empty-message-bytes-into-populated-target", zb, s.zero}} {
					z := s.mk()
					w := s.zero()
					var err, rerr2 error
					if p := guard(func() { err = dir.dec(in.b, z) }); p != "" {
						fail("Unmarshal/"+dir.name+"/"+in.what, s, "panic: "+p)
						continue
					}
					rerr2 = s.cls.unmarshal(in.b, w)
					evals++
					if (err == nil) != (rerr2 == nil) {
						fail("Unmarshal/"+dir.name+"/"+in.what, s, fmt.Sprintf("csproto err=%v, owning runtime err=%v", err, rerr2))
					} else if err == nil && !same(in.want(), z) {
						fail("Unmarshal/"+dir.name+"/"+in.what, s, "result depends on the previous content of the target: "+gcore.Diff(gcore.Reflect(in.want()), gcore.Reflect(z)))
					} else if err == nil {
						nontr++
					}
				}
			}
		}
		if gb, gerr := (csproto.GrpcCodec{}).Marshal(s.mk()); gerr != nil || len(gb) != len(cb) {
			fail("GrpcCodec.Marshal", s, fmt.Sprintf("len %d vs %d err=%v", len(gb), len(cb), gerr))
		}
		// Clone
		var cl any
		if p := guard(func() { cl = csproto.Clone(m) }); p != "" || cl == nil {
			fail("Clone", s, fmt.Sprintf("returned nil / panicked: %s", p))
		} else {
			// the yardstick is the owning runtime's own Clone, not the original: protobuf-go's and gogo's Clone go
			// through Merge, which drops a proto3 scalar holding -0.0 (it compares with == 0)
			if reflect.TypeOf(cl) != reflect.TypeOf(m) || !same(s.cls.clone(m), cl) {
				fail("Clone", s, "clone differs from the runtime's clone")
			}
			if reflect.ValueOf(cl).Pointer() == reflect.ValueOf(m).Pointer() {
				fail("Clone", s, "clone is the same object")
			}
		}
		// MarshalText
		var txt string
		var terr error
		if p := guard(func() { txt, terr = csproto.MarshalText(m) }); p != "" || terr != nil {
			fail("MarshalText", s, fmt.Sprintf("err=%v %s", terr, p))
		} else if s.cls.text != nil {
			if txt != s.cls.text(m) {
				fail("MarshalText", s, fmt.Sprintf("text differs from the runtime's: %q vs %q", txt, s.cls.text(m)))
			}
		} else {
			z := s.zero().(proto.Message)
			if err := prototext.Unmarshal([]byte(txt), z); err != nil || !proto.Equal(z, m.(proto.Message)) {
				fail("MarshalText", s, fmt.Sprintf("prototext of csproto.MarshalText does not parse back to the message: %v", err))
			}
		}
		// Reset
		x := s.mk()
		if p := guard(func() { csproto.Reset(x) }); p != "" {
			fail("Reset", s, "panicked on a supported message: "+p)
		} else if !same(x, s.zero()) {
			fail("Reset", s, "message not empty after Reset")
		}
		evals += 4
	}
	// Equal: all ordered pairs of a representative subset (one populated + one empty value per kind)
	var reps []subject
	seen := map[string]int{}
	for _, s := range subs {
		if seen[kind(s)] < 2 {
			seen[kind(s)]++
			reps = append(reps, s)
		}
	}
	for _, a := range reps {
		for _, b := range reps {
			x, y := a.mk(), b.mk()
			want := false
			if a.cls == b.cls {
				if p := guard(func() { want = a.cls.equal(x, y) }); p != "" {
					continue // the runtime itself cannot compare these two types
				}
			}
			var got bool
			evals++
			if p := guard(func() { got = csproto.Equal(x, y) }); p != "" {
				fail("Equal-panic", a, fmt.Sprintf("Equal(%s, %s): %s", a.name, b.name, p))
			} else if got != want {
				fail("Equal", a, fmt.Sprintf("Equal(%s, %s)=%v, expected %v", a.name, b.name, got, want))
			} else if want {
				nontr++
			}
		}
	}
	// Equal on the SAME pointer and on an equal copy, for every subject: the answer must be the runtime's own (a gogo
	// message holding NaN is not equal to itself; google's Equal says it is)
	var selfPairs int
	for _, a := range subs {
		x, y := a.mk(), a.mk()
		for pi, pair := range [][2]any{{x, x}, {x, y}} {
			var want, got bool
			if p := guard(func() { want = a.cls.equal(pair[0], pair[1]) }); p != "" {
				continue
			}
			evals++
			selfPairs++
			what := map[int]string{0: "same pointer", 1: "equal copy"}[pi]
			if p := guard(func() { got = csproto.Equal(pair[0], pair[1]) }); p != "" {
				fail("Equal-panic", a, fmt.Sprintf("Equal(%s, %s): %s", a.name, what, p))
			} else if got != want {
				fail("Equal-self", a, fmt.Sprintf("Equal(%s, %s)=%v, the runtime says %v", a.name, what, got, want))
			} else if want {
				nontr++
			}
		}
	}
	r.Set("equal_same_pointer_and_copy_pairs", selfPairs)
	r.Set("subjects", len(subs))
	r.Set("equal_pairs", len(reps)*len(reps))
	// Reset: a Google V2 message WITHOUT a Reset method of its own is reset through the runtime; an unsupported value
	// makes Reset panic (documented)
	{
		w := &v2NoReset{&timestamppb.Timestamp{Seconds: 7, Nanos: 9}}
		p := guard(func() { csproto.Reset(w) })
		evals++
		if p != "" || w.inner.Seconds != 0 || w.inner.Nanos != 0 {
			r.Fail("C11/Reset/google-v2-message-without-Reset-method", "v2NoReset", map[string]any{"panic": p, "after": fmt.Sprint(w.inner)})
		}
		if p := guard(func() { csproto.Reset(42) }); p == "" {
			r.Fail("C11/Reset/unsupported-value-does-not-panic", "int", nil)
		}
	}
	// A message STRUCT VALUE (not a pointer) is not a message: Unknown / documented error, and classifying it must not
	// change what the pointer type is classified as afterwards - nor the other way round (the cache is emptied between
	// the two orders, so both "value first" and "pointer first" are seen with a cold cache).
	for _, sj := range reps {
		ptr := sj.mk()
		rv := reflect.ValueOf(ptr)
		if rv.Kind() != reflect.Ptr || rv.Elem().Kind() != reflect.Struct {
			continue
		}
		val := rv.Elem().Interface()
		want := csproto.MsgType(ptr)
		for order := 0; order < 2; order++ {
			vsync.ResetMaps()
			var gotVal, gotPtr csproto.MessageType
			var cl any
			p := guard(func() {
				if order == 0 {
					gotVal = csproto.MsgType(val)
					gotPtr = csproto.MsgType(ptr)
				} else {
					gotPtr = csproto.MsgType(ptr)
					gotVal = csproto.MsgType(val)
				}
				cl = csproto.Clone(val)
			})
			evals++
			if p != "" || gotVal != csproto.MessageTypeUnknown || gotPtr != want || cl != nil {
				r.Fail("C11/struct-value-vs-pointer/"+kind(sj), fmt.Sprintf("%s order=%d", sj.name, order), map[string]any{"MsgType(value)": gotVal, "MsgType(pointer)": gotPtr, "want_pointer": want, "Clone(value)_nil": cl == nil, "panic": p})
			}
		}
	}
	vsync.ResetMaps()
	// text rendering of messages holding unknown fields, lacking a required field, holding invalid UTF-8
	evals += textOnly(r)
	// a value that renders itself (encoding.TextMarshaler): its own text and its own error come back unchanged
	for _, ts := range []*textStub{{text: "self: rendered"}, {text: ""}, {err: errors.New("cannot render")}} {
		var txt string
		var terr error
		p := guard(func() { txt, terr = csproto.MarshalText(ts) })
		evals++
		if p != "" || txt != ts.text || !errors.Is(terr, ts.err) || (ts.err == nil) != (terr == nil) {
			r.Fail("C11/MarshalText/TextMarshaler-stub", fmt.Sprintf("text=%q err=%v", ts.text, ts.err), map[string]any{"got_text": txt, "got_err": fmt.Sprint(terr), "panic": p})
		}
	}
	// unsupported values: documented error / zero result, no panic
	type onlyReset struct{ X int }
	unsupported := []struct {
		name string
		v    any
	}{{"untyped-nil", nil}, {"int", 42}, {"string", "s"}, {"struct-value", struct{ A int }{1}}, {"ptr-to-empty-struct", &struct{}{}}, {"ptr-to-struct", &onlyReset{}},
		{"nil-func", (func())(nil)}, {"map", map[string]int{"a": 1}}, {"slice", []byte{1}}}
	for _, u := range unsupported {
		uf := func(fn, msg string) {
			r.Fail("C11/unsupported/"+fn+"/"+u.name, u.name, map[string]any{"value": u.name, "msg": msg})
		}
		var b []byte
		var err error
		if p := guard(func() { b, err = csproto.Marshal(u.v) }); p != "" || !errors.Is(err, csproto.ErrMarshaler) || b != nil {
			uf("Marshal", fmt.Sprintf("b=%v err=%v %s (want ErrMarshaler)", b, err, p))
		}
		if p := guard(func() { err = csproto.Unmarshal([]byte{8, 1}, u.v) }); p != "" || !errors.Is(err, csproto.ErrUnmarshaler) {
			uf("Unmarshal", fmt.Sprintf("err=%v %s (want ErrUnmarshaler)", err, p))
		}
		var n int
		if p := guard(func() { n = csproto.Size(u.v) }); p != "" || n != 0 {
			uf("Size", fmt.Sprintf("size=%d %s (want 0)", n, p))
		}
		var c any
		if p := guard(func() { c = csproto.Clone(u.v) }); p != "" || c != nil {
			uf("Clone", fmt.Sprintf("clone=%v %s (want nil)", c, p))
		}
		var eq bool
		if p := guard(func() {
			eq = csproto.Equal(u.v, &timestamppb.Timestamp{}) || csproto.Equal(&timestamppb.Timestamp{}, u.v) || csproto.Equal(u.v, u.v)
		}); p != "" || eq {
			uf("Equal", fmt.Sprintf("equal=%v %s (want false)", eq, p))
		}
		var mt csproto.MessageType
		if p := guard(func() { mt = csproto.MsgType(u.v) }); p != "" || mt != csproto.MessageTypeUnknown {
			uf("MsgType", fmt.Sprintf("type=%d %s (want MessageTypeUnknown)", mt, p))
		}
		var terr error
		if p := guard(func() { _, terr = csproto.MarshalText(u.v) }); p != "" || terr == nil {
			uf("MarshalText", fmt.Sprintf("err=%v %s (want an error)", terr, p))
		}
		if p := guard(func() { _, err = csproto.GrpcCodec{}.Marshal(u.v); err = csproto.GrpcCodec{}.Unmarshal(nil, u.v) }); p != "" {
			uf("GrpcCodec", p)
		}
		evals += 8
	}
	// typed-nil message pointers: no panic in any function (results follow the owning runtime)
	for _, tn := range []struct {
		name string
		v    any
	}{{"googlev2", (*timestamppb.Timestamp)(nil)}, {"gogo", (*gogodesc.FieldOptions)(nil)}, {"googlev1", (*LegacyPlain)(nil)}} {
		for fn, f := range map[string]func(){
			"Marshal": func() { _, _ = csproto.Marshal(tn.v) }, "Size": func() { _ = csproto.Size(tn.v) }, "MsgType": func() { _ = csproto.MsgType(tn.v) },
			"Equal": func() { _ = csproto.Equal(tn.v, tn.v) }, "MarshalText": func() { _, _ = csproto.MarshalText(tn.v) },
		} {
			evals++
			if p := guard(f); p != "" {
				r.Fail("C11/typed-nil/"+fn+"/"+tn.name, tn.name, map[string]any{"msg": p})
			}
		}
	}
	if (csproto.GrpcCodec{}).Name() != "proto" {
		r.Fail("C11/GrpcCodec.Name", "name", nil)
	}
	if !bytes.Equal([]byte("proto"), []byte(csproto.GrpcCodec{}.Name())) {
		r.Internal("unreachable")
	}

	// ---- schedule clause: all interleavings of the first classification of a never-seen type
	type scen struct {
		name    string
		threads int
		mk      func() any
		want    csproto.MessageType
	}
	scens := []scen{
		{"2 threads/googlev2 Timestamp", 2, func() any { return &timestamppb.Timestamp{Seconds: 1} }, csproto.MessageTypeGoogle},
		{"3 threads/googlev2 Timestamp", 3, func() any { return &timestamppb.Timestamp{Seconds: 1} }, csproto.MessageTypeGoogle},
		{"3 threads/gogo FieldOptions", 3, func() any { return &gogodesc.FieldOptions{} }, csproto.MessageTypeGogo},
		{"3 threads/googlev1 LegacyPlain", 3, func() any { return &LegacyPlain{Id: ptr(int64(3))} }, csproto.MessageTypeGoogleV1},
		{"3 threads/unsupported int", 3, func() any { return 7 }, csproto.MessageTypeUnknown},
	}
	if r.Thorough() {
		scens = append(scens, scen{"4 threads/googlev1 LegacyBare", 4, func() any { return &LegacyBare{N: ptr(int32(1))} }, csproto.MessageTypeGoogleV1})
	}
	for _, sc := range scens {
		sc := sc
		mk := func() vsync.Harness {
			vsync.ResetMaps() // the classification cache is process-global
			var bodies []func()
			for t := 0; t < sc.threads; t++ {
				t := t
				bodies = append(bodies, func() {
					m := sc.mk()
					switch t % 4 {
					case 0:
						if got := csproto.MsgType(m); got != sc.want {
							vsync.Failf("first-classification/MsgType", "T%d MsgType=%d want %d", t, got, sc.want)
						}
					case 1:
						c := csproto.Clone(m)
						if (c == nil) != (sc.want == csproto.MessageTypeUnknown) {
							vsync.Failf("first-classification/Clone", "T%d Clone returned nil=%v for class %d", t, c == nil, sc.want)
						}
					case 2:
						if got := csproto.Equal(m, sc.mk()); got != (sc.want != csproto.MessageTypeUnknown) {
							vsync.Failf("first-classification/Equal", "T%d Equal(m, copy)=%v for class %d", t, got, sc.want)
						}
					case 3:
						_ = csproto.HasExtension(m, 42)
						if got := csproto.MsgType(m); got != sc.want {
							vsync.Failf("first-classification/MsgType-after-HasExtension", "T%d MsgType=%d want %d", t, got, sc.want)
						}
					}
				})
			}
			return vsync.Harness{Threads: bodies, Final: func() {
				if got := csproto.MsgType(sc.mk()); got != sc.want {
					vsync.Failf("first-classification/final-cache-entry", "cached class %d want %d", got, sc.want)
				}
			}}
		}
		st := vsync.Explore(vsync.Config{Preemptions: 1 << 20, Deviations: 0}, mk)
		r.Traces(st.Execs)
		r.States(st.Points)
		r.Transitions(st.Points)
		r.AddTo("schedule_executions/"+sc.name, st.Execs)
		if st.Diverged > 0 {
			// not a verdict by itself: the free-running race pass below decides whether the hidden state is a race
			r.Cap(fmt.Sprintf("scenario %s: %d executions did not reproduce their prefix (%s): the code under test keeps state across executions outside the scheduler's view; exploration of this scenario is incomplete", sc.name, st.Diverged, st.DivergedExample))
		}
		for sig, n := range st.FailsBySig {
			x := st.FailExample[sig]
			tr := vsync.RunOne(x.Choices(), mk)
			r.Fail("C11/"+sig, sc.name+fmt.Sprint(x.Choices()), map[string]any{"scenario": sc.name, "choices": x.Choices(), "failures": x.Fails, "trace": tr.Trace, "executions_failing": n})
		}
		if sc.threads == 3 && strings.Contains(sc.name, "Timestamp") {
			ex := vsync.RunOne([]int{1, 0, 2}, mk)
			r.Sample(map[string]any{"scenario": sc.name, "choices": ex.Choices(), "trace": ex.Trace})
		}
	}
	vsync.ResetMaps()
	racePass(r)
	r.Evals(evals)
	r.Nontrivial(nontr)
	r.Set("text_only_subjects", "messages holding unknown fields, lacking a required field, holding invalid UTF-8 (plain and fast-marshal, every flavour): csproto.MarshalText == the owning runtime's rendering (Google V2: modulo runs of white space)")
	r.Sample(map[string]any{"subject": subs[0].name, "functions": "MsgType, Marshal, Size, Unmarshal x4 directions, GrpcCodec, Clone, MarshalText, Reset, Equal(all ordered pairs)"})
	r.Rule("Mode X: every subject (fast-marshal corpus types Scalars/Repeated/Packed/Oneofs/MapsV/Child/Empty of p2 and p3 for gogo, legacy v1, gv2, gv1 over every 7th (thorough: every) single-field/special value tree; plain messages without fast-marshal methods: google v2 well-known types and descriptor, gogo descriptor types, gogo self-marshaling types, hand-written Google V1 messages with and without XXX_ methods) x every API function, differential against the owning runtime called directly; Equal over all ordered pairs of two representatives per kind incl. cross-runtime pairs; 9 unsupported values and 3 typed-nil pointers x every function (documented error / zero result, no panic; Reset excepted). Mode S: for each scenario ALL interleavings (unbounded preemptions) of 2-4 goroutines calling MsgType / Clone / Equal / HasExtension on a type whose cache entry was removed before the execution; scheduling points = every sync.Map operation of message_types.go; oracle = every goroutine sees the correct class and the final cache entry is correct. states/transitions = scheduling points executed, traces = complete executions. distinct_nontrivial = decode directions / equal pairs that compared equal.")
	r.Assume("data races inside sync.Map itself are the Go runtime's business; the cooperative scheduler explores orders of its operations (sequential consistency)")
	r.Finish()
}
