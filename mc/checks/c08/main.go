// C08: generated Unmarshal is total on arbitrary bytes; no silent disagreement with the reference.
package main

import "verif/mc/checks/gen"

func main() {
	gen.Main("C08", "exploration",
		"seeds = canonical reference encodings of every corpus value tree (as C04) for every corpus type x runtime; mutations, ALL of them: truncation at every offset; at every offset each replacement byte from {00,01,7F,80,FF,b^01,b^80,b+1,b-1,0A,0D} (seeds <= 96 bytes); at every length prefix (top level and one level down) each inflation {+1,x2,0x7F,2^14,2^31-1,2^31,2^32,2^63,2^64-1} with a per-case TotalAlloc budget of 64*len+64KiB; plus every byte string of length <= 3 (thorough 4) over a 16-symbol wire alphabet against every type. Oracle: no panic, no worker death under an 8 GiB address-space limit (a death is attributed to the executing case), allocation within budget, and whenever both the generated Unmarshal and the reference runtime accept the input the two decoded trees are equal. distinct_nontrivial = inputs accepted by both sides whose trees were compared. ROUND 7 ADDITIONS: every legal encoding variant of every tree is an input as well; after every Unmarshal, accepted or rejected, the caller's buffer holds what it held before.",
		"the generated code may accept inputs the reference rejects and vice versa: only agreement on commonly accepted inputs is required",
		"both-accept disagreements caused by already triaged decoding mechanisms (map-entry shape, duplicated singular message field, unsupported extension shapes) are attributed by a structural classifier of the input and matched against known findings; everything else is reported")
}
