package main

import (
	"bytes"
	"fmt"
	"runtime"
	"strings"
	"sync/atomic"
	"unicode"
	"unicode/utf8"

	"github.com/CrowdStrike/csproto/prototest"

	"verif/mc/lib/ev"
)

// ---------------------------------------------------------------- generator side

var (
	hexSymbols = []byte{0x00, 0x0A, 0x3B, 0xA5, 0xFF}
	nibbleGaps = []string{"", " ", "\t"}
	byteGaps   = []string{"", " ", "\t", "\n", "\r\n", "; c\n", " ;3B ff\n"}
	// blank and comment-only lines (and plain indentation) before the first byte
	leadings = []string{"", "\n", "  \t", "; lead ;0A\n", "\r\n;\n \t\n"}
	// after the last byte; includes a comment that is not terminated by a line break
	trailings = []string{"", "\n", " ", " ; c ;FF", "\n; 3B\n\n", "\r\n\t"}
	caseModes = 3 // lower, UPPER, Mixed (first nibble upper, second lower)
)

const hexdigits = "0123456789abcdef"

func nibble(v byte, upper bool) byte {
	c := hexdigits[v&15]
	if upper && c >= 'a' {
		c -= 'a' - 'A'
	}
	return c
}

type hexInfo struct {
	Text   string `json:"text"`
	Want   string `json:"want_bytes,omitempty"`
	Got    string `json:"got_bytes,omitempty"`
	Err    string `json:"error,omitempty"`
	Reason string `json:"reason,omitempty"`
}

func callHex(text string) (b []byte, err error, panicked string) {
	defer func() {
		if p := recover(); p != nil {
			panicked = fmt.Sprint(p)
		}
	}()
	b, err = prototest.ParseAnnotatedHex(text)
	return
}

// hexGenerator: every byte string of length <= 3 over hexSymbols x every layout.
// perByteCase: the case mode is chosen per byte (thorough) instead of once per rendering.
func hexGenerator(r *ev.Run, perByteCase bool) {
	var strs [][]byte
	for n := 0; n <= 3; n++ {
		idx := make([]int, n)
		for {
			b := make([]byte, n)
			for i, x := range idx {
				b[i] = hexSymbols[x]
			}
			strs = append(strs, b)
			i := n - 1
			for ; i >= 0; i-- {
				idx[i]++
				if idx[i] < len(hexSymbols) {
					break
				}
				idx[i] = 0
			}
			if i < 0 {
				break
			}
		}
	}
	var evals, nontriv atomic.Int64
	ev.Parallel(len(strs), runtime.NumCPU(), func(si int) {
		b := strs[si]
		n := len(b)
		ng := make([]int, n) // nibble gap per byte
		bg := make([]int, 0) // byte gap per gap
		cm := make([]int, 1) // case modes
		if n > 1 {
			bg = make([]int, n-1)
		}
		if perByteCase && n > 0 {
			cm = make([]int, n)
		}
		var sb strings.Builder
		var local, localNT int64
		next := func(d []int, base int) bool { // odometer; false when wrapped
			for i := range d {
				d[i]++
				if d[i] < base {
					return true
				}
				d[i] = 0
			}
			return false
		}
		for {
			for {
				for {
					for li, lead := range leadings {
						for ti, trail := range trailings {
							sb.Reset()
							sb.WriteString(lead)
							for i, v := range b {
								mode := cm[0]
								if perByteCase {
									mode = cm[i]
								}
								sb.WriteByte(nibble(v>>4, mode >= 1))
								sb.WriteString(nibbleGaps[ng[i]])
								sb.WriteByte(nibble(v, mode == 1))
								if i < n-1 {
									sb.WriteString(byteGaps[bg[i]])
								}
							}
							sb.WriteString(trail)
							text := sb.String()
							got, err, pan := callHex(text)
							local++
							switch {
							case pan != "":
								r.Fail("hex/render/panic", fmt.Sprintf("%q", text), hexInfo{Text: text, Want: fmt.Sprintf("%x", b), Err: pan})
							case err != nil:
								r.Fail("hex/render/rejected-valid-layout", fmt.Sprintf("%q", text), hexInfo{Text: text, Want: fmt.Sprintf("%x", b), Err: err.Error()})
							case !bytes.Equal(got, b):
								r.Fail("hex/render/wrong-bytes", fmt.Sprintf("%q", text), hexInfo{Text: text, Want: fmt.Sprintf("%x", b), Got: fmt.Sprintf("%x", got)})
							default:
								if n > 0 {
									localNT++
								}
							}
							if si == 100 && li == 3 && ti == 3 && local%977 == 0 && r.WantSample() {
								r.Sample(map[string]string{"part": "hex-generator", "text": text, "bytes": fmt.Sprintf("%x", b)})
							}
						}
					}
					if !next(ng, len(nibbleGaps)) {
						break
					}
				}
				if !next(bg, len(byteGaps)) {
					break
				}
			}
			if !next(cm, caseModes) {
				break
			}
		}
		evals.Add(local)
		nontriv.Add(localNT)
	})
	r.Evals(evals.Load())
	r.Nontrivial(nontriv.Load())
	r.Set("hex_generator_byte_strings", len(strs))
	r.Set("hex_generator_renderings", evals.Load())
}

// ---------------------------------------------------------------- acceptor side

// digits of every case, a non-digit letter, the comment character, the white-space characters (incl. vertical tab), and
// control characters that are NOT white space (NUL, ESC): anything outside digits / white space / comments is rejected
// the bytes C2, A0, 85 make the two-byte white-space runes U+00A0 and U+0085 (white space like any other) as well as
// every way of writing invalid UTF-8 with them (never white space, never hex)
var acceptAlphabet = []byte{'0', 'a', 'F', 'g', ';', ' ', '\t', '\n', 'x', '\v', 0x00, 0x1b, 0xC2, 0xA0, 0x85}

type hexVerdict int

const (
	mustReject hexVerdict = iota
	mustAccept
	eitherLineSplit // a line break splits a byte: line-by-line contract rejects, digit-pair reading accepts
)

func hexVal(c byte) (byte, bool) {
	switch {
	case c >= '0' && c <= '9':
		return c - '0', true
	case c >= 'a' && c <= 'f':
		return c - 'a' + 10, true
	case c >= 'A' && c <= 'F':
		return c - 'A' + 10, true
	}
	return 0, false
}

// refHex is the reference grammar written from the doc comment and the property: hex digit pairs,
// white space, ';' comments running to the end of the line; nothing else.
func refHex(s []byte, digits []byte) (v hexVerdict, out []byte, reason string) {
	digits = digits[:0]
	inComment := false
	lineDigits := 0
	oddLine := false
	for i := 0; i < len(s); {
		c := s[i]
		if c >= utf8.RuneSelf && !inComment {
			// a multi-byte rune outside a comment: white space if Unicode says so, otherwise (incl. invalid UTF-8) not hex
			r, size := utf8.DecodeRune(s[i:])
			i += size
			if r == utf8.RuneError && size == 1 {
				return mustReject, nil, "invalid-char"
			}
			if unicode.IsSpace(r) {
				continue
			}
			return mustReject, nil, "invalid-char"
		}
		i++
		if c == '\n' {
			if lineDigits%2 == 1 {
				oddLine = true
			}
			lineDigits = 0
			inComment = false
			continue
		}
		if inComment {
			continue
		}
		switch c {
		case ';':
			inComment = true
		case ' ', '\t', '\r', '\v', '\f':
		default:
			d, ok := hexVal(c)
			if !ok {
				return mustReject, nil, "invalid-char"
			}
			digits = append(digits, d)
			lineDigits++
		}
	}
	if lineDigits%2 == 1 {
		oddLine = true
	}
	if len(digits)%2 == 1 {
		return mustReject, nil, "odd-digits"
	}
	out = make([]byte, len(digits)/2)
	for i := range out {
		out[i] = digits[2*i]<<4 | digits[2*i+1]
	}
	if oddLine {
		return eitherLineSplit, out, ""
	}
	return mustAccept, out, ""
}

func hexAcceptor(r *ev.Run, maxLen int) {
	na := len(acceptAlphabet)
	// shard on the first two symbols (plus one shard for lengths < 2)
	shards := na*na + 1
	var evals, nontriv, accepted, rejected, either atomic.Int64
	ev.Parallel(shards, runtime.NumCPU(), func(sh int) {
		var local, lnt, lacc, lrej, leither int64
		digits := make([]byte, 0, 16)
		check := func(s []byte) {
			text := string(s)
			verdict, want, reason := refHex(s, digits)
			got, err, pan := callHex(text)
			local++
			id := fmt.Sprintf("%q", text)
			switch {
			case pan != "":
				r.Fail("hex/accept/panic", id, hexInfo{Text: text, Err: pan})
			case verdict == mustReject && err == nil:
				r.Fail("hex/accept/accepted-"+reason, id, hexInfo{Text: text, Got: fmt.Sprintf("%x", got), Reason: reason})
			case verdict == mustAccept && err != nil:
				r.Fail("hex/accept/rejected-valid", id, hexInfo{Text: text, Want: fmt.Sprintf("%x", want), Err: err.Error()})
			case err == nil && !bytes.Equal(got, want):
				r.Fail("hex/accept/wrong-bytes", id, hexInfo{Text: text, Want: fmt.Sprintf("%x", want), Got: fmt.Sprintf("%x", got)})
			}
			switch verdict {
			case mustAccept:
				lacc++
				if len(want) > 0 {
					lnt++
				}
			case mustReject:
				lrej++
			default:
				leither++
			}
			if sh == 12 && local == 4000 && r.WantSample() {
				r.Sample(map[string]any{"part": "hex-acceptor", "text": text, "reference_accepts": verdict == mustAccept, "bytes": fmt.Sprintf("%x", want)})
			}
		}
		if sh == shards-1 {
			check(nil)
			for _, c := range acceptAlphabet {
				check([]byte{c})
			}
			evals.Add(local)
			nontriv.Add(lnt)
			accepted.Add(lacc)
			rejected.Add(lrej)
			either.Add(leither)
			return
		}
		for n := 2; n <= maxLen; n++ {
			s := make([]byte, n)
			s[0], s[1] = acceptAlphabet[sh/na], acceptAlphabet[sh%na]
			idx := make([]int, n-2)
			for {
				for i, x := range idx {
					s[2+i] = acceptAlphabet[x]
				}
				check(s)
				i := len(idx) - 1
				for ; i >= 0; i-- {
					idx[i]++
					if idx[i] < na {
						break
					}
					idx[i] = 0
				}
				if i < 0 {
					break
				}
			}
		}
		evals.Add(local)
		nontriv.Add(lnt)
		accepted.Add(lacc)
		rejected.Add(lrej)
		either.Add(leither)
	})
	r.Evals(evals.Load())
	r.Nontrivial(nontriv.Load())
	r.Set("hex_acceptor_strings", evals.Load())
	r.Set("hex_acceptor_max_len", maxLen)
	r.Set("hex_acceptor_reference_accepts", accepted.Load())
	r.Set("hex_acceptor_reference_rejects", rejected.Load())
	r.Set("hex_acceptor_line_break_inside_byte_either", either.Load())
}

// hexLongLines: the length-class family. Lines whose length sits at and around every power of two up
// to 2^18 (pure hex digits, spaced hex bytes, and a long comment), each followed by one more line, so
// that a per-line buffer limit or a truncated read shows up as missing bytes.
func hexLongLines(r *ev.Run) {
	var cases, bad int64
	for k := uint(3); k <= 18; k++ {
		for _, L := range []int{1<<k - 1, 1 << k, 1<<k + 1} {
			for _, style := range []string{"digits", "spaced", "comment"} {
				var text []byte
				var want []byte
				switch style {
				case "digits":
					n := L / 2
					for i := 0; i < n; i++ {
						b := byte(i*7 + 1)
						text = append(text, nibble(b>>4, false), nibble(b&15, i%2 == 0))
						want = append(want, b)
					}
				case "spaced":
					n := L / 3
					for i := 0; i < n; i++ {
						b := byte(i*5 + 3)
						text = append(text, nibble(b>>4, true), nibble(b&15, false), ' ')
						want = append(want, b)
					}
				case "comment":
					text = append(text, '0', '1', ' ', ';')
					want = append(want, 0x01)
					for len(text) < L {
						text = append(text, 'c')
					}
				}
				text = append(text, "\nAB cd ; tail line\n"...)
				want = append(want, 0xab, 0xcd)
				cases++
				got, err, pan := callHex(string(text))
				id := fmt.Sprintf("hex/long-line/%s/len=%d", style, L)
				switch {
				case pan != "":
					bad++
					r.Fail("hex/long-line/panic", id, map[string]any{"panic": pan})
				case err != nil:
					bad++
					r.Fail("hex/long-line/rejected-valid", id, map[string]any{"error": err.Error(), "line_length": L})
				case string(got) != string(want):
					bad++
					r.Fail("hex/long-line/wrong-bytes", id, map[string]any{"got_len": len(got), "want_len": len(want), "line_length": L})
				}
			}
		}
	}
	r.Evals(cases)
	r.Nontrivial(cases - bad)
	r.Set("hex_long_line_cases", cases)
	r.Sample(map[string]any{"hex_long_line": "one line of 65536 hex digits followed by 'AB cd ; tail line'", "expect": "32768 + 2 bytes"})
}
