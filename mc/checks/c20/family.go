package main

import (
	"fmt"
	"sort"
	"strconv"
	"strings"

	"verif/mc/lib/refwire"
)

// dcase is one protodump case: input bytes and the requested paths, plus how the paths are spelled on
// the command line (one flag argument per element of eArgs / sArgs).
type dcase struct {
	data         []byte
	expand, strs pathSet
	eArgs, sArgs []string
	label        string
}

func (c *dcase) id() string {
	return fmt.Sprintf("input=%x expand=%v strings=%v", c.data, c.eArgs, c.sArgs)
}

type space interface {
	Name() string
	N() int
	At(i int) dcase
}

func pathString(p []int) string {
	ss := make([]string, len(p))
	for i, t := range p {
		ss[i] = strconv.Itoa(t)
	}
	return strings.Join(ss, ".")
}

// spell renders a path list as flag arguments: joined with commas into one argument, or one argument each.
func spell(ps pathSet, joined bool) []string {
	if len(ps) == 0 {
		return nil
	}
	ss := make([]string, len(ps))
	for i, p := range ps {
		ss[i] = pathString(p)
	}
	if joined {
		return []string{strings.Join(ss, ",")}
	}
	return ss
}

// ---------------------------------------------------------------- all short byte strings

var wireAlphabet = []byte{0x00, 0x01, 0x02, 0x04, 0x05, 0x08, 0x09, 0x0A, 0x0B, 0x0D, 0x12, 0x7F, 0x80, 0x81, 0xFE, 0xFF}

type pathCfg struct {
	name         string
	expand, strs pathSet
	joined       bool
}

// every path of length 1..3 over the LEN field numbers the alphabet can produce (0A -> 1, 12 -> 2)
func allPaths12() pathSet {
	var out pathSet
	var rec func(p []int)
	rec = func(p []int) {
		if len(p) > 0 {
			out = append(out, append([]int{}, p...))
		}
		if len(p) == 3 {
			return
		}
		for _, t := range []int{1, 2} {
			rec(append(p, t))
		}
	}
	rec(nil)
	return out
}

var byteCfgs = []pathCfg{
	{name: "none"},
	{name: "expand-all", expand: allPaths12(), joined: true},
	{name: "strings-top", strs: pathSet{{1}, {2}}, joined: false},
	{name: "mixed", expand: pathSet{{1}, {1, 2}, {2, 1}}, strs: pathSet{{2}, {1, 1}}, joined: false},
	{name: "expand-2-only", expand: pathSet{{2}, {1, 1}}, joined: true},
}

type bytesSpace struct {
	maxLen int
	starts []int // starts[n] = index of the first string of length n
	total  int
}

func newBytesSpace(maxLen int) *bytesSpace {
	s := &bytesSpace{maxLen: maxLen}
	cnt := 1
	for n := 0; n <= maxLen; n++ {
		s.starts = append(s.starts, s.total)
		s.total += cnt
		cnt *= len(wireAlphabet)
	}
	return s
}

func (s *bytesSpace) Name() string { return "bytes" }
func (s *bytesSpace) N() int       { return s.total * len(byteCfgs) }
func (s *bytesSpace) At(i int) dcase {
	cfg := &byteCfgs[i%len(byteCfgs)]
	si := i / len(byteCfgs)
	n := 0
	for n+1 < len(s.starts) && s.starts[n+1] <= si {
		n++
	}
	x := si - s.starts[n]
	data := make([]byte, n)
	for j := n - 1; j >= 0; j-- {
		data[j] = wireAlphabet[x%len(wireAlphabet)]
		x /= len(wireAlphabet)
	}
	return dcase{data: data, expand: cfg.expand, strs: cfg.strs,
		eArgs: spell(cfg.expand, cfg.joined), sArgs: spell(cfg.strs, !cfg.joined), label: cfg.name}
}

// ---------------------------------------------------------------- value trees

type tfield struct {
	num  int
	kind int // refwire wire type; Len with sub != nil is a nested message
	u    uint64
	s    string
	sub  []tfield
}

func vi(n int, v uint64) tfield  { return tfield{num: n, kind: refwire.Varint, u: v} }
func f32(n int, v uint32) tfield { return tfield{num: n, kind: refwire.Fixed32, u: uint64(v)} }
func f64(n int, v uint64) tfield { return tfield{num: n, kind: refwire.Fixed64, u: v} }
func str(n int, s string) tfield { return tfield{num: n, kind: refwire.Len, s: s} }
func msg(n int, m []tfield) tfield {
	if m == nil {
		m = []tfield{}
	}
	return tfield{num: n, kind: refwire.Len, sub: m}
}

func encodeTree(m []tfield) []byte {
	var b []byte
	for _, f := range m {
		b = refwire.AppendKey(b, f.num, f.kind)
		switch f.kind {
		case refwire.Varint:
			b = refwire.AppendVarint(b, f.u)
		case refwire.Fixed32:
			b = refwire.AppendFixed32(b, uint32(f.u))
		case refwire.Fixed64:
			b = refwire.AppendFixed64(b, f.u)
		case refwire.Len:
			if f.sub != nil {
				b = refwire.AppendBytes(b, encodeTree(f.sub))
			} else {
				b = refwire.AppendBytes(b, []byte(f.s))
			}
		}
	}
	return b
}

func leafMsgs() [][]tfield {
	return [][]tfield{
		{},
		{vi(1, 1)},
		{vi(1, ^uint64(0)), str(2, "hi")}, // 10-byte varint; "hi" = 68 69 is itself a well-formed message (field 13)
		{f32(3, 0xFFFFFFFE), f64(1, 1<<63|1), str(2, "")},
		{str(2, "a\nb"), str(2, "zz")},                    // repeated path; a line break inside a string
		{str(2, "50%_off %d%% %s"), vi(1, 7)},             // characters that mean something to a formatter
		{vi(2, 300), str(2, "tag: 9, wire type: varint")}, // one number with two wire types; text imitating the output
	}
}

// treeLevel returns the message family of nesting depth <= d.
func treeLevel(d int) [][]tfield {
	leaves := leafMsgs()
	if d <= 1 {
		return leaves
	}
	prev := treeLevel(d - 1)
	out := append([][]tfield{}, leaves...)
	for _, m := range prev {
		out = append(out, []tfield{msg(2, m)})
	}
	for _, m := range prev {
		out = append(out, []tfield{vi(1, 1), msg(3, m), str(2, "hi")})
	}
	for i := range leaves {
		out = append(out, []tfield{msg(2, leaves[i]), msg(2, leaves[(i+1)%len(leaves)])})
	}
	return out
}

// lenPaths lists the distinct paths of LEN fields (strings and nested messages) and of all other fields.
func collectPaths(m []tfield, prefix []int, lens, others map[string][]int) {
	for _, f := range m {
		p := append(append([]int{}, prefix...), f.num)
		if f.kind == refwire.Len {
			lens[pathString(p)] = p
			if f.sub != nil {
				collectPaths(f.sub, p, lens, others)
			}
		} else {
			others[pathString(p)] = p
		}
	}
}

func sortedPaths(m map[string][]int) pathSet {
	keys := make([]string, 0, len(m))
	for k := range m {
		keys = append(keys, k)
	}
	sort.Strings(keys)
	out := make(pathSet, len(keys))
	for i, k := range keys {
		out[i] = m[k]
	}
	return out
}

type treeMsg struct {
	data  []byte
	cands pathSet // present LEN paths + one absent + one non-LEN (or second absent) + one over-long
	first int     // index of its first case
	count int     // 4^len(cands)
}

type treeSpace struct {
	msgs  []treeMsg
	total int
}

func newTreeSpace(depth, maxCands int) *treeSpace {
	s := &treeSpace{}
	seen := map[string]bool{}
	for _, m := range treeLevel(depth) {
		data := encodeTree(m)
		if seen[string(data)] {
			continue
		}
		seen[string(data)] = true
		lens, others := map[string][]int{}, map[string][]int{}
		collectPaths(m, nil, lens, others)
		cands := sortedPaths(lens)
		// over-long: one level below the deepest present LEN path (below the top if there is none)
		deepest := []int{}
		for _, p := range cands {
			if len(p) > len(deepest) {
				deepest = p
			}
		}
		overlong := append(append([]int{}, deepest...), 1)
		// a path to a field that is present but not length-delimited (else a second absent one)
		nonLen := []int{5}
		if o := sortedPaths(others); len(o) > 0 {
			nonLen = o[0]
		}
		cands = append(cands, []int{7} /* absent */, nonLen, overlong)
		if len(cands) > maxCands {
			panic(fmt.Sprintf("tree message %x has %d candidate paths (max %d)", data, len(cands), maxCands))
		}
		tm := treeMsg{data: data, cands: cands, first: s.total, count: 1 << (2 * uint(len(cands)))}
		s.total += tm.count
		s.msgs = append(s.msgs, tm)
	}
	return s
}

func (s *treeSpace) Name() string { return "trees" }
func (s *treeSpace) N() int       { return s.total }
func (s *treeSpace) At(i int) dcase {
	mi := sort.Search(len(s.msgs), func(k int) bool { return s.msgs[k].first > i }) - 1
	tm := &s.msgs[mi]
	x := i - tm.first
	c := dcase{data: tm.data, label: "tree"}
	for _, p := range tm.cands {
		d := x & 3
		x >>= 2
		if d&1 != 0 {
			c.expand = append(c.expand, p)
		}
		if d&2 != 0 {
			c.strs = append(c.strs, p)
		}
	}
	joined := i%2 == 0
	if (i/2)%2 == 1 { // the order in which the paths are given must not matter
		for a, b := 0, len(c.expand)-1; a < b; a, b = a+1, b-1 {
			c.expand[a], c.expand[b] = c.expand[b], c.expand[a]
		}
		for a, b := 0, len(c.strs)-1; a < b; a, b = a+1, b-1 {
			c.strs[a], c.strs[b] = c.strs[b], c.strs[a]
		}
	}
	c.eArgs, c.sArgs = spell(c.expand, joined), spell(c.strs, !joined)
	return c
}

// ---------------------------------------------------------------- wildcard paths (0 = every field at that level)

type listSpace struct {
	name  string
	cases []dcase
}

func (s *listSpace) Name() string   { return s.name }
func (s *listSpace) N() int         { return len(s.cases) }
func (s *listSpace) At(i int) dcase { return s.cases[i] }

func newWildcardSpace(depth int) *listSpace {
	s := &listSpace{name: "wildcard"}
	cfgs := []struct{ e, s pathSet }{
		{e: pathSet{{0}}},
		{e: pathSet{{0}, {0, 0}}},
		{e: pathSet{{0}, {0, 0}, {0, 0, 0}}},
		{e: pathSet{{2}, {2, 0}}},
		{e: pathSet{{0}, {0, 2}}},
		{s: pathSet{{0}}},
		{e: pathSet{{0}}, s: pathSet{{0, 0}}},
		{e: pathSet{{3}, {2}}, s: pathSet{{3, 0}, {2, 0}}},
		// a specific path and a wildcard path of the same length that covers it, in both orders, and a path given twice:
		// what is selected is the union of the paths, whatever the order in which the flags arrive
		{e: pathSet{{3}, {0}}},
		{e: pathSet{{0}, {3}}},
		{e: pathSet{{2}, {0}}, s: pathSet{{2, 1}, {0, 0}}},
		{e: pathSet{{0}, {2}}, s: pathSet{{0, 0}, {2, 1}}},
		{s: pathSet{{3}, {0}}},
		{s: pathSet{{1}, {2}, {0}}},
		{e: pathSet{{0}, {3, 1}, {0, 0}}},
		{e: pathSet{{2}, {2}, {3}}, s: pathSet{{2, 2}, {2, 2}}},
		{e: pathSet{{3}, {2, 0}, {2}, {0, 3}}},
	}
	seen := map[string]bool{}
	for _, m := range treeLevel(depth) {
		data := encodeTree(m)
		if seen[string(data)] {
			continue
		}
		seen[string(data)] = true
		for _, cf := range cfgs {
			s.cases = append(s.cases, dcase{data: data, expand: cf.e, strs: cf.s, eArgs: spell(cf.e, false), sArgs: spell(cf.s, true), label: "wildcard"})
		}
	}
	return s
}
