// C20: prototest.ParseAnnotatedHex and cmd/protodump, decided by exhaustive enumeration on the real code.
//
//	hex, generator side: every byte string <= 3 over {00,0A,3B,A5,FF} x every layout -> must parse back to the bytes
//	hex, acceptor side:  every string <= L over {0 a F g ; SP TAB LF x} -> accepted iff the reference grammar accepts
//	protodump:           dumpProto (through a test binary built with an injected virtual _test.go file) on every
//	                     byte string <= L over a 16-symbol wire alphabet x path configurations, and on a family of
//	                     value-tree messages x every subset of expand/strings paths; output parsed into entries and
//	                     compared with a reference walk built on lib/refwire; plus the real binary for the
//	                     documented invocations (-file, redirected stdin, piped stdin, malformed input).
//
// Everything is rebuilt from $VERIF_REPO (default /repo) at every run.
package main

import (
	"bufio"
	_ "embed"
	"encoding/hex"
	"encoding/json"
	"fmt"
	"os"
	"os/exec"
	"path/filepath"
	"runtime"
	"strings"
	"sync"
	"sync/atomic"

	"verif/mc/lib/ev"
)

//go:embed driver_test.go.txt
var driverSource []byte

// checkWildcard: the doc comment of tagPath says "A value of 0 is used to indicate that the path applies to
// all fields at that level"; the wildcard sub-enumeration holds protodump to that sentence.
const checkWildcard = true

func repoDir() string {
	if d := os.Getenv("VERIF_REPO"); d != "" {
		return d
	}
	return "/repo"
}

func goEnv() []string {
	env := []string{}
	for _, kv := range os.Environ() {
		k := strings.SplitN(kv, "=", 2)[0]
		switch k {
		case "GOFLAGS", "GOPROXY", "GOSUMDB", "GOTOOLCHAIN":
		default:
			env = append(env, kv)
		}
	}
	return append(env, "GOFLAGS=-mod=mod", "GOPROXY=off", "GOSUMDB=off", "GOTOOLCHAIN=local")
}

type builds struct{ dir, driver, protodump string }

func build(r *ev.Run) (*builds, bool) {
	b := &builds{dir: filepath.Join(ev.VerifDir(), "build", "runs", fmt.Sprintf("c20.%d", os.Getpid()))}
	if err := os.MkdirAll(b.dir, 0o755); err != nil {
		r.Internal("cannot create run directory: %v", err)
		return b, false
	}
	repo := repoDir()
	src := filepath.Join(b.dir, "zz_verif_driver_test.go")
	if err := os.WriteFile(src, driverSource, 0o644); err != nil {
		r.Internal("cannot write driver source: %v", err)
		return b, false
	}
	ov, _ := json.Marshal(map[string]any{"Replace": map[string]string{filepath.Join(repo, "cmd/protodump/zz_verif_driver_test.go"): src}})
	ovPath := filepath.Join(b.dir, "overlay.json")
	if err := os.WriteFile(ovPath, ov, 0o644); err != nil {
		r.Internal("cannot write overlay: %v", err)
		return b, false
	}
	b.driver = filepath.Join(b.dir, "c20dump")
	b.protodump = filepath.Join(b.dir, "protodump")
	var wg sync.WaitGroup
	errs := make([]string, 2)
	run := func(i int, args ...string) {
		defer wg.Done()
		cmd := exec.Command("go", args...)
		cmd.Dir = repo
		cmd.Env = goEnv()
		if out, err := cmd.CombinedOutput(); err != nil {
			s := string(out)
			if len(s) > 1500 {
				s = s[:1500]
			}
			errs[i] = fmt.Sprintf("go %s: %v: %s", strings.Join(args, " "), err, s)
		}
	}
	wg.Add(2)
	go run(0, "test", "-c", "-vet=off", "-overlay", ovPath, "-o", b.driver, "./cmd/protodump")
	go run(1, "build", "-o", b.protodump, "./cmd/protodump")
	wg.Wait()
	for _, e := range errs {
		if e != "" {
			r.Internal("BUILD-ERROR (driver or protodump does not compile): %s", e)
			return b, false
		}
	}
	return b, true
}

// ---------------------------------------------------------------- driving dumpProto

type driverCase struct {
	D string   `json:"d"`
	E []string `json:"e"`
	S []string `json:"s"`
}

type driverRes struct {
	I      int    `json:"i"`
	O      []byte `json:"o"`
	HasErr bool   `json:"x"`
	Err    string `json:"e"`
	Panic  string `json:"p"`
	SetErr string `json:"se"`
}

type dumpInfo struct {
	Input   string   `json:"input_hex"`
	Expand  []string `json:"expand_args"`
	Strings []string `json:"strings_args"`
	Output  string   `json:"output"`
	Err     string   `json:"returned_error"`
	Class   string   `json:"class"`
	Msg     string   `json:"msg"`
	Ref     []string `json:"reference_entries,omitempty"`
	RefErr  string   `json:"reference_error,omitempty"`
}

type stats struct {
	cases, nontrivial, withRecursion, expectErr, entries, overlapBoth atomic.Int64
}

type judge struct {
	r        *ev.Run
	st       *stats
	wildcard bool // this space requests paths containing 0
}

func (j *judge) fail(sig string, c *dcase, res *driverRes, class, msg string, ref *refOut) {
	info := dumpInfo{Input: hex.EncodeToString(c.data), Expand: c.eArgs, Strings: c.sArgs, Output: clipN(string(res.O), 1200), Err: res.Err, Class: class, Msg: msg}
	if ref != nil {
		for _, e := range ref.entries {
			info.Ref = append(info.Ref, e.String())
		}
		if ref.err {
			info.RefErr = ref.reason
		}
	}
	j.r.Fail(sig, c.id(), info)
}

func clipN(s string, n int) string {
	if len(s) > n {
		return s[:n] + "..."
	}
	return s
}

func (j *judge) check(c *dcase, res *driverRes) {
	j.st.cases.Add(1)
	if res.Panic != "" {
		j.fail("protodump/dumpProto/panic", c, res, "panic", res.Panic, nil)
		return
	}
	if res.SetErr != "" {
		if strings.HasPrefix(res.SetErr, "driver:") {
			j.r.Internal("driver: %s (%s)", res.SetErr, c.id())
			return
		}
		j.fail("protodump/flag/valid-path-rejected", c, res, "flag", res.SetErr, nil)
		return
	}
	got, perr := parseOutput(res.O)
	strict := refDump(c.data, refCfg{expand: c.expand, strs: c.strs, wildcard: j.wildcard})
	if perr != nil {
		j.fail("protodump/output/unparseable", c, res, "unparseable", perr.Error(), strict)
		return
	}
	if strict.err {
		j.st.expectErr.Add(1)
	}
	if strict.recursions > 0 {
		j.st.withRecursion.Add(1)
	}
	if len(strict.entries) > 0 {
		j.st.nontrivial.Add(1)
		j.st.entries.Add(int64(len(strict.entries)))
	}
	class, msg := compare(got, res.HasErr, strict)
	if class == "" {
		return
	}
	// undocumented: a path requested both as string and for expansion -> accept string-then-recursion too
	if strict.overlapHit {
		alt := refDump(c.data, refCfg{expand: c.expand, strs: c.strs, wildcard: j.wildcard, bothRecurse: true})
		if cl, _ := compare(got, res.HasErr, alt); cl == "" {
			j.st.overlapBoth.Add(1)
			return
		}
	}
	// classification of two specific deviations (they do not hide other differences: the alternative
	// reference must match completely)
	for _, both := range []bool{false, true} {
		if j.wildcard {
			alt := refDump(c.data, refCfg{expand: c.expand, strs: c.strs, wildcard: false, bothRecurse: both})
			if cl, _ := compare(got, res.HasErr, alt); cl == "" {
				j.fail("protodump/paths/wildcard-0-not-honoured", c, res, class, "output equals the reference only if 0 in a requested path is taken literally; tagPath's doc comment says 0 applies to all fields at that level. "+msg, strict)
				return
			}
		}
		alt := refDump(c.data, refCfg{expand: c.expand, strs: c.strs, wildcard: j.wildcard, allowZero: true, bothRecurse: both})
		if alt.zeroKeys > 0 {
			if cl, _ := compare(got, res.HasErr, alt); cl == "" {
				j.fail("protodump/malformed/field-number-0-accepted", c, res, class, "a key with field number 0 is printed as a field instead of being reported as malformed. "+msg, strict)
				return
			}
		}
	}
	j.fail("protodump/dumpProto/"+class, c, res, class, msg, strict)
}

// runSpace feeds every case of sp to driver processes (one contiguous index range each) and judges the results.
func runSpace(r *ev.Run, b *builds, sp space, workers int, j *judge) {
	n := sp.N()
	if n == 0 {
		return
	}
	if workers > n {
		workers = 1
	}
	ev.Parallel(workers, workers, func(w int) {
		lo, hi := n*w/workers, n*(w+1)/workers
		if lo == hi {
			return
		}
		cmd := exec.Command(b.driver, "-test.run", "^TestVerifDriver$", "-test.count=1", "-test.timeout=0")
		cmd.Env = append(os.Environ(), "VERIF_C20_IN=/dev/stdin", "VERIF_C20_OUT=/dev/fd/3", "GOMAXPROCS=2", "GOTRACEBACK=single")
		stdin, err := cmd.StdinPipe()
		if err != nil {
			r.Internal("driver stdin: %v", err)
			return
		}
		pr, pw, err := os.Pipe()
		if err != nil {
			r.Internal("driver pipe: %v", err)
			return
		}
		cmd.ExtraFiles = []*os.File{pw}
		var errb strings.Builder
		var outb strings.Builder
		cmd.Stderr = &errb
		cmd.Stdout = &outb
		if err := cmd.Start(); err != nil {
			r.Internal("cannot start driver: %v", err)
			return
		}
		pw.Close()
		go func() {
			bw := bufio.NewWriterSize(stdin, 1<<16)
			enc := json.NewEncoder(bw)
			for i := lo; i < hi; i++ {
				c := sp.At(i)
				e, s := c.eArgs, c.sArgs
				if e == nil {
					e = []string{}
				}
				if s == nil {
					s = []string{}
				}
				if enc.Encode(driverCase{D: hex.EncodeToString(c.data), E: e, S: s}) != nil {
					break
				}
			}
			bw.Flush()
			stdin.Close()
		}()
		sc := bufio.NewScanner(pr)
		sc.Buffer(make([]byte, 1<<16), 1<<26)
		i := lo
		for ; i < hi && sc.Scan(); i++ {
			var res driverRes
			if err := json.Unmarshal(sc.Bytes(), &res); err != nil || res.I != i-lo {
				r.Internal("driver protocol error at %s case %d: %v %q", sp.Name(), i, err, clipN(sc.Text(), 200))
				break
			}
			c := sp.At(i)
			j.check(&c, &res)
			if (i-lo) == 1000+97*w && r.WantSample() {
				r.Sample(map[string]any{"part": "protodump/" + sp.Name(), "input_hex": hex.EncodeToString(c.data), "expand": c.eArgs, "strings": c.sArgs,
					"output": clipN(string(res.O), 400), "returned_error": res.Err})
			}
		}
		pr.Close()
		werr := cmd.Wait()
		if i < hi {
			// the driver died (fatal error, os.Exit, ...) while working on case i
			c := sp.At(i)
			tail := errb.String() + outb.String()
			if strings.Contains(tail, "fatal error") || strings.Contains(tail, "panic:") || strings.Contains(tail, "goroutine ") {
				j.fail("protodump/dumpProto/crash", &c, &driverRes{}, "crash", clipN(tail, 1500), nil)
			} else {
				r.Internal("driver stopped at %s case %d (%s): %v: %s", sp.Name(), i, c.id(), werr, clipN(tail, 800))
			}
		} else if werr != nil {
			r.Internal("driver exit: %v: %s", werr, clipN(errb.String()+outb.String(), 800))
		}
	})
}

func main() {
	r := ev.Start("C20", "exploration")
	ev.BigHeap(1 << 30)
	workers := runtime.NumCPU()
	if workers > 16 {
		workers = 16
	}

	// ---- part 1: annotated hex (in-process, real prototest package from the module replace)
	hexGenerator(r, r.Thorough())
	hexAcceptor(r, ev.Pick(r, 6, 7))
	hexLongLines(r)

	// ---- part 2: protodump
	b, ok := build(r)
	defer os.RemoveAll(b.dir)
	if ok {
		st := &stats{}
		bs := newBytesSpace(ev.Pick(r, 4, 5))
		runSpace(r, b, bs, workers, &judge{r: r, st: st})
		r.Set("protodump_byte_string_cases", bs.N())
		r.Set("protodump_byte_string_max_len", bs.maxLen)
		r.Set("protodump_byte_string_path_configs", len(byteCfgs))

		ts := newTreeSpace(ev.Pick(r, 2, 3), ev.Pick(r, 7, 8))
		runSpace(r, b, ts, workers, &judge{r: r, st: st})
		r.Set("protodump_tree_messages", len(ts.msgs))
		r.Set("protodump_tree_cases", ts.N())

		if checkWildcard {
			ws := newWildcardSpace(3)
			runSpace(r, b, ws, workers, &judge{r: r, st: st, wildcard: true})
			r.Set("protodump_wildcard_cases", ws.N())
		}
		r.Evals(st.cases.Load())
		r.Nontrivial(st.nontrivial.Load())
		r.Set("protodump_cases_reference_malformed", st.expectErr.Load())
		r.Set("protodump_cases_with_recursion", st.withRecursion.Load())
		r.Set("protodump_entries_compared", st.entries.Load())
		r.Set("protodump_string_and_expand_same_path_recursed", st.overlapBoth.Load())

		cliChecks(r, b)
	}
	os.RemoveAll(b.dir)

	r.Rule("hex generator: every byte string of length <= 3 over {00,0A,3B,A5,FF} x every nibble gap {none,SP,TAB} x every byte gap {none,SP,TAB,LF,CRLF,'; c'LF,' ;3B ff'LF} x case {lower,UPPER,Mixed; per byte in thorough} x 5 leading x 6 trailing blank/comment layouts; ParseAnnotatedHex must return exactly the bytes (non-trivial: >= 1 byte). " +
		"hex acceptor: every string of length <= 6 (thorough 7) over {0,a,F,g,;,SP,TAB,LF,x}; reference grammar = hex-digit pairs, white space, ';' comments to end of line (non-trivial: reference accepts >= 1 byte). " +
		"protodump: dumpProto driven through a test binary built from the current repository with an injected _test.go (flags parsed by the real tagPaths.Set): every byte string of length <= 4 (thorough 5) over the 16-symbol wire alphabet x 5 path configurations; value-tree messages (tags 1-3; varint, fixed32, fixed64, strings, nested messages to depth 2 / thorough 3) x every pair (expand subset, strings subset) of {LEN paths present} + {absent, non-LEN, over-long}; output parsed into (depth, field number, wire type, value) entries and compared with a reference walk over lib/refwire (non-trivial: reference has >= 1 entry). " +
		"CLI: real binary, -file / redirected stdin / piped stdin on valid messages, malformed inputs must exit non-zero without a Go panic trace.")
	r.Assume("line breaks in the hex generator are placed between whole bytes only (the doc comment decodes line by line); in the acceptor a line break inside a byte may be rejected or decoded, both accepted")
	r.Assume("a path requested both with -strings and -expand is undocumented: string only, or string followed by recursion, are both accepted")
	r.Assume("varint/fixed values may be printed signed or unsigned; indentation widths are free as long as nesting is consistent")
	r.Assume("group wire types (3,4) and 6,7 are outside csproto's supported wire types: an error is required, as for any malformed input")
	r.Finish()
}
