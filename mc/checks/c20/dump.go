package main

import (
	"bytes"
	"fmt"
	"regexp"
	"strconv"
	"strings"

	"verif/mc/lib/refwire"
)

// entry is one field as printed by protodump / as found by the reference, in print (= wire) order.
type entry struct {
	Depth  int
	Num    int64
	WT     int    // 0,1,2,5; -1: the printed wire type name is not one of the four known names
	WTName string // as printed
	Kind   string // "", "varint", "fixed32", "fixed64", "bytes", "string"  ("" = header only)
	U      uint64
	Neg    bool // printed with a minus sign
	B      []byte
	Len    int // declared by the "length:" line; -1 if none
}

func (e entry) String() string {
	s := fmt.Sprintf("depth=%d field=%d wt=%d", e.Depth, e.Num, e.WT)
	switch e.Kind {
	case "":
		return s + " (no value)"
	case "bytes", "string":
		return s + fmt.Sprintf(" %s len=%d %x", e.Kind, e.Len, e.B)
	}
	return s + fmt.Sprintf(" %s=%d", e.Kind, e.U)
}

var wtNames = map[string]int{"varint": 0, "fixed64": 1, "length-delimited": 2, "fixed32": 5}

// ---------------------------------------------------------------- tolerant parser of protodump's output

var headerRE = regexp.MustCompile(`^tag:\s*(-?\d+)\s*,\s*wire type:\s*(.*?)\s*$`)

// parseOutput reads protodump's text: header lines "tag: N, wire type: NAME" followed by indented value
// lines ("varint: v" | "fixed32: v" | "fixed64: v" | "length: n" then "string: <n raw bytes>" or
// "[0x..,0x..]"). Nesting depth is derived from the indentation of header lines (any consistent widths).
func parseOutput(out []byte) ([]entry, error) {
	var es []entry
	var indents []int // indentation of the enclosing header levels
	pos := 0
	for pos < len(out) {
		// indentation
		ind := 0
		for pos < len(out) && (out[pos] == ' ' || out[pos] == '\t') {
			ind++
			pos++
		}
		if pos >= len(out) {
			break
		}
		rest := out[pos:]
		if bytes.HasPrefix(rest, []byte("string:")) {
			if len(es) == 0 {
				return es, fmt.Errorf("value line before any header at byte %d", pos)
			}
			cur := &es[len(es)-1]
			if cur.Len < 0 || cur.Kind != "" {
				return es, fmt.Errorf("string line without a preceding length line at byte %d", pos)
			}
			p := pos + len("string:")
			if p < len(out) && out[p] == ' ' {
				p++
			}
			if p+cur.Len > len(out) || p+cur.Len == len(out) || out[p+cur.Len] != '\n' {
				return es, fmt.Errorf("string value at byte %d is not %d bytes followed by a line break", p, cur.Len)
			}
			cur.Kind = "string"
			cur.B = append([]byte{}, out[p:p+cur.Len]...)
			pos = p + cur.Len + 1
			continue
		}
		nl := bytes.IndexByte(rest, '\n')
		if nl < 0 {
			return es, fmt.Errorf("unterminated line at byte %d: %q", pos, clip(string(rest)))
		}
		line := strings.TrimRight(string(rest[:nl]), " \t\r")
		pos += nl + 1
		if line == "" {
			continue
		}
		if m := headerRE.FindStringSubmatch(line); m != nil {
			for len(indents) > 0 && indents[len(indents)-1] > ind {
				indents = indents[:len(indents)-1]
			}
			if len(indents) == 0 || indents[len(indents)-1] < ind {
				indents = append(indents, ind)
			}
			num, err := strconv.ParseInt(m[1], 10, 64)
			if err != nil {
				return es, fmt.Errorf("bad field number in %q", line)
			}
			e := entry{Depth: len(indents) - 1, Num: num, WTName: m[2], WT: -1, Len: -1}
			if wt, ok := wtNames[strings.ToLower(m[2])]; ok {
				e.WT = wt
			}
			es = append(es, e)
			continue
		}
		if len(es) == 0 {
			return es, fmt.Errorf("value line before any header: %q", clip(line))
		}
		cur := &es[len(es)-1]
		key, val, hasColon := strings.Cut(line, ":")
		val = strings.TrimSpace(val)
		switch {
		case hasColon && (key == "varint" || key == "fixed32" || key == "fixed64"):
			if cur.Kind != "" {
				return es, fmt.Errorf("second value line for one field: %q", clip(line))
			}
			if strings.HasPrefix(val, "-") {
				v, err := strconv.ParseInt(val, 10, 64)
				if err != nil {
					return es, fmt.Errorf("bad number in %q", clip(line))
				}
				cur.U, cur.Neg = uint64(v), true
			} else {
				v, err := strconv.ParseUint(val, 10, 64)
				if err != nil {
					return es, fmt.Errorf("bad number in %q", clip(line))
				}
				cur.U = v
			}
			cur.Kind = key
		case hasColon && key == "length":
			n, err := strconv.Atoi(val)
			if err != nil || n < 0 || cur.Len >= 0 || cur.Kind != "" {
				return es, fmt.Errorf("bad length line %q", clip(line))
			}
			cur.Len = n
		case strings.HasPrefix(line, "[") && strings.HasSuffix(line, "]"):
			if cur.Kind != "" {
				return es, fmt.Errorf("second value line for one field: %q", clip(line))
			}
			cur.Kind = "bytes"
			cur.B = []byte{}
			inner := strings.TrimSpace(line[1 : len(line)-1])
			if inner != "" {
				for _, t := range strings.Split(inner, ",") {
					t = strings.TrimSpace(t)
					if len(t) < 3 || (t[:2] != "0x" && t[:2] != "0X") {
						return es, fmt.Errorf("bad byte %q in %q", t, clip(line))
					}
					v, err := strconv.ParseUint(t[2:], 16, 8)
					if err != nil {
						return es, fmt.Errorf("bad byte %q in %q", t, clip(line))
					}
					cur.B = append(cur.B, byte(v))
				}
			}
		default:
			return es, fmt.Errorf("unrecognised line %q", clip(line))
		}
	}
	return es, nil
}

func clip(s string) string {
	if len(s) > 80 {
		return s[:80] + "..."
	}
	return s
}

// ---------------------------------------------------------------- reference walk

type pathSet [][]int

// matches: same length and equal element-wise; with wildcard, a 0 in the requested path matches every
// field number at that level (doc comment of tagPath).
func (ps pathSet) matches(p []int, wildcard bool) bool {
	for _, q := range ps {
		if len(q) == 0 || len(q) != len(p) {
			continue
		}
		ok := true
		for i := range q {
			if q[i] != p[i] && !(wildcard && q[i] == 0) {
				ok = false
				break
			}
		}
		if ok {
			return true
		}
	}
	return false
}

type refCfg struct {
	expand, strs pathSet
	wildcard     bool // 0 in a requested path is a wildcard (documented) / a literal (false)
	allowZero    bool // treat field number 0 as an ordinary field (NOT the wire format; used to classify)
	bothRecurse  bool // a path requested as string AND expand: false = string only, true = string then recursion
}

type refOut struct {
	entries []entry
	err     bool   // the input (or a payload whose expansion was requested) is malformed
	partial *entry // header of the field at which the error occurs, if its key is readable
	reason  string
	// facts about the walk, used for classification / counters
	zeroKeys   int // field-number-0 keys met (allowZero) or the error is a field-number-0 key
	overlapHit bool
	recursions int
	maxDepth   int
}

const maxFieldNumber = 1<<29 - 1

func (o *refOut) walk(b []byte, path []int, depth int, cfg *refCfg) bool {
	if depth > o.maxDepth {
		o.maxDepth = depth
	}
	off := 0
	for off < len(b) {
		k, kn, err := refwire.ConsumeVarint(b[off:])
		if err != nil {
			o.err, o.reason = true, "key: "+err.Error()
			return false
		}
		num, wt := k/8, int(k%8)
		if num == 0 && k != 0 {
			o.zeroKeys++
		}
		if num > maxFieldNumber || k == 0 || (num == 0 && !cfg.allowZero) {
			o.err, o.reason = true, fmt.Sprintf("invalid field number %d", num)
			return false
		}
		hdr := entry{Depth: depth, Num: int64(num), WT: wt, Len: -1}
		vs := off + kn
		pl, err := refwire.PayloadLen(b[vs:], wt)
		if err != nil {
			o.err, o.reason = true, fmt.Sprintf("field %d wire type %d: %v", num, wt, err)
			o.partial = &hdr
			return false
		}
		// cross-check with the library's own field parser where it applies
		if num != 0 {
			f, ferr := refwire.ConsumeField(b, off)
			if ferr != nil || f.Num != int(num) || f.WT != wt || f.End != vs+pl {
				panic(fmt.Sprintf("reference walk disagrees with refwire.ConsumeField on %x at %d", b, off))
			}
		}
		e := hdr
		switch wt {
		case refwire.Varint:
			e.Kind = "varint"
			e.U, _, _ = refwire.ConsumeVarint(b[vs:])
		case refwire.Fixed32:
			e.Kind = "fixed32"
			v, _, _ := refwire.ConsumeFixed32(b[vs:])
			e.U = uint64(v)
		case refwire.Fixed64:
			e.Kind = "fixed64"
			e.U, _, _ = refwire.ConsumeFixed64(b[vs:])
		case refwire.Len:
			_, ln, _ := refwire.ConsumeVarint(b[vs:])
			payload := b[vs+ln : vs+pl]
			e.B, e.Len = payload, len(payload)
			p := append(append(make([]int, 0, len(path)+1), path...), int(num))
			isStr := cfg.strs.matches(p, cfg.wildcard)
			isExp := cfg.expand.matches(p, cfg.wildcard)
			if isStr {
				e.Kind = "string"
			} else {
				e.Kind = "bytes"
			}
			if isStr && isExp {
				o.overlapHit = true
			}
			o.entries = append(o.entries, e)
			if isExp && (!isStr || cfg.bothRecurse) {
				o.recursions++
				if !o.walk(payload, p, depth+1, cfg) {
					return false
				}
			}
			off = vs + pl
			continue
		default:
			panic("unreachable: PayloadLen accepted an unsupported wire type")
		}
		o.entries = append(o.entries, e)
		off = vs + pl
	}
	return true
}

func refDump(data []byte, cfg refCfg) *refOut {
	o := &refOut{}
	o.walk(data, nil, 0, &cfg)
	return o
}

// ---------------------------------------------------------------- comparison

func sameEntry(g, e entry) string {
	switch {
	case g.Depth != e.Depth:
		return "wrong-depth"
	case g.Num != e.Num:
		return "wrong-field-number"
	case g.WT != e.WT:
		return "wrong-wire-type"
	case g.Kind == "":
		return "missing-value"
	case g.Kind != e.Kind:
		if (g.Kind == "string" || g.Kind == "bytes") && (e.Kind == "string" || e.Kind == "bytes") {
			return "string-vs-bytes-rendering"
		}
		return "value-kind-differs-from-wire-type"
	}
	switch e.Kind {
	case "varint", "fixed64":
		if g.U != e.U {
			return "wrong-value"
		}
	case "fixed32":
		if g.Neg {
			if int64(g.U) < -1<<31 || uint32(g.U) != uint32(e.U) {
				return "wrong-value"
			}
		} else if g.U != e.U {
			return "wrong-value"
		}
	case "bytes", "string":
		if g.Len != e.Len {
			return "wrong-length"
		}
		if !bytes.Equal(g.B, e.B) {
			return "wrong-value"
		}
	}
	return ""
}

// compare returns "" if the observed behaviour (entries, error) is what the reference demands, else a
// short class name plus a human-readable explanation.
func compare(got []entry, gotErr bool, ref *refOut) (class, msg string) {
	E := ref.entries
	for i := 0; i < len(E) && i < len(got); i++ {
		if d := sameEntry(got[i], E[i]); d != "" {
			// a header-only last entry in place of a complete one
			if d == "wrong-depth" {
				if got[i].Depth > E[i].Depth {
					d = "recursed-into-unrequested-path"
				} else if i > 0 && E[i].Depth > E[i-1].Depth {
					d = "no-recursion-into-requested-path"
				}
			}
			return d, fmt.Sprintf("entry %d: got {%v}, reference {%v}", i, got[i], E[i])
		}
	}
	if len(got) < len(E) {
		i := len(got)
		d := "missing-entry"
		if i > 0 && E[i].Depth > E[i-1].Depth {
			d = "no-recursion-into-requested-path"
		}
		return d, fmt.Sprintf("%d entries printed, reference has %d; first missing {%v}", len(got), len(E), E[i])
	}
	extra := got[len(E):]
	if !ref.err {
		if len(extra) > 0 {
			d := "extra-entry"
			if len(E) > 0 && extra[0].Depth > E[len(E)-1].Depth {
				d = "recursed-into-unrequested-path"
			}
			return d, fmt.Sprintf("%d entries printed, reference has %d; first extra {%v}", len(got), len(E), extra[0])
		}
		if gotErr {
			return "error-on-well-formed", "reference parses the input (and every expanded payload) completely"
		}
		return "", ""
	}
	// malformed: the well-formed prefix, optionally the header of the field that cannot be read, then an error
	if len(extra) > 1 {
		return "extra-entry-after-malformed-point", fmt.Sprintf("reference stops after %d entries (%s); got %d; first extra {%v}", len(E), ref.reason, len(got), extra[0])
	}
	if len(extra) == 1 {
		x := extra[0]
		p := ref.partial
		switch {
		case p == nil:
			return "entry-for-unreadable-key", fmt.Sprintf("reference: %s; got entry {%v}", ref.reason, x)
		case x.Kind != "":
			return "value-for-unreadable-field", fmt.Sprintf("reference: %s; got entry {%v}", ref.reason, x)
		case x.Depth != p.Depth || x.Num != p.Num:
			return "wrong-header-at-malformed-point", fmt.Sprintf("reference: %s at depth %d; got header {%v}", ref.reason, p.Depth, x)
		case x.WT != -1 && x.WT != p.WT:
			return "wrong-wire-type", fmt.Sprintf("reference: %s; got header {%v}", ref.reason, x)
		}
	}
	if !gotErr {
		return "no-error-on-malformed", "reference: " + ref.reason
	}
	return "", ""
}
