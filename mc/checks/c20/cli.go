package main

import (
	"bytes"
	"encoding/hex"
	"fmt"
	"os"
	"os/exec"
	"path/filepath"
	"strings"
	"syscall"

	"verif/mc/lib/ev"
)

type cliInfo struct {
	Command string `json:"command"`
	Input   string `json:"input_hex"`
	Exit    int    `json:"exit_status"`
	Stdout  string `json:"stdout"`
	Stderr  string `json:"stderr"`
	Msg     string `json:"msg"`
}

func shellQuote(s string) string { return "'" + strings.ReplaceAll(s, "'", `'\''`) + "'" }

// cliChecks runs the built binary the way the usage text documents it.
func cliChecks(r *ev.Run, b *builds) {
	type cliCase struct {
		m            []tfield
		expand, strs pathSet
	}
	inner := []tfield{vi(1, 150), str(2, "in"), f32(3, 7)}
	valid := []cliCase{
		{m: []tfield{vi(1, 1)}},
		{m: []tfield{vi(1, ^uint64(0)), str(2, "hi"), f64(3, 1<<63|1)}, strs: pathSet{{2}}},
		{m: []tfield{f32(3, 0xFFFFFFFE), msg(2, inner), str(1, "a\nb")}, expand: pathSet{{2}}, strs: pathSet{{2, 2}, {1}}},
		{m: []tfield{msg(3, []tfield{msg(3, inner), vi(1, 2)}), msg(2, nil)}, expand: pathSet{{3}, {3, 3}, {2}}, strs: pathSet{{3, 3, 2}}},
		{m: []tfield{msg(3, []tfield{msg(3, inner)}), str(2, "x")}, expand: pathSet{{3, 3}}}, // parent not requested: no recursion at all
	}
	malformed := []struct {
		hexs   string
		expand pathSet
	}{
		{"08", nil},                       // varint value missing
		{"0a0501", nil},                   // declared length exceeds the data
		{"0b00", nil},                     // start-group wire type
		{"0d0102", nil},                   // truncated fixed32
		{"090102030405", nil},             // truncated fixed64
		{"ffffffffffffffffffffff", nil},   // key varint longer than 10 bytes
		{"0801" + "0a0208", pathSet{{1}}}, // nested payload malformed, expansion requested
		{"00", nil},                       // key 0
		{"0801ff", nil},                   // trailing truncated key after a good field
	}
	var n, nt int64
	flags := func(expand, strs pathSet) []string {
		var a []string
		for _, e := range spell(expand, false) {
			a = append(a, "-expand", e)
		}
		for _, s := range spell(strs, true) {
			a = append(a, "-strings", s)
		}
		return a
	}
	run := func(shell string) (stdout, stderr string, exit int, crashed bool) {
		cmd := exec.Command("sh", "-c", shell)
		cmd.Env = append(os.Environ(), "GOTRACEBACK=single")
		var o, e bytes.Buffer
		cmd.Stdout, cmd.Stderr = &o, &e
		err := cmd.Run()
		exit = 0
		if err != nil {
			exit = -1
			if ee, ok := err.(*exec.ExitError); ok {
				exit = ee.ExitCode()
				if ws, ok := ee.Sys().(syscall.WaitStatus); ok && ws.Signaled() {
					crashed = true
				}
			}
		}
		stderr = e.String()
		if strings.Contains(stderr, "panic:") || strings.Contains(stderr, "goroutine ") || strings.Contains(stderr, "fatal error:") {
			crashed = true
		}
		return o.String(), stderr, exit, crashed
	}
	bin := shellQuote(b.protodump)
	for ci, c := range valid {
		data := encodeTree(c.m)
		f := filepath.Join(b.dir, fmt.Sprintf("valid%d.bin", ci))
		if err := os.WriteFile(f, data, 0o644); err != nil {
			r.Internal("cannot write %s: %v", f, err)
			return
		}
		fl := strings.Join(flags(c.expand, c.strs), " ")
		ref := refDump(data, refCfg{expand: c.expand, strs: c.strs})
		if ref.err || len(ref.entries) == 0 {
			r.Internal("CLI case %d is not a valid message for the reference", ci)
			return
		}
		forms := []struct{ name, sh string }{
			{"file-flag", fmt.Sprintf("%s -file %s %s", bin, shellQuote(f), fl)},
			{"redirected-stdin", fmt.Sprintf("%s %s < %s", bin, fl, shellQuote(f))},
			{"piped-stdin", fmt.Sprintf("cat %s | %s %s", shellQuote(f), bin, fl)},
		}
		for _, form := range forms {
			stdout, stderr, exit, crashed := run(form.sh)
			n++
			display := strings.ReplaceAll(strings.ReplaceAll(form.sh, b.protodump, "protodump"), b.dir+"/", "")
			info := cliInfo{Command: display, Input: hex.EncodeToString(data), Exit: exit, Stdout: clipN(stdout, 800), Stderr: clipN(stderr, 800)}
			id := fmt.Sprintf("%s input=%x", display, data)
			switch {
			case crashed:
				info.Msg = "Go panic / fatal error trace"
				r.Fail("protodump/cli/"+form.name+"/crash", id, info)
				continue
			case exit != 0:
				info.Msg = "documented invocation fails on a valid message"
				r.Fail("protodump/cli/"+form.name+"/valid-input-rejected", id, info)
				continue
			}
			got, perr := parseOutput([]byte(stdout))
			if perr != nil {
				info.Msg = perr.Error()
				r.Fail("protodump/cli/"+form.name+"/unparseable-output", id, info)
				continue
			}
			if class, msg := compare(got, false, ref); class != "" {
				info.Msg = msg
				r.Fail("protodump/cli/"+form.name+"/"+class, id, info)
				continue
			}
			nt++
		}
	}
	for ci, c := range malformed {
		data, _ := hex.DecodeString(c.hexs)
		ref := refDump(data, refCfg{expand: c.expand})
		if !ref.err {
			r.Internal("CLI malformed case %d is well-formed for the reference", ci)
			return
		}
		f := filepath.Join(b.dir, fmt.Sprintf("bad%d.bin", ci))
		if err := os.WriteFile(f, data, 0o644); err != nil {
			r.Internal("cannot write %s: %v", f, err)
			return
		}
		fl := strings.Join(flags(c.expand, nil), " ")
		forms := []struct{ name, sh string }{
			{"file-flag", fmt.Sprintf("%s -file %s %s", bin, shellQuote(f), fl)},
			{"redirected-stdin", fmt.Sprintf("%s %s < %s", bin, fl, shellQuote(f))},
		}
		for _, form := range forms {
			stdout, stderr, exit, crashed := run(form.sh)
			n++
			display := strings.ReplaceAll(strings.ReplaceAll(form.sh, b.protodump, "protodump"), b.dir+"/", "")
			info := cliInfo{Command: display, Input: c.hexs, Exit: exit, Stdout: clipN(stdout, 800), Stderr: clipN(stderr, 800)}
			id := fmt.Sprintf("%s input=%s", display, c.hexs)
			switch {
			case crashed:
				info.Msg = "Go panic / fatal error trace on malformed input"
				r.Fail("protodump/cli/"+form.name+"/crash-on-malformed", id, info)
			case exit == 0:
				info.Msg = "exit status 0 on malformed input (reference: " + ref.reason + ")"
				r.Fail("protodump/cli/"+form.name+"/malformed-exit-0", id, info)
			default:
				// the well-formed prefix must still be what the reference finds
				got, perr := parseOutput([]byte(stdout))
				if perr != nil {
					info.Msg = perr.Error()
					r.Fail("protodump/cli/"+form.name+"/unparseable-output", id, info)
				} else if class, msg := compare(got, true, ref); class != "" {
					info.Msg = msg
					r.Fail("protodump/cli/"+form.name+"/"+class, id, info)
				} else {
					nt++
				}
			}
		}
	}
	// nothing to read / nothing that can be read: an error exit, no crash, no entries on stdout
	empty := filepath.Join(b.dir, "empty.bin")
	_ = os.WriteFile(empty, nil, 0o644)
	one := filepath.Join(b.dir, "valid0.bin")
	for _, c := range []struct{ name, sh string }{
		{"empty-file-redirected", fmt.Sprintf("%s < %s", bin, shellQuote(empty))},
		{"missing-file", fmt.Sprintf("%s -file %s", bin, shellQuote(filepath.Join(b.dir, "no-such-file.bin")))},
		{"field-number-above-the-maximum-in-a-path", fmt.Sprintf("%s -expand 536870912 -file %s", bin, shellQuote(one))},
		{"non-numeric-path", fmt.Sprintf("%s -strings 1.x -file %s", bin, shellQuote(one))},
	} {
		stdout, stderr, exit, crashed := run(c.sh)
		n++
		display := strings.ReplaceAll(strings.ReplaceAll(c.sh, b.protodump, "protodump"), b.dir+"/", "")
		info := cliInfo{Command: display, Exit: exit, Stdout: clipN(stdout, 400), Stderr: clipN(stderr, 400)}
		switch {
		case crashed:
			info.Msg = "Go panic / fatal error trace"
			r.Fail("protodump/cli/"+c.name+"/crash", display, info)
		case exit == 0 || strings.Contains(stdout, "tag:"):
			info.Msg = "no usable input, but exit status 0 or entries on stdout"
			r.Fail("protodump/cli/"+c.name+"/not-reported-as-error", display, info)
		default:
			nt++
		}
	}
	// the largest field number is a legal path element and is matched
	{
		big := []tfield{msg(1<<29-1, []tfield{vi(1, 5)}), vi(2, 6)}
		data := encodeTree(big)
		f := filepath.Join(b.dir, "maxtag.bin")
		_ = os.WriteFile(f, data, 0o644)
		sh := fmt.Sprintf("%s -expand 536870911 -file %s", bin, shellQuote(f))
		stdout, stderr, exit, crashed := run(sh)
		n++
		ref := refDump(data, refCfg{expand: pathSet{{1<<29 - 1}}})
		info := cliInfo{Command: "protodump -expand 536870911 -file maxtag.bin", Input: hex.EncodeToString(data), Exit: exit, Stdout: clipN(stdout, 600), Stderr: clipN(stderr, 400)}
		got, perr := parseOutput([]byte(stdout))
		switch {
		case crashed || exit != 0 || perr != nil:
			info.Msg = fmt.Sprintf("crashed=%v parse error=%v", crashed, perr)
			r.Fail("protodump/cli/max-field-number-path/rejected", info.Command, info)
		default:
			if class, msg := compare(got, false, ref); class != "" {
				info.Msg = msg
				r.Fail("protodump/cli/max-field-number-path/"+class, info.Command, info)
			} else {
				nt++
			}
		}
	}
	r.Evals(n)
	r.Nontrivial(nt)
	r.Set("cli_invocations", n)
	r.Set("cli_invocations_as_expected", nt)
}
