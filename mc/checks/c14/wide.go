package main

// Wide definitions: 70 and 130 flat tags at one level (whatever an implementation keeps per tag - a bit mask, a small
// array - runs out at 64 or 128). All sequences of <= 4 complete uses (Decode . read every declared tag . Close) over
// five inputs that use low, high and very high tags with different wire types, on one Decoder per option combination
// {safe, fast} x maxBuffer {unset, 0, 1, 8}: every result exposes its own input only. The pool is the deterministic
// default of the shim (most recently put object first), i.e. every use recycles the previous result.

import (
	"fmt"

	"github.com/CrowdStrike/csproto"
	"github.com/CrowdStrike/csproto/lazyproto"

	"verif/mc/lib/ev"
	"verif/mc/lib/lazyref"
	"verif/mc/lib/refwire"
)

func wideDefinitions(r *ev.Run) {
	var accs []lazyref.Accessor
	for _, a := range lazyref.BuildAccessors() {
		if a.Slice || a.Name == "StringValue" || a.Name == "UInt64Value" {
			accs = append(accs, a)
		}
	}
	key := func(n, wt int) []byte { return refwire.AppendKey(nil, n, wt) }
	vi := func(n int, v uint64) []byte { return refwire.AppendVarint(key(n, 0), v) }
	ln := func(n int, p string) []byte { return refwire.AppendBytes(key(n, 2), []byte(p)) }
	cat := func(ps ...[]byte) []byte {
		var b []byte
		for _, p := range ps {
			b = append(b, p...)
		}
		return b
	}
	var execs, calls int64
	for _, width := range []int{70, 130} {
		var tags []int
		for t := 1; t <= width; t++ {
			tags = append(tags, t)
		}
		def := lazyproto.NewDef(tags...)
		hi, top := 65, width
		inputs := [][]byte{
			cat(vi(1, 11), ln(hi, "a-sixty-five"), ln(top, "a-last"), ln(top, "a-last-again")),
			cat(vi(2, 22)),
			cat(ln(hi, "c-sixty-five"), vi(64, 640), ln(top, "c-last")),
			cat(vi(hi, 6500), vi(top, 1), vi(top, 2), vi(top, 3)), // the high tags with ANOTHER wire type
			cat(vi(63, 630), vi(64, 641), vi(hi, 651), vi(66, 661)),
		}
		var refs []map[int][]lazyref.Occ
		for _, in := range inputs {
			f, ok := lazyref.RefFields(in)
			if !ok {
				r.Internal("wide: bad input")
				return
			}
			refs = append(refs, f)
		}
		for _, mode := range []csproto.DecoderMode{csproto.DecoderModeSafe, csproto.DecoderModeFast} {
			for _, mb := range []int{-1, 0, 1, 8} {
				var seq func(hist []int)
				run := func(hist []int) {
					execs++
					opts := []lazyproto.Option{lazyproto.WithMode(mode)}
					if mb >= 0 {
						opts = append(opts, lazyproto.WithMaxBufferSize(mb))
					}
					dec, err := lazyproto.NewDecoder(def, opts...)
					if err != nil {
						r.Internal("wide: NewDecoder: %v", err)
						return
					}
					id := fmt.Sprintf("wide/%d-tags/%s/maxBuffer=%d/uses=%v", width, mode, mb, hist)
					func() {
						defer func() {
							if p := recover(); p != nil {
								r.Fail(fmt.Sprintf("wide-definition/panic/%s/maxBuffer=%d", mode, mb), id, map[string]any{"panic": fmt.Sprint(p), "uses": hist, "tags": width})
							}
						}()
						for step, in := range hist {
							res, err := dec.Decode(append([]byte{}, inputs[in]...))
							if err != nil {
								r.Fail(fmt.Sprintf("wide-definition/decode-error/%s/maxBuffer=%d", mode, mb), id, map[string]any{"error": err.Error(), "uses": hist, "step": step, "tags": width})
								return
							}
							if sig, msg := lazyref.CheckFlat(res, def, refs[in], accs, tags, &calls); sig != "" {
								r.Fail(fmt.Sprintf("wide-definition/%s/%s/maxBuffer=%d", sig, mode, mb), id, map[string]any{"msg": msg, "uses": hist, "step": step, "tags": width})
								return
							}
							_ = res.Close()
						}
					}()
				}
				seq = func(hist []int) {
					if len(hist) > 0 {
						run(hist)
					}
					if len(hist) == 4 || (!r.Thorough() && len(hist) == 3) {
						return
					}
					for in := range inputs {
						seq(append(append([]int{}, hist...), in))
					}
				}
				seq(nil)
			}
		}
	}
	r.Set("wide_definition_executions", execs)
	r.Set("wide_definition_accessor_calls", calls)
}
