//go:build verifshim

// C14: pooled lazy-decode results are isolated across reuse. Modes Q + E: stateless DFS over every
// operation sequence up to a depth (free driver choices) x every answer sync.Pool may give
// (deviation bounded), on the real lazyproto code whose "sync" import is redirected to the shim.
package main

import (
	"encoding/json"
	"fmt"
	"os"
	"runtime"
	"runtime/debug"
	"strings"

	"github.com/CrowdStrike/csproto"
	"github.com/CrowdStrike/csproto/lazyproto"
	vsync "github.com/CrowdStrike/csproto/zzverif/vsync"

	"verif/mc/lib/ev"
	"verif/mc/lib/lazyref"
	"verif/mc/lib/refwire"
)

type config struct {
	mode      csproto.DecoderMode
	maxBuffer int // -1 unset
	filter    string
}

func (c config) String() string {
	return fmt.Sprintf("mode=%s/maxBuffer=%d/filter=%s", c.mode, c.maxBuffer, c.filter)
}

func allConfigs() []config {
	var out []config
	for _, m := range []csproto.DecoderMode{csproto.DecoderModeSafe, csproto.DecoderModeFast} {
		for _, mb := range []int{-1, 0, 1, 2, 64} {
			for _, f := range []string{"none", "halve", "zero", "identity"} {
				out = append(out, config{m, mb, f})
			}
		}
	}
	return out
}

func (c config) options() []lazyproto.Option {
	opts := []lazyproto.Option{lazyproto.WithMode(c.mode)}
	if c.maxBuffer >= 0 {
		opts = append(opts, lazyproto.WithMaxBufferSize(c.maxBuffer))
	}
	switch c.filter {
	case "halve":
		opts = append(opts, lazyproto.WithBufferFilterFunc(func(n int) int { return n / 2 }))
	case "zero":
		opts = append(opts, lazyproto.WithBufferFilterFunc(func(n int) int { return 0 }))
	case "identity":
		opts = append(opts, lazyproto.WithBufferFilterFunc(func(n int) int { return n }))
	}
	return opts
}

func key(n, wt int) []byte { return refwire.AppendKey(nil, n, wt) }
func vi(n int, v uint64) []byte {
	return refwire.AppendVarint(key(n, 0), v)
}
func ln(n int, p []byte) []byte { return refwire.AppendBytes(key(n, 2), p) }
func cat(parts ...[]byte) []byte {
	var out []byte
	for _, p := range parts {
		out = append(out, p...)
	}
	return out
}

// theDef = {1, 3, -2, 2:{1, 2:{1}}}
func theDef() lazyproto.Def {
	d := lazyproto.NewDef(1, 3, -2)
	n := d.NestedTag(2, 1)
	n.NestedTag(2, 1)
	return d
}

type input struct {
	name  string
	b     []byte
	valid bool
}

// inputs differ in every shape parameter: tag present/absent, repeat counts below and above every
// buffer limit, wire type of tag 1, nested counts 0/1/3/5, empty nested message, malformed tail.
func allInputs() []input {
	nested := func(seed uint64, withInner bool) []byte {
		p := vi(1, seed)
		if withInner {
			p = cat(p, ln(2, vi(1, seed+1000)))
		}
		return p
	}
	var i3 []byte
	for k := 0; k < 40; k++ {
		v := uint64(7000 + k)
		if k%3 == 1 {
			v = 0 // zeros at some positions: a bool scratch slice overwritten by a later result must be noticeable
		}
		i3 = append(i3, vi(1, v)...)
	}
	for k := 0; k < 5; k++ {
		i3 = append(i3, ln(2, nested(uint64(500+k), k%2 == 0))...)
	}
	i3 = append(i3, ln(3, []byte("third-of-i3"))...)
	return []input{
		{"i0:only-string", ln(3, []byte("s0")), true},
		{"i1:one-of-each", cat(vi(1, 11), ln(2, nested(21, true)), ln(3, []byte("s1"))), true},
		{"i2:three", cat(vi(1, 0), vi(1, 102), vi(1, 103), ln(2, nested(201, false)), ln(2, nil), ln(2, nested(203, true)), ln(2, nil)), true}, // an empty nested message in the middle and as the LAST occurrence (what NestedResult returns)
		{"i3:forty-and-five", i3, true},
		{"i4:packed-tag1-empty-nested", cat(ln(1, cat(refwire.AppendVarint(nil, 9), refwire.AppendVarint(nil, 0), refwire.AppendVarint(nil, 300))), ln(2, nil)), true},
		{"i5:malformed-tail", cat(vi(1, 66), vi(1, 67), ln(2, nested(68, true)), []byte{0x1a, 0x7f, 0x01}), false},
		// the outer message is well-formed, the SECOND of three nested elements is not (a key without a value):
		// NestedResults fails half-way, after the first element has been decoded into a pooled result
		{"i6:bad-second-nested", cat(vi(1, 77), ln(2, nested(71, true)), ln(2, []byte{0x08}), ln(2, nested(73, false))), true},
	}
}

type nestedHandle struct {
	res    *lazyproto.DecodeResult
	fields map[int][]lazyref.Occ
}

type handle struct {
	res    *lazyproto.DecodeResult
	in     int
	fields map[int][]lazyref.Occ
	nested []*nestedHandle
	buf    []byte
}

type world struct {
	cfg      config
	dec      *lazyproto.Decoder
	inputs   []input
	accs     []lazyref.Accessor
	live     []*handle
	retained []*lazyref.Retained
	calls    int64
	log      []string
	def      lazyproto.Def
	subDef   lazyproto.Def
	subSub   lazyproto.Def
	reused   bool
}

var tags = []int{1, 2, 3, 4}

func (w *world) fail(sig, format string, a ...any) {
	vsync.Failf(sig, "%s | history: %s", fmt.Sprintf(format, a...), strings.Join(w.log, " ; "))
}

func (w *world) verifyRetained(after string) {
	if w.cfg.mode != csproto.DecoderModeSafe {
		return
	}
	for _, x := range w.retained {
		if m := x.Verify(); m != "" {
			w.fail("safe-mode-value-changed-after-later-op", "after %s: %s", after, m)
			return
		}
	}
}

func (w *world) readAll(h *handle) {
	if sig, msg := lazyref.CheckFlat(h.res, w.def, h.fields, w.accs, tags, &w.calls); sig != "" {
		w.fail("isolation/"+sig, "handle of %s: %s", w.inputs[h.in].name, msg)
	}
	if w.cfg.mode == csproto.DecoderModeSafe {
		for _, t := range []int{1, 2, 3} {
			if x := lazyref.RetainAll(h.res, t, fmt.Sprintf("%s tag %d", w.inputs[h.in].name, t)); !x.Empty() {
				w.retained = append(w.retained, x)
			}
		}
	}
}

func (w *world) readNested(h *handle) {
	for i, nh := range h.nested {
		_ = nh.res.Close() // documented no-op on a nested result
		if sig, msg := lazyref.CheckFlat(nh.res, w.subDef, nh.fields, w.accs, tags[:3], &w.calls); sig != "" {
			w.fail("isolation-nested/"+sig, "nested #%d of %s: %s", i, w.inputs[h.in].name, msg)
		}
		if w.cfg.mode == csproto.DecoderModeSafe {
			if x := lazyref.RetainAll(nh.res, 1, fmt.Sprintf("%s nested %d tag 1", w.inputs[h.in].name, i)); !x.Empty() {
				w.retained = append(w.retained, x)
			}
		}
		// one level deeper
		occs := nh.fields[2]
		nn, err := nh.res.NestedResult(2)
		w.calls++
		if len(occs) == 0 {
			if !lazyref.ClassOK(err, lazyref.ENotFound) {
				w.fail("isolation-nested/NestedResult/wrong-error", "nested #%d of %s has no tag 2 but NestedResult(2) returned (%v, %v)", i, w.inputs[h.in].name, nn != nil, err)
			}
			continue
		}
		if err != nil {
			w.fail("isolation-nested/NestedResult/error", "nested #%d of %s: %v", i, w.inputs[h.in].name, err)
			continue
		}
		sf, _ := lazyref.RefFields(occs[len(occs)-1].Payload)
		if sig, msg := lazyref.CheckFlat(nn, w.subSub, sf, w.accs, tags[:2], &w.calls); sig != "" {
			w.fail("isolation-nested2/"+sig, "nested/nested of %s: %s", w.inputs[h.in].name, msg)
		}
	}
}

type opKind int

const (
	opDecode opKind = iota
	opRead
	opNested
	opNestedAll
	opReadNested
	opClose
)

type op struct {
	k  opKind
	in int
	h  int
}

func (w *world) enabled(maxLive int) []op {
	var ops []op
	if len(w.live) < maxLive {
		for i := range w.inputs {
			ops = append(ops, op{k: opDecode, in: i})
		}
	}
	for hi, h := range w.live {
		ops = append(ops, op{k: opRead, h: hi}, op{k: opNested, h: hi}, op{k: opNestedAll, h: hi})
		if len(h.nested) > 0 {
			ops = append(ops, op{k: opReadNested, h: hi})
		}
		ops = append(ops, op{k: opClose, h: hi})
	}
	return ops
}

func (w *world) apply(o op) {
	switch o.k {
	case opDecode:
		in := w.inputs[o.in]
		buf := append([]byte{}, in.b...)
		w.log = append(w.log, "Decode("+in.name+")")
		res, err := w.dec.Decode(buf)
		w.calls++
		if !in.valid {
			if err == nil {
				// the lazy decoder may legitimately accept what it does not look at; treat as a handle without oracle
				_ = res.Close()
			}
			return
		}
		if err != nil || res == nil {
			w.fail("decode-error-on-valid-input", "Decode(%s): %v", in.name, err)
			return
		}
		if w.cfg.mode == csproto.DecoderModeSafe {
			for i := range buf { // the caller reuses its buffer right away (allowed in safe mode)
				buf[i] = 0xEE
			}
		}
		f, _ := lazyref.RefFields(in.b)
		w.live = append(w.live, &handle{res: res, in: o.in, fields: f, buf: buf})
	case opRead:
		h := w.live[o.h]
		w.log = append(w.log, fmt.Sprintf("ReadAll(h%d)", o.h))
		w.readAll(h)
	case opNested:
		h := w.live[o.h]
		w.log = append(w.log, fmt.Sprintf("Nested(h%d)", o.h))
		occs := h.fields[2]
		nr, err := h.res.NestedResult(2)
		w.calls++
		if len(occs) == 0 {
			if !lazyref.ClassOK(err, lazyref.ENotFound) {
				w.fail("isolation/NestedResult/stale-nested-data", "%s has no tag 2 but NestedResult(2) returned (%v, %v)", w.inputs[h.in].name, nr != nil, err)
			}
			return
		}
		if err != nil || nr == nil {
			w.fail("isolation/NestedResult/error", "%s: NestedResult(2): %v", w.inputs[h.in].name, err)
			return
		}
		sf, _ := lazyref.RefFields(occs[len(occs)-1].Payload)
		h.nested = append(h.nested, &nestedHandle{nr, sf})
	case opNestedAll:
		h := w.live[o.h]
		w.log = append(w.log, fmt.Sprintf("NestedAll(h%d)", o.h))
		occs := h.fields[2]
		nrs, err := h.res.NestedResults(2)
		w.calls++
		if len(occs) == 0 {
			if !lazyref.ClassOK(err, lazyref.ENotFound) {
				w.fail("isolation/NestedResults/stale-nested-data", "%s has no tag 2 but NestedResults(2) returned (%d, %v)", w.inputs[h.in].name, len(nrs), err)
			}
			return
		}
		allOK := true
		for _, o := range occs {
			if _, ok := lazyref.RefFields(o.Payload); !ok {
				allOK = false
			}
		}
		if !allOK {
			// a malformed element: an error is the expected answer (nothing is handed out); if results are handed
			// out nevertheless they are not tracked (their contents are unspecified)
			return
		}
		if err != nil || len(nrs) != len(occs) {
			w.fail("isolation/NestedResults/wrong-count", "%s: NestedResults(2) returned %d results, err %v; reference has %d", w.inputs[h.in].name, len(nrs), err, len(occs))
			return
		}
		for i, nr := range nrs {
			sf, _ := lazyref.RefFields(occs[i].Payload)
			h.nested = append(h.nested, &nestedHandle{nr, sf})
		}
	case opReadNested:
		h := w.live[o.h]
		w.log = append(w.log, fmt.Sprintf("ReadNested(h%d)", o.h))
		w.readNested(h)
		// Close on a nested result belongs to its parent and does nothing (callers that close everything they were handed
		// are common); the nested results must stay readable, and closing the parent later must not release them twice
		for _, nh := range h.nested {
			if err := nh.res.Close(); err != nil {
				w.fail("nested-close-error", "Close of a nested result: %v", err)
			}
			w.calls++
		}
		w.readNested(h)
	case opClose:
		h := w.live[o.h]
		w.log = append(w.log, fmt.Sprintf("Close(h%d)", o.h))
		if err := h.res.Close(); err != nil {
			w.fail("close-error", "Close: %v", err)
		}
		w.calls++
		// a caller that closes everything it was handed may close the nested results AFTER their parent: they belong to
		// the parent (which has just released them), so this is a no-op too - it must not release anything a second time
		for _, nh := range h.nested {
			if err := nh.res.Close(); err != nil {
				w.fail("nested-close-error", "Close of a nested result after its parent: %v", err)
			}
			w.calls++
		}
		w.live = append(w.live[:o.h], w.live[o.h+1:]...)
		// closing one result must leave every OTHER result of the same decoder - and the nested results it handed
		// out - untouched: read them again right away (read-only: no further nested results are requested)
		for _, oh := range w.live {
			if sig, msg := lazyref.CheckFlat(oh.res, w.def, oh.fields, w.accs, tags, &w.calls); sig != "" {
				w.fail("isolation/other-result-changed-by-Close/"+sig, "handle of %s after closing the handle of %s: %s", w.inputs[oh.in].name, w.inputs[h.in].name, msg)
			}
			for i, nh := range oh.nested {
				if sig, msg := lazyref.CheckFlat(nh.res, w.subDef, nh.fields, w.accs, tags[:3], &w.calls); sig != "" {
					w.fail("isolation-nested/other-result-changed-by-Close/"+sig, "nested #%d of %s after closing the handle of %s: %s", i, w.inputs[oh.in].name, w.inputs[h.in].name, msg)
				}
			}
		}
	}
}

func mkHarness(cfg config, inputs []input, depth, maxLive int, calls *int64) func() vsync.Harness {
	var accs []lazyref.Accessor
	for _, a := range lazyref.BuildAccessors() { // every slice accessor (each scratch slice) + three scalar ones; full accessor semantics are C13's business
		if a.Slice || a.Name == "BytesValue" || a.Name == "StringValue" || a.Name == "UInt64Value" {
			accs = append(accs, a)
		}
	}
	def := theDef()
	return func() vsync.Harness {
		w := &world{cfg: cfg, inputs: inputs, accs: accs, def: def, subDef: def[2], subSub: def[2][2]}
		body := func() {
			defer func() {
				if p := recover(); p != nil {
					w.fail("panic", "%v | stack: %s", p, shortStack())
				}
			}()
			dec, err := lazyproto.NewDecoder(def, cfg.options()...)
			if err != nil {
				vsync.Failf("harness", "NewDecoder: %v", err)
				return
			}
			w.dec = dec
			for step := 0; step < depth && maxLive > 0; step++ {
				ops := w.enabled(maxLive)
				k := vsync.ChooseFree("op", len(ops))
				w.apply(ops[k])
				w.verifyRetained(w.log[len(w.log)-1])
			}
			// maxLive < 0 selects the "complete uses" alphabet: every step is one whole use of the decoder - Decode(input),
			// read everything, fetch no / one / all nested results and read them, Close - so that `depth` uses (not `depth`
			// calls) are chained on the same pooled objects: what a use leaves behind in a pooled object shows two uses later
			for step := 0; step < depth && maxLive < 0; step++ {
				k := vsync.ChooseFree("use", len(w.inputs)*3)
				in, kind := k/3, k%3
				do := func(o op) {
					w.apply(o)
					w.verifyRetained(w.log[len(w.log)-1])
				}
				do(op{k: opDecode, in: in})
				if len(w.live) == 0 {
					continue
				}
				do(op{k: opRead, h: 0})
				switch kind {
				case 1:
					do(op{k: opNested, h: 0})
				case 2:
					do(op{k: opNestedAll, h: 0})
				}
				if len(w.live[0].nested) > 0 {
					do(op{k: opReadNested, h: 0})
				}
				do(op{k: opClose, h: 0})
			}
			// epilogue: release everything, then one more decode of every valid input shape on the recycled objects
			for len(w.live) > 0 {
				w.apply(op{k: opClose, h: 0})
				w.verifyRetained("final Close")
			}
			*calls += w.calls
		}
		return vsync.Harness{Threads: []func(){body}}
	}
}

func shortStack() string {
	var keep []string
	for _, l := range strings.Split(string(debug.Stack()), "\n") {
		if strings.Contains(l, "/lazyproto/") || strings.Contains(l, "csproto.") {
			keep = append(keep, strings.TrimSpace(l))
		}
		if len(keep) >= 8 {
			break
		}
	}
	return strings.Join(keep, " <- ")
}

func quickInputs(inputs []input) []input {
	return []input{inputs[0], inputs[1], inputs[2], inputs[3], inputs[5], inputs[6]}
}

func worker(sh *ev.Shard) {
	cfgs := allConfigs()
	inputs := allInputs()
	depth, maxLive, dev := 6, 2, 1
	if sh.Thorough() {
		depth, maxLive, dev = 8, 2, 2
	}
	// quick uses every input but i4; thorough all seven
	use := inputs
	if !sh.Thorough() {
		use = quickInputs(inputs)
	}
	var calls int64
	type plan struct{ depth, maxLive, dev int }
	plans := []plan{{6, 1, 1}, {5, 2, 1}, {3, -1, 1}} // maxLive -1 = sequences of complete uses
	if sh.Thorough() {
		plans = []plan{{7, 1, 2}, {6, 2, 2}, {4, -1, 1}} // (4 uses with <= 1 pool deviation: two deviations over ~25 pool points per execution would be ~10^9 executions)
	}
	_ = depth
	_ = maxLive
	_ = dev
	for ci, cfg := range cfgs {
		if ci%sh.N != sh.Index {
			continue
		}
		for _, pl := range plans {
			d := pl.depth
			if sh.Thorough() && (cfg.maxBuffer == 1 || cfg.maxBuffer == 2) && cfg.filter == "none" && pl.maxLive == 1 {
				d++
			}
			sh.Cur("config", cfg.String())
			mk := mkHarness(cfg, use, d, pl.maxLive, &calls)
			st := vsync.Explore(vsync.Config{Deviations: pl.dev, OnExec: func(*vsync.Exec) { sh.Tick() }}, mk)
			if st.Diverged > 0 {
				sh.Count("replay_diverged", st.Diverged)
			}
			sh.Count("traces", st.Execs)
			sh.Count("transitions", st.Execs*int64(d))
			sh.Count("states", st.Execs)
			sh.Count("evals", st.Execs)
			sh.Count("nontrivial", st.WithReuse)
			sh.Count("executions_recycling_a_pooled_object", st.WithReuse)
			for k, v := range st.ByCost {
				sh.Count(fmt.Sprintf("executions_with_%d_pool_deviations", k[1]), v)
			}
			for sig, n := range st.FailsBySig {
				x := st.FailExample[sig]
				tr := vsync.RunOne(x.Choices(), mkHarness(cfg, use, d, pl.maxLive, new(int64)))
				det := map[string]any{"config": cfg.String(), "depth": d, "max_live": pl.maxLive, "choices": x.Choices(), "failures": x.Fails, "trace": tr.Trace, "executions_failing_with_this_signature": n, "replay_reproduces": len(tr.Fails) > 0}
				sh.Fail(sig+"/"+cfgClass(cfg), fmt.Sprintf("%s depth=%d live=%d choices=%v", cfg, d, pl.maxLive, x.Choices()), det)
			}
			if ci == 5 && pl.maxLive == 1 {
				ex := vsync.RunOne([]int{1, 2, 1}, mk)
				sh.Sample(map[string]any{"config": cfg.String(), "choices": ex.Choices(), "trace": ex.Trace})
			}
		}
	}
	sh.Count("accessor_calls", calls)
	sh.Done()
}

// cfgClass keeps known-finding signatures specific to the option class that matters.
func cfgClass(c config) string {
	mb := "maxBuffer-unset"
	if c.maxBuffer >= 0 {
		mb = fmt.Sprintf("maxBuffer=%d", c.maxBuffer)
	}
	return c.mode.String() + "/" + mb + "/filter=" + c.filter
}

// replay re-executes exactly one recorded execution (configuration + choice sequence) with tracing on.
func replay(path string) {
	b, err := os.ReadFile(path)
	if err != nil {
		fmt.Println("cannot read replay file:", err)
		os.Exit(2)
	}
	var art struct {
		Detail struct {
			Config  string `json:"config"`
			Depth   int    `json:"depth"`
			MaxLive int    `json:"max_live"`
			Choices []int  `json:"choices"`
		} `json:"detail"`
	}
	if err := json.Unmarshal(b, &art); err != nil || art.Detail.Config == "" {
		fmt.Println("not a C14 replay artefact:", err)
		os.Exit(2)
	}
	inputs := allInputs()
	use := quickInputs(inputs)
	if art.Detail.MaxLive == 0 {
		art.Detail.MaxLive = 1
	}
	for _, cfg := range allConfigs() {
		if cfg.String() != art.Detail.Config {
			continue
		}
		for _, in := range [][]input{use, inputs} {
			x := func() (x *vsync.Exec) {
				defer func() {
					if p := recover(); p != nil {
						x = nil
					}
				}()
				return vsync.RunOne(art.Detail.Choices, mkHarness(cfg, in, art.Detail.Depth, art.Detail.MaxLive, new(int64)))
			}()
			if x == nil {
				continue // recorded with the other input set
			}
			for _, l := range x.Trace {
				fmt.Println(l)
			}
			if len(x.Fails) > 0 {
				for _, f := range x.Fails {
					fmt.Printf("FAILURE %s: %s\n", f.Sig, f.Detail)
				}
				fmt.Printf("VIOLATION property=C14 replay=%s\n", path)
				os.Exit(1)
			}
		}
		fmt.Println("replayed execution shows no failure on the current tree")
		os.Exit(0)
	}
	fmt.Println("unknown configuration in replay file")
	os.Exit(2)
}

func main() {
	for i, a := range os.Args {
		if a == "--replay" && i+1 < len(os.Args) {
			replay(os.Args[i+1])
		}
	}
	if sh := ev.ShardFromArgs(); sh != nil {
		worker(sh)
		return
	}
	r := ev.Start("C14", "model_checking")
	r.RunShards(40, runtime.NumCPU(), 8<<30)
	wideDefinitions(r)
	plans := "depth 6 x 1 live handle x <=1 pool deviation; depth 5 x 2 live handles x <=1 deviation"
	if r.Thorough() {
		plans = "depth 7 (8 for maxBuffer in {1,2}) x 1 live handle x <=2 pool deviations; depth 6 x 2 live handles x <=2 deviations"
	}
	r.Set("configs", 40)
	r.Set("bounds", plans)
	r.Rule(fmt.Sprintf("stateless DFS on the real lazyproto code (sync.Pool behind the shim): (wide definitions: 70 and 130 flat tags, all sequences of <= 3 (4) complete uses over five inputs using tags 1, 63..66 and the last with different wire types, {safe, fast} x maxBuffer {unset,0,1,8}) (third alphabet, complete uses: one step = Decode, read all, fetch no / one / all nested results, read them, Close; all sequences of 3 (thorough 4) uses) (after every Close all OTHER live results and the nested results they handed out are re-read at once) every operation sequence (bounds: %s) over {Decode(input) for each input shape, ReadAll, Nested, NestedAll, ReadNested(+Close on nested, +nested-of-nested), Close} x every answer the pools may give (most-recently-put / any older pooled object / fresh) within the deviation bound, for each of 40 option combinations (mode x maxBuffer {unset,0,1,2,64} x filter {none,halve,zero,identity}). Oracle after every step: every accessor of every live handle equals the reference parse of that handle's own input; no panic; in safe mode the caller's buffer is clobbered right after Decode and every value ever handed out is re-verified after every later step. distinct_nontrivial = executions in which a pooled object was actually recycled. One execution = one state sequence; states/transitions count executions and executed operations (no state merging: no sound cheap key exists for aliasing).", plans))
	r.Assume("closing or reading a closed handle is API misuse and outside the alphabet")
	r.Assume("sync.Pool answers of the real runtime are a subset of the enumerated answers")
	r.Finish()
}
