// C17: proto2 required fields are enforced in both directions.
package main

import "verif/mc/checks/gen"

func main() {
	gen.Main("C17", "exploration",
		"every proto2 corpus type with required fields or with message-typed fields whose type has required fields x runtimes: every subset of unset required fields (exhaustive for <= 6 required fields: ReqMix 64 subsets, ReqChild; for the 17-field Required message: none/all/each single/each all-but-one/every subset of the first six), each with and without an additional optional field; nesting positions singular field, list element, map value, oneof member with a deficient (non-empty and completely empty) and a complete nested message; lists and maps of 2-3 elements of which only SOME are deficient, in every order (bad-good, good-bad, good-bad-good, bad-good-good, bad-bad-good); the empty message / empty input. Oracle = reference runtime: Marshal/MarshalTo/csproto.Marshal must return an error iff proto.CheckInitialized(tree) fails; generated Unmarshal of the reference's partial encoding must return an error iff the reference's proto.Unmarshal reports a missing required field. distinct_nontrivial = evaluations where the reference verdict was 'not initialised' and the generated code agreed. ROUND 7-9 ADDITIONS: required fields present with the zero / empty value of their kind; required enum fields holding undefined or negative numbers; runtime-only proto2 children with required fields inside a generated parent (p2desc); deficient messages below a level that has no required field of its own (three-level chains).",
		"the reference verdict is recursive (nested messages reached through set fields, list elements, map values, oneof members)")
}
