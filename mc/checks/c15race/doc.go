// Package c15race holds the free-running race-detector complement of C15 (real sync, no overlay).
package c15race
