package c15race

import (
	"fmt"
	"runtime"
	"sync"
	"sync/atomic"
	"testing"

	"github.com/CrowdStrike/csproto"
	"github.com/CrowdStrike/csproto/lazyproto"
)

// TestStressPass: free-running complement WITHOUT the race detector (whose instrumentation slows atomics down so much
// that narrow windows - an ABA in a lock-free free list, say - are practically never hit): many goroutines, tiny
// messages, hundreds of thousands of Decode / read / Close rounds on one shared Decoder, also with two results alive
// at once per goroutine. Sampling: a failure is a witness, a pass proves nothing.
func TestStressPass(t *testing.T) {
	def := lazyproto.NewDef(1, 2)
	total := int64(0)
	for _, procs := range []int{4, 16} {
		old := runtime.GOMAXPROCS(procs)
		for _, mode := range []csproto.DecoderMode{csproto.DecoderModeSafe, csproto.DecoderModeFast} {
			for _, G := range []int{3, 8, 24} {
				dec, err := lazyproto.NewDecoder(def, lazyproto.WithMode(mode))
				if err != nil {
					t.Fatal(err)
				}
				per := *iters * 2000 / G
				var wg sync.WaitGroup
				var failed atomic.Bool
				for g := 0; g < G; g++ {
					wg.Add(1)
					go func(g int) {
						defer wg.Done()
						bufA, bufB := make([]byte, 0, 32), make([]byte, 0, 32)
						mk := func(buf []byte, a, b uint64) []byte {
							buf = append(buf[:0], vi(1, a)...)
							return append(buf, vi(2, b)...)
						}
						check := func(res *lazyproto.DecodeResult, a, b uint64, what string, it int) bool {
							g1, e1 := res.UInt64Values(1)
							g2, e2 := res.UInt64Values(2)
							if e1 != nil || e2 != nil || len(g1) != 1 || g1[0] != a || len(g2) != 1 || g2[0] != b {
								if failed.CompareAndSwap(false, true) {
									t.Errorf("ISOLATION-FAILURE stress G=%d g=%d it=%d %s: decoded {1:[%#x] 2:[%d]}, read back {1:%#x (%v) 2:%d (%v)}", G, g, it, what, a, b, g1, e1, g2, e2)
								}
								return false
							}
							return true
						}
						for it := 0; it < per && !failed.Load(); it++ {
							a, b := uint64(g)<<32|uint64(it), uint64(g)
							bufA = mk(bufA, a, b)
							res, err := dec.Decode(bufA)
							if err != nil {
								t.Errorf("ISOLATION-FAILURE stress decode: %v", err)
								return
							}
							if it%7 == g%7 {
								runtime.Gosched()
							}
							var res2 *lazyproto.DecodeResult
							if it%5 == 0 { // a second result alive at the same time
								bufB = mk(bufB, a+1, b+100)
								if res2, err = dec.Decode(bufB); err != nil {
									t.Errorf("ISOLATION-FAILURE stress decode: %v", err)
									return
								}
							}
							if !check(res, a, b, "first result", it) {
								return
							}
							if res2 != nil {
								if !check(res2, a+1, b+100, "second result", it) || !check(res, a, b, "first result again", it) {
									return
								}
								_ = res2.Close()
							}
							_ = res.Close()
						}
					}(g)
				}
				wg.Wait()
				total += int64(G * per)
			}
		}
		runtime.GOMAXPROCS(old)
	}
	fmt.Printf("STRESSPASS decode/read/close rounds=%d goroutines={3,8,24} GOMAXPROCS={4,16} modes={safe,fast} (no race detector)\n", total)
}
