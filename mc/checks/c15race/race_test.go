package c15race

import (
	"flag"
	"fmt"
	"runtime"
	"sync"
	"testing"

	"github.com/CrowdStrike/csproto"
	"github.com/CrowdStrike/csproto/lazyproto"

	"verif/mc/lib/lazyref"
	"verif/mc/lib/refwire"
)

var iters = flag.Int("iters", 300, "iterations per goroutine")

func key(n, wt int) []byte      { return refwire.AppendKey(nil, n, wt) }
func vi(n int, v uint64) []byte { return refwire.AppendVarint(key(n, 0), v) }
func ln(n int, p []byte) []byte { return refwire.AppendBytes(key(n, 2), p) }

func mkInput(t, it int) []byte {
	var b []byte
	reps := 1 + (2*t+3*it)%9
	for k := 0; k < reps; k++ {
		b = append(b, vi(1, uint64(10000*(t+1)+100*(it%50)+k))...)
	}
	nn := (t + 2*it) % 4
	for k := 0; k < nn; k++ {
		inner := vi(1, uint64(500000*(t+1)+1000*(it%50)+k))
		if k%2 == 0 {
			inner = append(inner, ln(2, vi(1, uint64(7000000*(t+1)+it)))...)
		}
		if (t+it+k)%3 == 0 {
			inner = nil // an EMPTY nested message: implementations tend to treat it specially (a shared "empty" result?)
		} else if (t+it+k)%5 == 0 {
			inner = append(inner, ln(2, nil)...) // an empty message one level further down
		}
		b = append(b, ln(2, inner)...)
	}
	return append(b, ln(3, []byte(fmt.Sprintf("thread-%d-iteration-%d", t, it)))...)
}

func TestRacePass(t *testing.T) {
	def := lazyproto.NewDef(1, 3, -2)
	n := def.NestedTag(2, 1)
	n.NestedTag(2, 1)
	var accs []lazyref.Accessor
	for _, a := range lazyref.BuildAccessors() {
		if a.Slice || a.Name == "StringValue" || a.Name == "UInt64Value" {
			accs = append(accs, a)
		}
	}
	total := 0
	for _, procs := range []int{1, 2, 16} {
		old := runtime.GOMAXPROCS(procs)
		for _, mode := range []csproto.DecoderMode{csproto.DecoderModeSafe, csproto.DecoderModeFast} {
			for _, mb := range []int{-1, 1} {
				for _, G := range []int{2, 8, 32, 64} {
					opts := []lazyproto.Option{lazyproto.WithMode(mode)}
					if mb >= 0 {
						opts = append(opts, lazyproto.WithMaxBufferSize(mb))
					}
					dec, err := lazyproto.NewDecoder(def, opts...)
					if err != nil {
						t.Fatal(err)
					}
					per := *iters * 8 / G
					if per < 20 {
						per = 20
					}
					var wg sync.WaitGroup
					for g := 0; g < G; g++ {
						wg.Add(1)
						go func(g int) {
							defer wg.Done()
							var calls int64
							for it := 0; it < per; it++ {
								in := mkInput(g, it)
								f, _ := lazyref.RefFields(in)
								buf := append([]byte{}, in...)
								res, err := dec.Decode(buf)
								if err != nil {
									t.Errorf("ISOLATION-FAILURE decode: %v", err)
									return
								}
								if it%3 == 0 {
									runtime.Gosched()
								}
								if sig, msg := lazyref.CheckFlat(res, def, f, accs, []int{1, 2, 3}, &calls); sig != "" {
									t.Errorf("ISOLATION-FAILURE G=%d g=%d it=%d %s: %s", G, g, it, sig, msg)
									return
								}
								if occs := f[2]; len(occs) > 0 {
									nrs, err := res.NestedResults(2)
									if err != nil || len(nrs) != len(occs) {
										t.Errorf("ISOLATION-FAILURE NestedResults: %d, %v (own input has %d)", len(nrs), err, len(occs))
										return
									}
									for i, nr := range nrs {
										sf, _ := lazyref.RefFields(occs[i].Payload)
										if sig, msg := lazyref.CheckFlat(nr, def[2], sf, accs, []int{1, 2}, &calls); sig != "" {
											t.Errorf("ISOLATION-FAILURE nested %s: %s", sig, msg)
											return
										}
										if len(sf[2]) > 0 { // one level further down, through the singular accessor
											if nn, err := nr.NestedResult(2); err != nil || nn == nil {
												t.Errorf("ISOLATION-FAILURE NestedResult(2) of nested %d: %v", i, err)
												return
											} else {
												ssf, _ := lazyref.RefFields(sf[2][len(sf[2])-1].Payload)
												if sig, msg := lazyref.CheckFlat(nn, def[2][2], ssf, accs, []int{1}, &calls); sig != "" {
													t.Errorf("ISOLATION-FAILURE nested.nested %s: %s", sig, msg)
													return
												}
											}
										}
									}
								}
								_ = res.Close()
							}
						}(g)
					}
					wg.Wait()
					total += G * per
				}
			}
		}
		runtime.GOMAXPROCS(old)
	}
	fmt.Printf("RACEPASS decode/read/close iterations=%d goroutines={2,8,32,64} GOMAXPROCS={1,2,16} modes={safe,fast} maxBuffer={unset,1}\n", total)
}
