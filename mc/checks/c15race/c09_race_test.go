package c15race

import (
	"bytes"
	"fmt"
	"sync"
	"testing"

	"github.com/CrowdStrike/csproto"
	gogoex "github.com/CrowdStrike/csproto/example/proto3/gogo"
	v2ex "github.com/CrowdStrike/csproto/example/proto3/googlev2"
	"google.golang.org/protobuf/proto"
	"google.golang.org/protobuf/types/known/timestamppb"
)

// TestC09RacePass: concurrent Size/Marshal on a message nobody mutates, under the race detector
// (free-running complement of C09's schedule exploration; uses the repository's checked-in example types).
func TestC09RacePass(t *testing.T) {
	msgs := []any{
		&v2ex.TestEvent{Name: "n", Info: "i", Labels: []string{"a", "b"}, Embedded: &v2ex.EmbeddedEvent{ID: 7, Stuff: "s", FavoriteNumbers: []int32{1, 2, 3}}},
		&gogoex.TestEvent{Name: "n", Info: "i", Labels: []string{"a", "b"}, Embedded: &gogoex.EmbeddedEvent{ID: 7, Stuff: "s", FavoriteNumbers: []int32{1, 2, 3}}},
		// a generated message holding PLAIN nested messages (no MarshalTo): EncodeNested's runtime-delegating branch
		&v2ex.EventUsingWKTs{Name: "w", Ts: &timestamppb.Timestamp{Seconds: 1700000000, Nanos: 5}, EventType: v2ex.EventType(1)},
		&v2ex.EventUsingWKTs{Name: "w2", Ts: &timestamppb.Timestamp{Seconds: 42}},
	}
	total := 0
	for _, m := range msgs {
		want, err := csproto.Marshal(m)
		if err != nil {
			t.Fatal(err)
		}
		for _, G := range []int{2, 8, 32} {
			fresh := proto.Clone
			_ = fresh
			shared := csproto.Clone(m) // cold caches
			var wg sync.WaitGroup
			for g := 0; g < G; g++ {
				wg.Add(1)
				go func(g int) {
					defer wg.Done()
					for i := 0; i < *iters; i++ {
						switch (g + i) % 3 {
						case 0:
							if n := csproto.Size(shared); n != len(want) {
								t.Errorf("ISOLATION-FAILURE Size=%d want %d", n, len(want))
								return
							}
						default:
							b, err := csproto.Marshal(shared)
							if err != nil || !bytes.Equal(b, want) {
								t.Errorf("ISOLATION-FAILURE Marshal differs: %x vs %x (%v)", b, want, err)
								return
							}
						}
					}
				}(g)
			}
			wg.Wait()
			total += G * *iters
		}
	}
	fmt.Printf("RACEPASS C09 concurrent Size/Marshal calls=%d goroutines={2,8,32}\n", total)
}
