package c15race

import (
	"bytes"
	"fmt"
	"sync"
	"testing"

	"github.com/CrowdStrike/csproto"
	gogoex2 "github.com/CrowdStrike/csproto/example/proto2/gogo"
	v2ex2 "github.com/CrowdStrike/csproto/example/proto2/googlev2"
	gogoex "github.com/CrowdStrike/csproto/example/proto3/gogo"
	v2ex "github.com/CrowdStrike/csproto/example/proto3/googlev2"
	"google.golang.org/protobuf/proto"
	"google.golang.org/protobuf/types/known/timestamppb"
)

// TestC09RacePass: concurrent Size/Marshal on a message nobody mutates, under the race detector
// (free-running complement of C09's schedule exploration; uses the repository's checked-in example types).
func TestC09RacePass(t *testing.T) {
	msgs := []any{
		&v2ex.TestEvent{Name: "n", Info: "i", Labels: []string{"a", "b"}, Embedded: &v2ex.EmbeddedEvent{ID: 7, Stuff: "s", FavoriteNumbers: []int32{1, 2, 3}}},
		&gogoex.TestEvent{Name: "n", Info: "i", Labels: []string{"a", "b"}, Embedded: &gogoex.EmbeddedEvent{ID: 7, Stuff: "s", FavoriteNumbers: []int32{1, 2, 3}}},
		// a generated message holding PLAIN nested messages (no MarshalTo): EncodeNested's runtime-delegating branch
		&v2ex.EventUsingWKTs{Name: "w", Ts: &timestamppb.Timestamp{Seconds: 1700000000, Nanos: 5}, EventType: v2ex.EventType(1)},
		&v2ex.EventUsingWKTs{Name: "w2", Ts: &timestamppb.Timestamp{Seconds: 42}},
	}
	total := 0
	for _, m := range msgs {
		want, err := csproto.Marshal(m)
		if err != nil {
			t.Fatal(err)
		}
		for _, G := range []int{2, 8, 32} {
			fresh := proto.Clone
			_ = fresh
			shared := csproto.Clone(m) // cold caches
			var wg sync.WaitGroup
			for g := 0; g < G; g++ {
				wg.Add(1)
				go func(g int) {
					defer wg.Done()
					for i := 0; i < *iters; i++ {
						switch (g + i) % 3 {
						case 0:
							if n := csproto.Size(shared); n != len(want) {
								t.Errorf("ISOLATION-FAILURE Size=%d want %d", n, len(want))
								return
							}
						default:
							b, err := csproto.Marshal(shared)
							if err != nil || !bytes.Equal(b, want) {
								t.Errorf("ISOLATION-FAILURE Marshal differs: %x vs %x (%v)", b, want, err)
								return
							}
						}
					}
				}(g)
			}
			wg.Wait()
			total += G * *iters
		}
	}
	// phase 2: DIFFERENT message types (two runtimes, proto2 messages carrying an extension among them) are marshaled
	// at the same time: anything the dispatcher or the extension accessors share between types is exercised
	str := func(s string) *string { return &s }
	u64 := func(v uint64) *uint64 { return &v }
	i32 := func(v int32) *int32 { return &v }
	gb := &gogoex2.BaseEvent{EventID: str("e"), SourceID: str("s"), Timestamp: u64(9), EventType: gogoex2.EventType_EVENT_TYPE_ONE.Enum()}
	if err := csproto.SetExtension(gb, gogoex2.E_TestEvent_EventExt, &gogoex2.TestEvent{Name: str("x"), Embedded: &gogoex2.EmbeddedEvent{ID: i32(3)}}); err != nil {
		t.Fatal(err)
	}
	vb := &v2ex2.BaseEvent{EventID: str("e"), SourceID: str("s"), Timestamp: u64(9), EventType: v2ex2.EventType_EVENT_TYPE_ONE.Enum()}
	if err := csproto.SetExtension(vb, v2ex2.E_TestEvent_EventExt, &v2ex2.TestEvent{Name: str("x"), Embedded: &v2ex2.EmbeddedEvent{ID: i32(3)}}); err != nil {
		t.Fatal(err)
	}
	mixed := append(append([]any{}, msgs...), gb, vb)
	wants := make([][]byte, len(mixed))
	shared := make([]any, len(mixed))
	for i, m := range mixed {
		b, err := csproto.Marshal(csproto.Clone(m))
		if err != nil {
			t.Fatal(err)
		}
		wants[i], shared[i] = b, csproto.Clone(m)
	}
	var wg sync.WaitGroup
	const G2 = 12
	for g := 0; g < G2; g++ {
		wg.Add(1)
		go func(g int) {
			defer wg.Done()
			for i := 0; i < *iters; i++ {
				k := (g + i) % len(mixed)
				b, err := csproto.Marshal(shared[k])
				if err != nil || !bytes.Equal(b, wants[k]) {
					t.Errorf("ISOLATION-FAILURE mixed types: Marshal of %T differs: %x vs %x (%v)", shared[k], b, wants[k], err)
					return
				}
			}
		}(g)
	}
	wg.Wait()
	total += G2 * *iters
	fmt.Printf("RACEPASS C09 concurrent Size/Marshal calls=%d goroutines={2,8,32} + 12 goroutines over %d mixed types\n", total, len(mixed))
}
