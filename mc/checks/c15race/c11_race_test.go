package c15race

import (
	"fmt"
	"sync"
	"testing"

	"github.com/CrowdStrike/csproto"
	gogoex2 "github.com/CrowdStrike/csproto/example/proto2/gogo"
	v2ex2 "github.com/CrowdStrike/csproto/example/proto2/googlev2"
	gogoex "github.com/CrowdStrike/csproto/example/proto3/gogo"
	v2ex "github.com/CrowdStrike/csproto/example/proto3/googlev2"
	"google.golang.org/protobuf/types/known/durationpb"
	"google.golang.org/protobuf/types/known/timestamppb"
)

// TestC11RacePass: free-running complement of C11's schedule exploration. Goroutines use the dispatcher on
// messages of several runtimes at the same time (classification, clone, equal, size, extension query); every
// answer must be the right one for the message's own type, and the race detector must stay silent.
func TestC11RacePass(t *testing.T) {
	str := func(s string) *string { return &s }
	u64 := func(v uint64) *uint64 { return &v }
	type subj struct {
		m    any
		want csproto.MessageType
	}
	subs := []subj{
		{&v2ex.TestEvent{Name: "n"}, csproto.MessageTypeGoogle},
		{&gogoex.TestEvent{Name: "n"}, csproto.MessageTypeGogo},
		{&timestamppb.Timestamp{Seconds: 5}, csproto.MessageTypeGoogle},
		{&durationpb.Duration{Seconds: 6}, csproto.MessageTypeGoogle},
		{&gogoex2.BaseEvent{EventID: str("e"), SourceID: str("s"), Timestamp: u64(1), EventType: gogoex2.EventType_EVENT_TYPE_ONE.Enum()}, csproto.MessageTypeGogo},
		{&v2ex2.BaseEvent{EventID: str("e"), SourceID: str("s"), Timestamp: u64(1), EventType: v2ex2.EventType_EVENT_TYPE_ONE.Enum()}, csproto.MessageTypeGoogle},
	}
	var wg sync.WaitGroup
	const G = 16
	for g := 0; g < G; g++ {
		wg.Add(1)
		go func(g int) {
			defer wg.Done()
			for i := 0; i < *iters; i++ {
				s := subs[(g+i)%len(subs)]
				if got := csproto.MsgType(s.m); got != s.want {
					t.Errorf("DISPATCH-FAILURE MsgType(%T)=%v want %v", s.m, got, s.want)
					return
				}
				switch i % 4 {
				case 0:
					if c := csproto.Clone(s.m); c == nil || !csproto.Equal(c, s.m) {
						t.Errorf("DISPATCH-FAILURE Clone/Equal of %T", s.m)
						return
					}
				case 1:
					if n := csproto.Size(s.m); n <= 0 {
						t.Errorf("DISPATCH-FAILURE Size(%T)=%d", s.m, n)
						return
					}
				case 2:
					switch m := s.m.(type) {
					case *gogoex2.BaseEvent:
						if csproto.HasExtension(m, gogoex2.E_TestEvent_EventExt) {
							t.Errorf("DISPATCH-FAILURE HasExtension on a message without extensions")
							return
						}
					case *v2ex2.BaseEvent:
						if csproto.HasExtension(m, v2ex2.E_TestEvent_EventExt) {
							t.Errorf("DISPATCH-FAILURE HasExtension on a message without extensions")
							return
						}
					}
				}
			}
		}(g)
	}
	wg.Wait()
	fmt.Printf("RACEPASS C11 dispatcher calls=%d goroutines=%d types=%d\n", G**iters, G, len(subs))
}
