// C03: the decoder is total and bounds-safe on arbitrary bytes. Mode Q: explicit-state BFS over the
// real csproto.Decoder: for every buffer of a bounded family, every reachable decoder state
// (all struct fields, read by reflection) x every operation; each transition is judged against the
// spec-derived reference. Because every op is applied in every reachable state, call sequences of
// every length are covered for that buffer.
package main

import (
	"errors"
	"fmt"
	"io"
	"math"
	"reflect"
	"runtime"
	"runtime/debug"
	"unsafe"

	"github.com/CrowdStrike/csproto"
	"google.golang.org/protobuf/encoding/protowire"
	"google.golang.org/protobuf/types/known/timestamppb"

	"verif/mc/checks/codec"
	"verif/mc/lib/ev"
	"verif/mc/lib/refwire"
)

var sigma = []byte{0x00, 0x01, 0x02, 0x04, 0x05, 0x08, 0x09, 0x0A, 0x0B, 0x0D, 0x7F, 0x80, 0x81, 0xF8, 0xFE, 0xFF}

type recUnmarshaler struct {
	called bool
	got    []byte
	fail   error
}

func (u *recUnmarshaler) Unmarshal(p []byte) error { u.called, u.got = true, p; return u.fail }

var errSentinel = errors.New("sentinel unmarshal failure")

type opKind int

const (
	kTag opKind = iota
	kVarint
	kFixed
	kLenBytes
	kPacked
	kNested
	kSkip
	kSeek
	kMisc
)

type op struct {
	name string
	kind opKind
	sub  int // varint: 0 bool 1 u32 2 u64 3 i32 4 i64 5 s32 6 s64; fixed: 0 f32 1 f64 2 float 3 double; bytes: 0 string 1 bytes; nested: variant; misc: which
	pk   *codec.Packed
	tag  int
	wt   int
	off  int64 // seek: resolved per buffer via seekOff
	offK int
	wh   int
}

func buildOps() []op {
	var ops []op
	ops = append(ops, op{name: "DecodeTag", kind: kTag})
	for i, n := range []string{"DecodeBool", "DecodeUInt32", "DecodeUInt64", "DecodeInt32", "DecodeInt64", "DecodeSInt32", "DecodeSInt64"} {
		ops = append(ops, op{name: n, kind: kVarint, sub: i})
	}
	for i, n := range []string{"DecodeFixed32", "DecodeFixed64", "DecodeFloat32", "DecodeFloat64"} {
		ops = append(ops, op{name: n, kind: kFixed, sub: i})
	}
	ops = append(ops, op{name: "DecodeString", kind: kLenBytes, sub: 0}, op{name: "DecodeBytes", kind: kLenBytes, sub: 1})
	for i := range codec.Packeds {
		p := &codec.Packeds[i]
		if p.Name == "packed_sfixed32" || p.Name == "packed_sfixed64" {
			continue // same decoder call as the unsigned kind
		}
		ops = append(ops, op{name: "DecodePacked:" + p.Name, kind: kPacked, pk: p})
	}
	for i, n := range []string{"recording", "failing", "nil-interface", "v2-message", "int-value"} {
		ops = append(ops, op{name: "DecodeNested(" + n + ")", kind: kNested, sub: i})
	}
	for _, tag := range []int{1, 2, 16, 1<<29 - 1, 0, -1} {
		for wt := 0; wt < 8; wt++ {
			ops = append(ops, op{name: fmt.Sprintf("Skip(wt=%d)", wt), kind: kSkip, tag: tag, wt: wt})
		}
	}
	for offK := 0; offK < 9; offK++ {
		for wh := 0; wh < 4; wh++ {
			ops = append(ops, op{name: fmt.Sprintf("Seek(whence=%d)", wh), kind: kSeek, offK: offK, wh: wh})
		}
	}
	for i, n := range []string{"Reset", "More", "Offset", "SetMode(safe)", "SetMode(fast)", "Mode"} {
		ops = append(ops, op{name: n, kind: kMisc, sub: i})
	}
	return ops
}

func seekOff(k, l int) int64 {
	switch k {
	case 0:
		return math.MinInt64
	case 1:
		return int64(-l - 1)
	case 2:
		return -1
	case 3:
		return 0
	case 4:
		return 1
	case 5:
		return int64(l - 1)
	case 6:
		return int64(l)
	case 7:
		return int64(l + 1)
	}
	return math.MaxInt64
}

// stateKey reads every field of the Decoder struct (the raw bytes of the struct: so a newly added
// field automatically becomes part of the key). The buffer is constant during one exploration, so
// the slice header bytes are constant too.
var decSize = reflect.TypeOf(csproto.Decoder{}).Size()

func stateKey(d *csproto.Decoder, base uintptr) string {
	if len(ptrWords) == 0 {
		return string(unsafe.Slice((*byte)(unsafe.Pointer(d)), decSize))
	}
	// fields holding pointers (a scratch slice, a cached string ...) cannot be compared as raw words: every fresh
	// decoder instance allocates its own, and the BFS would never see the same state twice. A pointer into the input
	// buffer is replaced by its offset, any other pointer by a constant (lengths and capacities stay as they are).
	var tmp [256]byte
	b := tmp[:decSize]
	copy(b, unsafe.Slice((*byte)(unsafe.Pointer(d)), decSize))
	for _, off := range ptrWords {
		w := (*uintptr)(unsafe.Pointer(&b[off]))
		switch {
		case *w == 0:
		case *w >= base && *w <= base+4096:
			*w -= base
		default:
			*w = 1
		}
	}
	return string(b)
}

// ptrWords: offsets of the pointer-carrying words of the Decoder struct other than the input slice `p` itself (which is
// constant during one exploration). Empty for the Decoder as it is today (ints only besides p).
var ptrWords = func() (out []uintptr) {
	t := reflect.TypeOf(csproto.Decoder{})
	if t.Size() > 256 {
		return nil
	}
	var walk func(t reflect.Type, base uintptr)
	walk = func(t reflect.Type, base uintptr) {
		switch t.Kind() {
		case reflect.Ptr, reflect.UnsafePointer, reflect.Map, reflect.Chan, reflect.Func, reflect.Slice, reflect.String:
			out = append(out, base) // first word is the data pointer
		case reflect.Interface:
			out = append(out, base, base+unsafe.Sizeof(uintptr(0)))
		case reflect.Struct:
			for i := 0; i < t.NumField(); i++ {
				walk(t.Field(i).Type, base+t.Field(i).Offset)
			}
		case reflect.Array:
			for i := 0; i < t.Len(); i++ {
				walk(t.Elem(), base+uintptr(i)*t.Elem().Size())
			}
		}
	}
	for i := 0; i < t.NumField(); i++ {
		f := t.Field(i)
		if f.Name == "p" && f.Type.Kind() == reflect.Slice {
			continue
		}
		walk(f.Type, f.Offset)
	}
	return out
}()

// Canonical key (quick tier, buffers of the longest length class only; every other buffer and the whole thorough
// tier use the exact key above). The Decoder remembers where the key read by the last DecodeTag starts and ends
// (keyStart, keyEnd); Skip is the only reader and departs from its default only if keyEnd-keyStart exceeds
// SizeOfTagKey(tag) >= 1. A remembered key of length <= 1 can therefore never influence any later call, so
// states that differ only in such a remembered key have the same futures and are merged. Remembered keys of
// two or more bytes (every padded key among them) stay in the key. If the Decoder has no such fields (or the
// layout is not the expected pair of ints) the exact key is used.
var keyStartOff, keyEndOff = intFieldOffset("keyStart"), intFieldOffset("keyEnd")

func intFieldOffset(name string) uintptr {
	f, ok := reflect.TypeOf(csproto.Decoder{}).FieldByName(name)
	if !ok || f.Type.Kind() != reflect.Int {
		return ^uintptr(0)
	}
	return f.Offset
}

func canonKey(d *csproto.Decoder, base uintptr) string {
	if keyStartOff == ^uintptr(0) || keyEndOff == ^uintptr(0) || decSize > 128 {
		return stateKey(d, base)
	}
	ks := *(*int)(unsafe.Add(unsafe.Pointer(d), keyStartOff))
	ke := *(*int)(unsafe.Add(unsafe.Pointer(d), keyEndOff))
	if ke-ks > 1 || ke < ks {
		return stateKey(d, base)
	}
	b := []byte(stateKey(d, base))
	*(*int)(unsafe.Pointer(&b[keyStartOff])) = 0
	*(*int)(unsafe.Pointer(&b[keyEndOff])) = 0
	return string(b)
}

const maxStatesPerBuffer = 20000

type reporter interface {
	Fail(sig, id string, detail any)
}

type ctx struct {
	canon bool // canonical state key (see canonKey)
	sh    *ev.Shard
	ops   []op
	buf   []byte
	base  uintptr
}

type detail struct {
	Buf    string `json:"buffer_hex"`
	Offset int    `json:"offset"`
	Mode   string `json:"mode"`
	Op     string `json:"op"`
	Msg    string `json:"msg"`
}

func inside(buf []byte, p []byte) (start int, ok bool) {
	if len(p) == 0 {
		return 0, true
	}
	b0 := uintptr(unsafe.Pointer(unsafe.SliceData(buf)))
	p0 := uintptr(unsafe.Pointer(unsafe.SliceData(p)))
	if p0 < b0 || p0+uintptr(len(p)) > b0+uintptr(len(buf)) {
		return 0, false
	}
	return int(p0 - b0), true
}

// apply executes op o on d (which is in state (off, mode)) and returns a failure description or "".
func (c *ctx) apply(d *csproto.Decoder, o *op, check bool) (kind, msg string) {
	buf := c.buf
	off := d.Offset()
	mode := d.Mode()
	rem := buf[off:]
	defer func() {
		if p := recover(); p != nil {
			kind, msg = "panic", fmt.Sprint(p)
		}
	}()
	var err error
	expectAdv := -1 // when err == nil: required advance (-1: not applicable)
	fail := func(k, m string) (string, string) { return k, m }
	switch o.kind {
	case kTag:
		tag, wt, e := d.DecodeTag()
		err = e
		if e == nil && check {
			v, n, re := refwire.ConsumeVarint(rem)
			if re != nil {
				return fail("accepted-malformed", "reference: "+re.Error())
			}
			if uint64(tag) != v>>3 || uint64(wt) != v&7 {
				return fail("wrong-value", fmt.Sprintf("got (%d,%d) reference key %d", tag, wt, v))
			}
			expectAdv = n
		}
	case kVarint:
		var got uint64
		var e error
		switch o.sub {
		case 0:
			var b bool
			b, e = d.DecodeBool()
			if b {
				got = 1
			}
		case 1:
			var x uint32
			x, e = d.DecodeUInt32()
			got = uint64(x)
		case 2:
			got, e = d.DecodeUInt64()
		case 3:
			var x int32
			x, e = d.DecodeInt32()
			got = uint64(int64(x))
		case 4:
			var x int64
			x, e = d.DecodeInt64()
			got = uint64(x)
		case 5:
			var x int32
			x, e = d.DecodeSInt32()
			got = uint64(int64(x))
		case 6:
			var x int64
			x, e = d.DecodeSInt64()
			got = uint64(x)
		}
		err = e
		if e == nil && check {
			v, n, re := refwire.ConsumeVarint(rem)
			if re != nil {
				return fail("accepted-malformed", "reference: "+re.Error())
			}
			var want uint64
			switch o.sub {
			case 0:
				if v != 0 {
					want = 1
				}
			case 1:
				if v > math.MaxUint32 {
					return fail("wrong-value", fmt.Sprintf("accepted %d as uint32", v))
				}
				want = v
			case 2, 4:
				want = v
			case 3:
				if int64(v) > math.MaxInt32 || int64(v) < math.MinInt32 {
					return fail("wrong-value", fmt.Sprintf("accepted %#x as int32", v))
				}
				want = v
			case 5:
				want = uint64(int64(refwire.UnZigZag32(v)))
			case 6:
				want = uint64(refwire.UnZigZag64(v))
			}
			if got != want {
				return fail("wrong-value", fmt.Sprintf("got %#x want %#x", got, want))
			}
			expectAdv = n
		}
	case kFixed:
		var got uint64
		var e error
		w := 4
		switch o.sub {
		case 0:
			var x uint32
			x, e = d.DecodeFixed32()
			got = uint64(x)
		case 1:
			got, e = d.DecodeFixed64()
			w = 8
		case 2:
			var x float32
			x, e = d.DecodeFloat32()
			got = uint64(math.Float32bits(x))
		case 3:
			var x float64
			x, e = d.DecodeFloat64()
			got = math.Float64bits(x)
			w = 8
		}
		err = e
		if e == nil && check {
			if len(rem) < w {
				return fail("accepted-malformed", fmt.Sprintf("only %d bytes remain", len(rem)))
			}
			var want uint64
			if w == 4 {
				x, _, _ := refwire.ConsumeFixed32(rem)
				want = uint64(x)
			} else {
				want, _, _ = refwire.ConsumeFixed64(rem)
			}
			if got != want {
				return fail("wrong-value", fmt.Sprintf("got %#x want %#x", got, want))
			}
			expectAdv = w
		}
	case kLenBytes:
		var got []byte
		var e error
		if o.sub == 0 {
			var s string
			s, e = d.DecodeString()
			got = unsafe.Slice(unsafe.StringData(s), len(s))
			if mode == csproto.DecoderModeSafe {
				got = []byte(s)
			}
		} else {
			got, e = d.DecodeBytes()
		}
		err = e
		if e == nil && check {
			l, n, re := refwire.ConsumeVarint(rem)
			if re != nil {
				return fail("accepted-malformed", "reference: "+re.Error())
			}
			if l > uint64(len(rem)-n) {
				return fail("accepted-overlong-length", fmt.Sprintf("declared %d, %d remain", l, len(rem)-n))
			}
			if string(got) != string(rem[n:n+int(l)]) {
				return fail("wrong-value", "payload differs")
			}
			if o.sub == 1 || mode == csproto.DecoderModeFast {
				if _, ok := inside(buf, got); !ok && o.sub == 1 {
					return fail("out-of-buffer-slice", "returned slice not inside the input")
				}
			}
			expectAdv = n + int(l)
		}
	case kPacked:
		got, e := o.pk.Dec(d)
		err = e
		if e == nil && check {
			l, n, re := refwire.ConsumeVarint(rem)
			if re != nil {
				return fail("accepted-malformed", "reference: "+re.Error())
			}
			if l > uint64(len(rem)-n) {
				return fail("accepted-overlong-length", fmt.Sprintf("declared %d, %d remain", l, len(rem)-n))
			}
			payload := rem[n : n+int(l)]
			k := codec.ScalarByName(o.pk.Elem)
			var want []uint64
			for p := 0; p < len(payload); {
				switch k.WT {
				case refwire.Varint:
					v, vn, ve := refwire.ConsumeVarint(payload[p:])
					if ve != nil {
						return fail("accepted-malformed", "element: "+ve.Error())
					}
					p += vn
					switch k.Name {
					case "bool":
						if v != 0 {
							v = 1
						}
					case "int32":
						if int64(v) > math.MaxInt32 || int64(v) < math.MinInt32 {
							return fail("wrong-value", fmt.Sprintf("accepted element %#x as int32", v))
						}
					case "uint32":
						if v > math.MaxUint32 {
							return fail("wrong-value", fmt.Sprintf("accepted element %#x as uint32", v))
						}
					case "sint32":
						v = uint64(int64(refwire.UnZigZag32(v)))
					case "sint64":
						v = uint64(refwire.UnZigZag64(v))
					}
					want = append(want, v)
				case refwire.Fixed32:
					x, _, ve := refwire.ConsumeFixed32(payload[p:])
					if ve != nil {
						return fail("accepted-malformed", "payload length not a multiple of 4")
					}
					p += 4
					want = append(want, uint64(x))
				case refwire.Fixed64:
					x, _, ve := refwire.ConsumeFixed64(payload[p:])
					if ve != nil {
						return fail("accepted-malformed", "payload length not a multiple of 8")
					}
					p += 8
					want = append(want, x)
				}
			}
			if len(got) != len(want) {
				return fail("wrong-value", fmt.Sprintf("%d elements, reference %d", len(got), len(want)))
			}
			for i := range got {
				if k.Norm(got[i]) != k.Norm(want[i]) {
					return fail("wrong-value", fmt.Sprintf("element %d: %#x vs %#x", i, got[i], want[i]))
				}
			}
			expectAdv = n + int(l)
		}
	case kNested:
		var rec *recUnmarshaler
		var m interface{}
		switch o.sub {
		case 0:
			rec = &recUnmarshaler{}
			m = rec
		case 1:
			rec = &recUnmarshaler{fail: errSentinel}
			m = rec
		case 2:
			m = nil
		case 3:
			m = &timestamppb.Timestamp{}
		case 4:
			m = 42
		}
		err = d.DecodeNested(m)
		if check {
			l, n, re := refwire.ConsumeVarint(rem)
			fits := re == nil && l <= uint64(len(rem)-n)
			if rec != nil && rec.called {
				if !fits {
					return fail("callee-invoked-for-overlong-length", "nested Unmarshal called although the declared length does not fit")
				}
				st, ok := inside(buf, rec.got)
				if len(rec.got) != int(l) || !ok || (len(rec.got) > 0 && st != off+n) {
					return fail("callee-got-wrong-bytes", fmt.Sprintf("callee received %d bytes at %d, expected %d at %d", len(rec.got), st, l, off+n))
				}
			}
			if err == nil {
				if !fits {
					return fail("accepted-overlong-length", "DecodeNested succeeded although the declared length does not fit")
				}
				if o.sub == 1 {
					return fail("nested-error-lost", "failing nested Unmarshal but DecodeNested returned nil")
				}
				expectAdv = n + int(l)
			} else if o.sub == 1 && rec.called && !errors.Is(err, errSentinel) {
				return fail("nested-error-lost", "error of nested Unmarshal not propagated: "+err.Error())
			}
		}
	case kSkip:
		raw, e := d.Skip(o.tag, csproto.WireType(o.wt))
		err = e
		if e == nil && check {
			if o.wt == 4 || o.wt > 5 {
				return fail("unsupported-wire-type-accepted", fmt.Sprintf("Skip accepted wire type %d", o.wt))
			}
			if o.wt == 3 {
				// groups are outside the set the pinned code supports (it rejects them); an implementation that skips them is
				// not wrong for that, but what it accepts must be a well-formed group of this field number and the cursor
				// must end behind it (protowire is the reference for groups)
				n := protowire.ConsumeFieldValue(protowire.Number(o.tag), protowire.StartGroupType, rem)
				if n < 0 {
					return fail("accepted-malformed", "Skip accepted a start-group key that is not followed by a well-formed group of that field number")
				}
				st, ok := inside(buf, raw)
				if !ok || st+len(raw) != off+n {
					return fail("out-of-buffer-slice", fmt.Sprintf("raw slice [%d,%d) vs group end %d", st, st+len(raw), off+n))
				}
				expectAdv = n
				break
			}
			pl, re := refwire.PayloadLen(rem, o.wt)
			if re != nil {
				return fail("accepted-malformed", "reference: "+re.Error())
			}
			st, ok := inside(buf, raw)
			if !ok || st+len(raw) != off+pl || len(raw) < pl {
				return fail("out-of-buffer-slice", fmt.Sprintf("raw slice [%d,%d) vs field end %d", st, st+len(raw), off+pl))
			}
			expectAdv = pl
		}
	case kSeek:
		so := seekOff(o.offK, len(buf))
		np, e := d.Seek(so, o.wh)
		err = e
		if check {
			// model in float-free wide arithmetic
			var base int64
			valid := true
			switch o.wh {
			case io.SeekStart:
			case io.SeekCurrent:
				base = int64(off)
			case io.SeekEnd:
				base = int64(len(buf))
			default:
				valid = false
			}
			hi, lo := addWide(so, base)
			inRange := valid && hi == 0 && lo <= uint64(len(buf))
			if inRange {
				if e != nil || d.Offset() != int(lo) || np != int64(lo) {
					return fail("seek-model-mismatch", fmt.Sprintf("Seek(%d,%d) from %d: err=%v offset=%d", so, o.wh, off, e, d.Offset()))
				}
			} else if e == nil || d.Offset() != off {
				return fail("seek-model-mismatch", fmt.Sprintf("Seek(%d,%d) from %d must fail and keep the cursor: err=%v offset=%d", so, o.wh, off, e, d.Offset()))
			}
		}
	case kMisc:
		switch o.sub {
		case 0:
			d.Reset()
			if d.Offset() != 0 {
				return fail("misc", "Reset did not rewind")
			}
		case 1:
			if d.More() != (off < len(buf)) {
				return fail("misc", "More wrong")
			}
		case 2:
			_ = d.Offset()
		case 3:
			d.SetMode(csproto.DecoderModeSafe)
		case 4:
			d.SetMode(csproto.DecoderModeFast)
		case 5:
			_ = d.Mode()
		}
	}
	if !check {
		return "", ""
	}
	no := d.Offset()
	if no < 0 || no > len(buf) {
		return "cursor-out-of-bounds", fmt.Sprintf("offset %d after op (len %d)", no, len(buf))
	}
	if expectAdv >= 0 && err == nil && no-off != expectAdv {
		return "wrong-advance", fmt.Sprintf("advanced %d, item length %d", no-off, expectAdv)
	}
	return "", ""
}

// addWide adds two int64 as a 128-bit signed value and reports (hi, lo) where hi==0 means 0<=sum<2^64.
func addWide(a, b int64) (hi int64, lo uint64) {
	lo = uint64(a) + uint64(b)
	var carry int64
	if lo < uint64(a) {
		carry = 1
	}
	ha, hb := a>>63, b>>63 // sign extension words
	hi = ha + hb + carry
	return hi, lo
}

// explore runs the BFS for one buffer.
func (c *ctx) explore(buf []byte) (states, transitions int64) {
	c.sh.Tick()
	c.buf = buf
	c.base = uintptr(unsafe.Pointer(unsafe.SliceData(buf)))
	type st struct {
		hist []int
		snap string // raw bytes of the Decoder in this state (only when it can be restored by copying, see below)
	}
	// The Decoder's whole state is its own struct. As long as that struct holds no pointer besides the input slice, a
	// state is restored exactly by copying the recorded bytes into a fresh Decoder over the same buffer; this replaces
	// the replay of the whole history for every transition. With any other pointer-carrying field (a scratch slice added
	// by a change) the history is replayed as before, since a byte copy would share that memory between states.
	restorable := len(ptrWords) == 0
	stateKey := stateKey
	if c.canon {
		stateKey = canonKey
	}
	seen := map[string]bool{}
	var queue []st
	raw := func(d *csproto.Decoder) string { return string(unsafe.Slice((*byte)(unsafe.Pointer(d)), decSize)) }
	fresh := func(s *st) (d *csproto.Decoder) {
		d = csproto.NewDecoder(buf)
		if restorable && s.snap != "" {
			copy(unsafe.Slice((*byte)(unsafe.Pointer(d)), decSize), s.snap)
			return d
		}
		for _, oi := range s.hist {
			c.apply(d, &c.ops[oi], false)
		}
		return d
	}
	d0 := fresh(&st{})
	seen[stateKey(d0, c.base)] = true
	queue = append(queue, st{snap: raw(d0)})
	for qi := 0; qi < len(queue); qi++ {
		s := queue[qi]
		for oi := range c.ops {
			o := &c.ops[oi]
			d := fresh(&s)
			off, mode := d.Offset(), d.Mode()
			if c.sh.Trace {
				c.sh.Cur(o.name+"/"+mode.String(), fmt.Sprintf("buf=%x/o=%d/%s/%s", buf, off, mode, o.name))
			}
			kind, msg := c.apply(d, o, true)
			transitions++
			if kind != "" && c.sh.Failed(o.name+"/"+kind) {
				c.sh.Fail(o.name+"/"+kind, "", nil)
				continue
			}
			if kind != "" {
				c.sh.Fail(o.name+"/"+kind, fmt.Sprintf("buf=%x/o=%d/%s/%s", buf, off, mode, o.name),
					detail{Buf: fmt.Sprintf("%x", buf), Offset: off, Mode: mode.String(), Op: fmt.Sprintf("%s tag=%d seekoff=%d", o.name, o.tag, seekOff(o.offK, len(buf))), Msg: msg})
				continue
			}
			k := stateKey(d, c.base)
			if !seen[k] {
				if len(seen) >= maxStatesPerBuffer {
					// far beyond anything the real Decoder reaches (a few hundred states per buffer): some field takes a
					// new value on every call; stop growing this buffer's graph and say so instead of running forever
					c.sh.Count("state_cap_hit", 1)
					continue
				}
				seen[k] = true
				h := append(append([]int{}, s.hist...), oi)
				queue = append(queue, st{hist: h, snap: raw(d)})
			}
		}
	}
	return int64(len(seen)), transitions
}

func worker(sh *ev.Shard) {
	c := &ctx{sh: sh, ops: buildOps()}
	N := 4
	if sh.Thorough() {
		N = 5
	}
	if sh.Index == sh.N-1 {
		allocFamily(sh, c)
		runFamily(sh, c)
		sh.Done()
	}
	nb := sh.N - 1
	paddings := [][]byte{nil, make([]byte, 10), fillBytes(0x80, 10), fillBytes(0xFF, 10)}
	arena := make([]byte, 64)
	arena2 := make([]byte, 64)
	idx := 0
	var states, trans, bufs int64
	sampled := false
	for l := 0; l <= N; l++ {
		total := 1
		for i := 0; i < l; i++ {
			total *= len(sigma)
		}
		for x := 0; x < total; x++ {
			idx++
			if idx%nb != sh.Index {
				continue
			}
			for pi, pad := range paddings {
				if l == 0 && pi > 0 {
					continue
				}
				n := l + len(pad)
				buf := arena[:n:n]
				y := x
				for i := 0; i < l; i++ {
					buf[i] = sigma[y%len(sigma)]
					y /= len(sigma)
				}
				copy(buf[l:], pad)
				c.canon = !sh.Thorough() && l == N
				s, t := c.explore(buf)
				states += s
				trans += t
				bufs++
				if pi == 0 && l > 0 {
					// the same bytes as a sub-slice of a larger array (cap > len, plausible-looking bytes behind the end):
					// a bound checked against the capacity instead of the length shows up as an accepted over-read
					for i := range arena2 {
						arena2[i] = 0x01
					}
					copy(arena2, buf)
					s, t = c.explore(arena2[:n])
					states += s
					trans += t
					bufs++
				}
				if !sampled && l == 3 && pi == 1 {
					sampled = true
					sh.Sample(map[string]any{"buffer_hex": fmt.Sprintf("%x", buf), "states": s, "transitions": t, "ops": len(c.ops), "note": "BFS from NewDecoder(buf); every op applied in every reachable (offset, mode) state"})
				}
			}
		}
	}
	sh.Count("states", states)
	sh.Count("transitions", trans)
	sh.Count("traces", trans)
	sh.Count("evals", trans)
	sh.Count("nontrivial", states)
	sh.Count("buffers", bufs)
	sh.Done()
}

func fillBytes(b byte, n int) []byte {
	p := make([]byte, n)
	for i := range p {
		p[i] = b
	}
	return p
}

// chainMsg is a recursive message {1: chainMsg, 2: varint}: its Unmarshal reads keys and hands field 1 to DecodeNested.
type chainMsg struct {
	mode  csproto.DecoderMode
	child *chainMsg
	n     uint64
}

func (c *chainMsg) Unmarshal(p []byte) error {
	d := csproto.NewDecoder(p)
	d.SetMode(c.mode)
	for d.More() {
		tag, wt, err := d.DecodeTag()
		if err != nil {
			return err
		}
		switch {
		case tag == 1 && wt == csproto.WireTypeLengthDelimited:
			c.child = &chainMsg{mode: c.mode}
			if err := d.DecodeNested(c.child); err != nil {
				return err
			}
		case tag == 2 && wt == csproto.WireTypeVarint:
			if c.n, err = d.DecodeUInt64(); err != nil {
				return err
			}
		default:
			if _, err := d.Skip(tag, wt); err != nil {
				return err
			}
		}
	}
	return nil
}

// allocFamily: every length-consuming op against a declared length of every magnitude with only a
// few bytes actually remaining; TotalAlloc delta per call must stay within a linear budget.
func allocFamily(sh *ev.Shard, c *ctx) {
	runtime.GOMAXPROCS(1)
	var ops []*op
	for i := range c.ops {
		o := &c.ops[i]
		if o.kind == kLenBytes || o.kind == kPacked || (o.kind == kNested && o.sub != 4) || (o.kind == kSkip && o.wt == 2 && o.tag == 1) {
			ops = append(ops, o)
		}
	}
	// warm-up: lazily initialised tables of the runtimes must not count against a call
	for _, o := range ops {
		for i := 0; i < 3; i++ {
			c.buf = []byte{0x0A, 0x02, 0x08, 0x01}
			d := csproto.NewDecoder(c.buf)
			d.Seek(1, io.SeekStart)
			c.apply(d, o, false)
		}
	}
	var ms0, ms1 runtime.MemStats
	var calls, big int64
	var lens []uint64
	for k := uint(0); k <= 63; k++ {
		lens = append(lens, 1<<k-1, 1<<k, 1<<k+3)
	}
	lens = append(lens, math.MaxUint64, math.MaxUint64-7, math.MaxInt32, math.MaxInt32+1)
	for _, L := range lens {
		prefix := refwire.AppendVarint(nil, L)
		for remN := 0; remN <= 16; remN += 1 {
			for _, fb := range []byte{0x01, 0x80} {
				if remN == 0 && fb != 0x01 {
					continue
				}
				n := 1 + len(prefix) + remN
				arena := make([]byte, n)
				buf := arena[:n:n]
				buf[0] = 0x0A // key of field 1, LEN: lets safe-mode Skip validate
				copy(buf[1:], prefix)
				for i := 1 + len(prefix); i < n; i++ {
					buf[i] = fb
				}
				c.buf = buf
				c.base = uintptr(unsafe.Pointer(unsafe.SliceData(buf)))
				for _, o := range ops {
					for _, m := range []csproto.DecoderMode{csproto.DecoderModeSafe, csproto.DecoderModeFast} {
						d := csproto.NewDecoder(buf)
						d.SetMode(m)
						d.Seek(1, io.SeekStart)
						id := fmt.Sprintf("alloc/declared=%d/remaining=%d/fill=%02x/%s/%s", L, remN, fb, m, o.name)
						sh.Cur(o.name+"/declared-length-alloc", id)
						runtime.ReadMemStats(&ms0)
						kind, msg := c.apply(d, o, true)
						runtime.ReadMemStats(&ms1)
						calls++
						delta := ms1.TotalAlloc - ms0.TotalAlloc
						budget := uint64(64*len(buf) + 8192)
						if kind != "" {
							sh.Fail(o.name+"/"+kind, id, detail{Buf: fmt.Sprintf("%x", buf), Offset: 1, Mode: m.String(), Op: o.name, Msg: msg})
						} else if delta > budget {
							big++
							sh.Fail(o.name+"/allocation-out-of-proportion", id, detail{Buf: fmt.Sprintf("%x", buf), Offset: 1, Mode: m.String(), Op: o.name, Msg: fmt.Sprintf("TotalAlloc delta %d > budget %d", delta, budget)})
						}
					}
				}
			}
		}
	}
	// chain family: a message nested in itself D levels deep (each level: key, length, rest), decoded by a recursive
	// Unmarshaler that - like generated code - calls DecodeNested for its field 1; valid chains and chains whose
	// innermost level is damaged (truncated varint, over-long length, stray byte). What one DecodeNested call allocates,
	// all levels included, stays within the linear budget: an error that is re-formatted at every level on its way out
	// costs D^2.
	for _, D := range []int{16, 256, 2048} {
		for _, bottom := range [][]byte{nil, {0x10, 0x05}, {0x10, 0x80}, {0x0A, 0x7F}, {0x0F}} {
			body := append([]byte{}, bottom...)
			for lv := 0; lv < D; lv++ {
				body = append(refwire.AppendVarint([]byte{0x0A}, uint64(len(body))), body...)
			}
			buf := body[:len(body):len(body)]
			c.buf = buf
			c.base = uintptr(unsafe.Pointer(unsafe.SliceData(buf)))
			for _, m := range []csproto.DecoderMode{csproto.DecoderModeSafe, csproto.DecoderModeFast} {
				id := fmt.Sprintf("alloc/chain depth=%d bottom=%x/%s", D, bottom, m)
				sh.Cur("DecodeNested/chain-alloc", id)
				var err error
				var pan any
				runtime.ReadMemStats(&ms0)
				func() {
					defer func() { pan = recover() }()
					d := csproto.NewDecoder(buf)
					d.SetMode(m)
					d.Seek(1, io.SeekStart)
					err = d.DecodeNested(&chainMsg{mode: m})
				}()
				runtime.ReadMemStats(&ms1)
				calls++
				delta := ms1.TotalAlloc - ms0.TotalAlloc
				budget := uint64(64*len(buf) + 8192)
				switch {
				case pan != nil:
					sh.Fail("DecodeNested(chain)/panic", id, detail{Buf: fmt.Sprintf("chain of %d levels, %d bytes", D, len(buf)), Offset: 1, Mode: m.String(), Op: "DecodeNested(chain)", Msg: fmt.Sprint(pan)})
				case bottom == nil && err != nil:
					sh.Fail("DecodeNested(chain)/error-on-well-formed", id, detail{Buf: fmt.Sprintf("chain of %d levels, %d bytes", D, len(buf)), Offset: 1, Mode: m.String(), Op: "DecodeNested(chain)", Msg: err.Error()[:min(len(err.Error()), 200)]})
				case delta > budget:
					sh.Fail("DecodeNested(chain)/allocation-out-of-proportion", id, detail{Buf: fmt.Sprintf("chain of %d levels, %d bytes", D, len(buf)), Offset: 1, Mode: m.String(), Op: "DecodeNested(chain)", Msg: fmt.Sprintf("TotalAlloc delta %d > budget %d", delta, budget)})
				}
			}
		}
	}
	sh.Count("alloc_family_calls", calls)
	sh.Count("evals", calls)
	sh.Count("transitions", calls)
	sh.Count("traces", calls)
	sh.Sample(map[string]any{"family": "declared-length", "declared": "2^k-1, 2^k, 2^k+3 for k<=63, MaxUint64", "remaining_bytes": "0..16", "budget": "64*len(buf)+8192 bytes TotalAlloc per call"})
}

// runFamily: long runs of one byte value (all 256 values; 64 KiB, thorough also 1 MiB): inputs on which a decoder that
// descends once per input byte (nested groups, nested lengths, continuation bytes) uses stack or heap out of proportion.
// Every op, both modes, from offset 0 and 1; budgets per call: TotalAlloc <= 80*len+8192 bytes, goroutine stack growth
// <= 1 MiB. The worker caps its stack at 256 MiB, so an unbounded descent on the 1 MiB runs ends the worker (attributed
// to the announced case by the trace-mode re-run).
func runFamily(sh *ev.Shard, c *ctx) {
	debug.SetMaxStack(256 << 20)
	sizes := []int{1 << 16}
	if sh.Thorough() {
		sizes = append(sizes, 1<<20)
	}
	var ms0, ms1 runtime.MemStats
	var calls int64
	for _, n := range sizes {
		for b := 0; b < 256; b++ {
			buf := fillBytes(byte(b), n)
			c.buf = buf
			c.base = uintptr(unsafe.Pointer(unsafe.SliceData(buf)))
			for i := range c.ops {
				o := &c.ops[i]
				if o.kind == kSeek {
					continue
				}
				for _, m := range []csproto.DecoderMode{csproto.DecoderModeSafe, csproto.DecoderModeFast} {
					for _, off := range []int64{0, 1} {
						id := fmt.Sprintf("run/byte=%02x/len=%d/%s/off=%d/%s", b, n, m, off, o.name)
						sh.Cur(o.name+"/long-run", id)
						var kind, msg string
						var grown uint64
						done := make(chan struct{})
						runtime.ReadMemStats(&ms0)
						go func() { // a fresh goroutine: its stack starts small, growth is this call's
							defer close(done)
							d := csproto.NewDecoder(buf)
							d.SetMode(m)
							d.Seek(off, io.SeekStart)
							kind, msg = c.apply(d, o, true)
							var ms runtime.MemStats
							runtime.ReadMemStats(&ms)
							if ms.StackInuse > ms0.StackInuse {
								grown = ms.StackInuse - ms0.StackInuse
							}
						}()
						<-done
						runtime.ReadMemStats(&ms1)
						calls++
						delta := ms1.TotalAlloc - ms0.TotalAlloc
						budget := uint64(80*len(buf) + 8192)
						switch {
						case kind != "":
							sh.Fail(o.name+"/"+kind, id, detail{Buf: fmt.Sprintf("%02x x %d", b, n), Offset: int(off), Mode: m.String(), Op: o.name, Msg: msg})
						case delta > budget:
							sh.Fail(o.name+"/allocation-out-of-proportion", id, detail{Buf: fmt.Sprintf("%02x x %d", b, n), Offset: int(off), Mode: m.String(), Op: o.name, Msg: fmt.Sprintf("TotalAlloc delta %d > budget %d", delta, budget)})
						case grown > 1<<20 && o.kind != kNested:
							sh.Fail(o.name+"/stack-out-of-proportion", id, detail{Buf: fmt.Sprintf("%02x x %d", b, n), Offset: int(off), Mode: m.String(), Op: o.name, Msg: fmt.Sprintf("goroutine stack grew by %d bytes during one call", grown)})
						}
					}
				}
			}
		}
	}
	sh.Count("long_run_family_calls", calls)
	sh.Count("evals", calls)
	sh.Count("transitions", calls)
	sh.Count("traces", calls)
}

func main() {
	if sh := ev.ShardFromArgs(); sh != nil {
		worker(sh)
		return
	}
	r := ev.Start("C03", "model_checking")
	nShards := ev.Pick(r, 33, 129)
	r.RunShards(nShards, runtime.NumCPU(), 6<<30)
	N := ev.Pick(r, 4, 5)
	r.Set("alphabet_hex", fmt.Sprintf("%x", sigma))
	r.Set("max_buffer_length_before_padding", N)
	r.Set("paddings", []string{"none", "none with cap > len (tail 01...)", "00 x10", "80 x10", "ff x10"})
	r.Set("operations", len(buildOps()))
	r.Rule(fmt.Sprintf("explicit-state BFS per buffer: buffers = all byte strings of length <= %d over a 16-symbol wire alphabet, each also with three 10-byte paddings; state = all fields of csproto.Decoder read by reflection; every one of the operations (27 Decode*, Skip x 6 tags x 8 wire types, Seek x 9 offsets x 4 whence, Reset/More/Offset/SetMode/Mode, DecodeNested x 5 targets) is applied in every reachable state and judged against the spec-derived reference (err==nil => item exists, value equal, advance == item length; cursor within [0,len]; over-long declared length => error; returned slices inside the buffer; nested callee not invoked for over-long length). distinct_nontrivial = number of distinct (buffer, decoder state) pairs. Plus the declared-length family with a per-call TotalAlloc budget, run in an address-space-limited subprocess, and the long-run family: 64 KiB (thorough: also 1 MiB) runs of each of the 256 byte values x every op x both modes x offsets 0/1 with per-call budgets on TotalAlloc (80 bytes per input byte) and on goroutine stack growth (1 MiB), worker stack capped at 256 MiB.", N))
	r.Assume("quick tier, buffers of the longest length class only: states that differ only in a remembered field key of length <= 1 (Decoder.keyStart/keyEnd) are merged; Skip is the only reader of that pair and deviates only when the remembered key is longer than SizeOfTagKey(tag) >= 1, so merged states have equal futures. All shorter buffers and the whole thorough tier use the exact key (all struct fields)")
	r.Assume("inputs longer than the bound and bytes outside the alphabet are not covered; reference leniency: a 10th varint byte with bits above 2^64 is accepted by both sides")
	r.Assume("where the cursor rests after an error is unconstrained beyond staying in [0,len] and not moving backwards")
	r.Finish()
}
