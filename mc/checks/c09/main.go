//go:build verifshim

// C09: Marshal output depends only on the message's current contents (operation histories, mode Q)
// and concurrent Size/Marshal on an unmutated message return those bytes (schedules, mode S, with the
// generated code's sync/atomic calls redirected to scheduling points).
package main

import (
	"bytes"
	"fmt"
	"google.golang.org/protobuf/types/descriptorpb"
	"google.golang.org/protobuf/types/known/structpb"
	"os"
	"os/exec"
	"reflect"
	"runtime"
	"strings"
	"unsafe"

	"github.com/CrowdStrike/csproto"
	vsync "github.com/CrowdStrike/csproto/zzverif/vsync"
	gogoproto "github.com/gogo/protobuf/proto"
	golangproto "github.com/golang/protobuf/proto"
	"google.golang.org/protobuf/proto"
	"google.golang.org/protobuf/reflect/protoreflect"
	"google.golang.org/protobuf/types/dynamicpb"

	"verif/mc/corpus"
	"verif/mc/lib/ev"
	"verif/mc/lib/gcore"
)

type sizer interface{ Size() int }
type marshaler interface{ Marshal() ([]byte, error) }
type marshalerTo interface{ MarshalTo([]byte) error }
type unmarshaler interface{ Unmarshal([]byte) error }

func guard(f func()) (p string) {
	defer func() {
		if r := recover(); r != nil {
			p = fmt.Sprint(r)
		}
	}()
	f()
	return ""
}

func canonical(m proto.Message) []byte {
	b, err := proto.MarshalOptions{Deterministic: true, AllowPartial: true}.Marshal(m)
	if err != nil {
		panic(err)
	}
	return b
}

// cacheWords collects pointers to every size-cache word in the message tree rooted at x.
func cacheWords(x any) []*int32 {
	var out []*int32
	seen := map[uintptr]bool{}
	var walk func(v reflect.Value)
	walk = func(v reflect.Value) {
		switch v.Kind() {
		case reflect.Ptr:
			if v.IsNil() || seen[v.Pointer()] {
				return
			}
			seen[v.Pointer()] = true
			walk(v.Elem())
		case reflect.Interface:
			if !v.IsNil() {
				walk(v.Elem())
			}
		case reflect.Struct:
			for i := 0; i < v.NumField(); i++ {
				f := v.Field(i)
				name := v.Type().Field(i).Name
				if (name == "sizeCache" || name == "XXX_sizecache") && f.Kind() == reflect.Int32 && f.CanAddr() {
					out = append(out, (*int32)(unsafe.Pointer(f.UnsafeAddr())))
					continue
				}
				switch f.Kind() {
				case reflect.Ptr, reflect.Slice, reflect.Map, reflect.Interface, reflect.Struct:
					if f.CanAddr() {
						walk(reflect.NewAt(f.Type(), unsafe.Pointer(f.UnsafeAddr())).Elem())
					}
				}
			}
		case reflect.Slice:
			if v.Type().Elem().Kind() == reflect.Ptr {
				for i := 0; i < v.Len(); i++ {
					walk(v.Index(i))
				}
			}
		case reflect.Map:
			if v.Type().Elem().Kind() == reflect.Ptr {
				for _, k := range v.MapKeys() {
					walk(v.MapIndex(k))
				}
			}
		}
	}
	walk(reflect.ValueOf(x))
	return out
}

type rtFuncs struct {
	size    func(any) int
	marshal func(any) ([]byte, error)
}

func runtimeOf(rt corpus.Runtime) rtFuncs {
	switch rt {
	case corpus.Gogo:
		return rtFuncs{func(m any) int { return gogoproto.Size(m.(gogoproto.Message)) }, func(m any) ([]byte, error) { return gogoproto.Marshal(m.(gogoproto.Message)) }}
	case corpus.Legacy:
		return rtFuncs{func(m any) int { return golangproto.Size(m.(golangproto.Message)) }, func(m any) ([]byte, error) { return golangproto.Marshal(m.(golangproto.Message)) }}
	}
	return rtFuncs{func(m any) int { return proto.Size(m.(proto.Message)) }, func(m any) ([]byte, error) {
		return proto.MarshalOptions{Deterministic: true}.Marshal(m.(proto.Message))
	}}
}

// ---- the operation alphabet over a Child-shaped message {a int32 =1, s string =2, next Child =3, kids []Child =4}

type world struct {
	t     *gcore.Type
	x     any
	model *dynamicpb.Message
	rt    rtFuncs
	log   []string
}

type op struct {
	name    string
	observe bool
	enabled func(w *world) bool
	apply   func(w *world) (fail string) // returns a failure description for observers
}

var s127 = strings.Repeat("a", 127)
var s128 = strings.Repeat("b", 128)

func both(w *world, f func(m protoreflect.Message)) {
	f(gcore.Reflect(w.x))
	f(w.model)
}

func field(m protoreflect.Message, n int) protoreflect.FieldDescriptor {
	return m.Descriptor().Fields().ByNumber(protoreflect.FieldNumber(n))
}

func ops() []op {
	always := func(*world) bool { return true }
	hasNext := func(w *world) bool { return w.model.Has(field(w.model, 3)) }
	hasKids := func(w *world) bool { return w.model.Get(field(w.model, 4)).List().Len() > 0 }
	var out []op
	mut := func(name string, en func(*world) bool, f func(m protoreflect.Message)) {
		out = append(out, op{name: name, enabled: en, apply: func(w *world) string { both(w, f); return "" }})
	}
	for _, v := range []int32{0, 1, 300} {
		v := v
		mut(fmt.Sprintf("a=%d", v), always, func(m protoreflect.Message) { m.Set(field(m, 1), protoreflect.ValueOfInt32(v)) })
	}
	mut("clear(a)", always, func(m protoreflect.Message) { m.Clear(field(m, 1)) })
	for _, v := range []string{"", s127, s128} {
		v := v
		mut(fmt.Sprintf("s=len%d", len(v)), always, func(m protoreflect.Message) { m.Set(field(m, 2), protoreflect.ValueOfString(v)) })
	}
	mut("next=nil", always, func(m protoreflect.Message) { m.Clear(field(m, 3)) })
	mut("next={}", always, func(m protoreflect.Message) { m.Set(field(m, 3), m.NewField(field(m, 3))) })
	mut("next.s=len128(nested only)", hasNext, func(m protoreflect.Message) {
		n := m.Mutable(field(m, 3)).Message()
		n.Set(field(n, 2), protoreflect.ValueOfString(s128))
	})
	mut("next.a=1(nested only)", hasNext, func(m protoreflect.Message) {
		n := m.Mutable(field(m, 3)).Message()
		n.Set(field(n, 1), protoreflect.ValueOfInt32(1))
	})
	mut("next.clear(s)(nested only)", hasNext, func(m protoreflect.Message) {
		n := m.Mutable(field(m, 3)).Message()
		n.Clear(field(n, 2))
	})
	mut("kids+={}", always, func(m protoreflect.Message) {
		l := m.Mutable(field(m, 4)).List()
		l.Append(l.NewElement())
	})
	mut("kids+={a:1}", always, func(m protoreflect.Message) {
		l := m.Mutable(field(m, 4)).List()
		e := l.NewElement()
		e.Message().Set(field(e.Message(), 1), protoreflect.ValueOfInt32(1))
		l.Append(e)
	})
	mut("kids.truncate", hasKids, func(m protoreflect.Message) {
		l := m.Mutable(field(m, 4)).List()
		l.Truncate(l.Len() - 1)
	})
	mut("kids[0].s=len127(nested only)", hasKids, func(m protoreflect.Message) {
		e := m.Mutable(field(m, 4)).List().Get(0).Message()
		e.Set(field(e, 2), protoreflect.ValueOfString(s127))
	})
	obs := func(name string, f func(w *world, want []byte) string) {
		out = append(out, op{name: name, observe: true, enabled: always, apply: func(w *world) string { return f(w, canonical(w.model)) }})
	}
	obs("Size()", func(w *world, want []byte) string {
		if n := w.x.(sizer).Size(); n != len(want) {
			return fmt.Sprintf("Size()=%d, fresh copy marshals to %d bytes", n, len(want))
		}
		return ""
	})
	obs("Marshal()", func(w *world, want []byte) string {
		b, err := w.x.(marshaler).Marshal()
		if err != nil || !bytes.Equal(b, want) {
			return fmt.Sprintf("Marshal()=%x err=%v, fresh copy: %x", trunc(b), err, trunc(want))
		}
		return ""
	})
	obs("MarshalTo(exact)", func(w *world, want []byte) string {
		buf := make([]byte, len(want))
		if err := w.x.(marshalerTo).MarshalTo(buf); err != nil || !bytes.Equal(buf, want) {
			return fmt.Sprintf("MarshalTo=%x err=%v, fresh copy: %x", trunc(buf), err, trunc(want))
		}
		return ""
	})
	obs("csproto.Size", func(w *world, want []byte) string {
		if n := csproto.Size(w.x); n != len(want) {
			return fmt.Sprintf("csproto.Size=%d, fresh copy marshals to %d bytes", n, len(want))
		}
		return ""
	})
	obs("csproto.Marshal", func(w *world, want []byte) string {
		b, err := csproto.Marshal(w.x)
		if err != nil || !bytes.Equal(b, want) {
			return fmt.Sprintf("csproto.Marshal=%x err=%v, fresh copy: %x", trunc(b), err, trunc(want))
		}
		return ""
	})
	obs("runtime.Size", func(w *world, want []byte) string {
		if n := w.rt.size(w.x); n != len(want) {
			return fmt.Sprintf("runtime Size=%d, fresh copy marshals to %d bytes", n, len(want))
		}
		return ""
	})
	obs("runtime.Marshal", func(w *world, want []byte) string {
		b, err := w.rt.marshal(w.x)
		if err != nil || !bytes.Equal(b, want) {
			return fmt.Sprintf("runtime Marshal=%x err=%v, fresh copy: %x", trunc(b), err, trunc(want))
		}
		return ""
	})
	for i, tree := range []func(md protoreflect.MessageDescriptor) *dynamicpb.Message{
		func(md protoreflect.MessageDescriptor) *dynamicpb.Message { return dynamicpb.NewMessage(md) },
		func(md protoreflect.MessageDescriptor) *dynamicpb.Message {
			m := dynamicpb.NewMessage(md)
			m.Set(field(m, 2), protoreflect.ValueOfString(s127))
			n := m.Mutable(field(m, 3)).Message()
			n.Set(field(n, 1), protoreflect.ValueOfInt32(5))
			return m
		},
		func(md protoreflect.MessageDescriptor) *dynamicpb.Message { // known field + unknown fields (kept by Unmarshal, must stay in Size/Marshal)
			m := dynamicpb.NewMessage(md)
			m.Set(field(m, 1), protoreflect.ValueOfInt32(7))
			m.SetUnknown(protoreflect.RawFields{0xf8, 0x07, 0x05, 0xfa, 0x07, 0x03, 'u', 'n', 'k'})
			return m
		},
	} {
		tree := tree
		out = append(out, op{name: fmt.Sprintf("Unmarshal(b%d)", i), enabled: always, apply: func(w *world) string {
			src := tree(w.model.Descriptor())
			if err := w.x.(unmarshaler).Unmarshal(canonical(src)); err != nil {
				return "Unmarshal: " + err.Error()
			}
			w.model = src
			return ""
		}})
	}
	out = append(out, op{name: "Reset()", enabled: always, apply: func(w *world) string {
		csproto.Reset(w.x)
		w.model = dynamicpb.NewMessage(w.model.Descriptor())
		return ""
	}})
	out = append(out, op{name: "Clone()-and-continue", enabled: always, apply: func(w *world) string {
		c := csproto.Clone(w.x)
		if c == nil {
			return "Clone returned nil"
		}
		w.x = c
		return ""
	}})
	return out
}

func trunc(b []byte) []byte {
	if len(b) > 48 {
		return b[:48]
	}
	return b
}

type explorer struct {
	r      *ev.Run
	t      *gcore.Type
	ops    []op
	depth  int
	states map[string]bool
	trans  int64
	leaves int64
}

func (e *explorer) fresh() *world {
	return &world{t: e.t, x: e.t.New(), model: dynamicpb.NewMessage(e.t.RefDesc()), rt: runtimeOf(e.t.RT)}
}

func (e *explorer) key(w *world) string {
	var sb strings.Builder
	sb.Write(canonical(w.model))
	for _, c := range cacheWords(w.x) {
		fmt.Fprintf(&sb, "|%d", *c)
	}
	return sb.String()
}

// run replays seq on a fresh instance; returns the index of the first failing op (or -1) and its message.
func (e *explorer) run(seq []int, zeroCachesBefore int) (int, string, *world) {
	w := e.fresh()
	for i, oi := range seq {
		o := &e.ops[oi]
		if !o.enabled(w) {
			return -2, "", w
		}
		if i == zeroCachesBefore {
			for _, c := range cacheWords(w.x) {
				*c = 0
			}
		}
		var msg string
		if p := guard(func() { msg = o.apply(w) }); p != "" {
			msg = "panic: " + p
		}
		w.log = append(w.log, o.name)
		if msg != "" {
			return i, msg, w
		}
	}
	return -1, "", w
}

func (e *explorer) dfs(seq []int) {
	if len(seq) == e.depth {
		e.leaves++
		idx, msg, w := e.run(seq, -1)
		if idx == -2 {
			return
		}
		e.trans += int64(len(seq))
		if idx >= 0 {
			// mechanism test: the same history with every size-cache word zeroed right before the failing call
			mech := "other"
			var lastMut string
			lastMutIdx := -1
			for j := idx - 1; j >= 0; j-- {
				if !e.ops[seq[j]].observe {
					lastMut, lastMutIdx = e.ops[seq[j]].name, j
					break
				}
			}
			if idx2, _, _ := e.run(seq[:idx+1], idx); idx2 == -1 {
				// the caches explain it; staleness needs a cache-writing call BEFORE the last mutation
				observedBefore := false
				for j := 0; j < lastMutIdx; j++ {
					if e.ops[seq[j]].observe || strings.HasPrefix(e.ops[seq[j]].name, "Clone") {
						observedBefore = true
					}
				}
				if observedBefore {
					mech = "stale-size-cache-after-mutation"
				} else {
					mech = "size-cache-wrong-without-intervening-mutation"
				}
			}
			sig := fmt.Sprintf("C09/history/%s/%s/%s", e.t.RT, e.ops[seq[idx]].name, mech)
			e.r.Fail(sig, fmt.Sprintf("%s %v", e.t, w.log), map[string]any{"type": e.t.String(), "history": w.log, "failing_op": e.ops[seq[idx]].name, "msg": msg, "mechanism": mech, "last_mutation": lastMut})
			return
		}
		e.states[e.key(w)] = true
		return
	}
	for oi := range e.ops {
		// prune histories that can never be enabled: check enabling along the prefix cheaply by replay at the leaf
		e.dfs(append(seq, oi))
	}
}

// ---- schedules: concurrent Size/Marshal on a message nobody mutates

func scheduleScenarios(r *ev.Run, t *gcore.Type) {
	rt := runtimeOf(t.RT)
	build := func() any {
		x := t.New()
		m := gcore.Reflect(x)
		m.Set(field(m, 1), protoreflect.ValueOfInt32(300))
		m.Set(field(m, 2), protoreflect.ValueOfString(s128))
		n := m.Mutable(field(m, 3)).Message()
		n.Set(field(n, 2), protoreflect.ValueOfString("nested"))
		l := m.Mutable(field(m, 4)).List()
		e := l.NewElement()
		e.Message().Set(field(e.Message(), 1), protoreflect.ValueOfInt32(7))
		l.Append(e)
		return x
	}
	want := func() []byte {
		d := dynamicpb.NewMessage(t.RefDesc())
		gcore.Copy(d, gcore.Reflect(build()))
		return canonical(d)
	}()
	calls := []struct {
		name string
		f    func(x any) string
	}{
		{"Size", func(x any) string {
			if n := x.(sizer).Size(); n != len(want) {
				return fmt.Sprintf("Size()=%d want %d", n, len(want))
			}
			return ""
		}},
		{"Marshal", func(x any) string {
			b, err := x.(marshaler).Marshal()
			if err != nil || !bytes.Equal(b, want) {
				return fmt.Sprintf("Marshal()=%x err=%v want %x", trunc(b), err, trunc(want))
			}
			return ""
		}},
		{"csproto.Marshal", func(x any) string {
			b, err := csproto.Marshal(x)
			if err != nil || !bytes.Equal(b, want) {
				return fmt.Sprintf("csproto.Marshal=%x err=%v", trunc(b), err)
			}
			return ""
		}},
		{"runtime.Marshal", func(x any) string {
			b, err := rt.marshal(x)
			if err != nil || !bytes.Equal(b, want) {
				return fmt.Sprintf("runtime Marshal=%x err=%v", trunc(b), err)
			}
			return ""
		}},
		{"runtime.Size", func(x any) string {
			if n := rt.size(x); n != len(want) {
				return fmt.Sprintf("runtime Size=%d want %d", n, len(want))
			}
			return ""
		}},
	}
	type scen struct {
		name    string
		threads [][]int // call indices per thread
		prep    string  // cold | warm | runtime-warmed
		pb      int
	}
	pb2 := 3
	if r.Thorough() {
		pb2 = 5
	}
	scens := []scen{
		{"2thr: Marshal | Marshal (cold caches)", [][]int{{1}, {1}}, "cold", pb2},
		{"2thr: Size,Marshal | csproto.Marshal (cold)", [][]int{{0, 1}, {2}}, "cold", pb2},
		{"2thr: Marshal | runtime.Marshal (warm)", [][]int{{1}, {3}}, "warm", pb2},
		{"2thr: Marshal | runtime.Size (cold)", [][]int{{1}, {4}}, "cold", pb2},
		{"2thr: Marshal | Marshal (caches written by the runtime)", [][]int{{1}, {1}}, "runtime-warmed", pb2},
		{"3thr: Marshal | Size | csproto.Marshal (cold)", [][]int{{1}, {0}, {2}}, "cold", 2},
	}
	if r.Thorough() {
		scens = append(scens, scen{"3thr: Marshal | Marshal | runtime.Marshal (cold)", [][]int{{1}, {1}, {3}}, "cold", 3},
			scen{"3thr: Size,Marshal | Marshal | Size (warm)", [][]int{{0, 1}, {1}, {0}}, "warm", 3})
	}
	for _, sc := range scens {
		sc := sc
		mk := func() vsync.Harness {
			x := build()
			switch sc.prep {
			case "warm":
				_ = x.(sizer).Size()
			case "runtime-warmed":
				_ = rt.size(x)
			}
			var bodies []func()
			for ti, cs := range sc.threads {
				ti, cs := ti, cs
				bodies = append(bodies, func() {
					for _, ci := range cs {
						vsync.Point("api:" + calls[ci].name)
						var msg string
						if p := guard(func() { msg = calls[ci].f(x) }); p != "" {
							msg = "panic: " + p
						}
						if msg != "" {
							vsync.Failf("C09/schedule/"+string(t.RT)+"/"+calls[ci].name+"/"+sc.prep, "T%d %s: %s", ti, calls[ci].name, msg)
						}
					}
				})
			}
			return vsync.Harness{Threads: bodies}
		}
		st := vsync.Explore(vsync.Config{Preemptions: sc.pb}, mk)
		if st.Diverged > 0 {
			r.Cap(fmt.Sprintf("schedule scenario: %d executions did not reproduce their prefix (%s): exploration incomplete, see the race pass", st.Diverged, st.DivergedExample))
		}
		r.Traces(st.Execs)
		r.States(st.Points)
		r.Transitions(st.Points)
		r.AddTo("schedule_executions/"+string(t.RT)+"/"+sc.name, st.Execs)
		for sig, n := range st.FailsBySig {
			x := st.FailExample[sig]
			tr := vsync.RunOne(x.Choices(), mk)
			r.Fail(sig, fmt.Sprintf("%s %s %v", t, sc.name, x.Choices()), map[string]any{"type": t.String(), "scenario": sc.name, "choices": x.Choices(), "failures": x.Fails, "trace": tr.Trace, "executions_failing": n})
		}
		if t.RT == corpus.GV2 && strings.HasPrefix(sc.name, "2thr: Size,Marshal") {
			ex := vsync.RunOne([]int{1, 0, 1}, mk)
			r.Sample(map[string]any{"type": t.String(), "scenario": sc.name, "choices": ex.Choices(), "trace": ex.Trace})
		}
	}
}

// plainHistories: messages WITHOUT fast-marshal methods (csproto hands them to the owning runtime, which keeps size
// caches in the message and its sub-messages). All histories of length <= 4 over {csproto.Size, csproto.Marshal,
// runtime Size, grow a sub-message, shrink a sub-message}; after every step csproto.Marshal of the message must equal
// what the runtime produces for a deep copy of its current contents.
func plainHistories(r *ev.Run) {
	type plain struct {
		name   string
		mk     func() proto.Message
		grow   func(m proto.Message)
		shrink func(m proto.Message)
	}
	subjects := []plain{
		{"structpb.Value{list}", func() proto.Message {
			l, _ := structpb.NewList([]any{"a", 2.0})
			return structpb.NewListValue(l)
		}, func(m proto.Message) {
			l := m.(*structpb.Value).GetListValue()
			l.Values[0] = structpb.NewStringValue(l.Values[0].GetStringValue() + strings.Repeat("b", 70))
		}, func(m proto.Message) {
			l := m.(*structpb.Value).GetListValue()
			l.Values[0] = structpb.NewStringValue("")
		}},
		{"descriptorpb.DescriptorProto{nested}", func() proto.Message {
			return &descriptorpb.DescriptorProto{Name: proto.String("M"), NestedType: []*descriptorpb.DescriptorProto{{Name: proto.String("N")}}}
		}, func(m proto.Message) {
			n := m.(*descriptorpb.DescriptorProto).NestedType[0]
			n.Name = proto.String(n.GetName() + strings.Repeat("N", 130))
		}, func(m proto.Message) {
			m.(*descriptorpb.DescriptorProto).NestedType[0].Name = proto.String("")
		}},
	}
	ops := []string{"csproto.Size", "csproto.Marshal", "runtime.Size", "grow", "shrink"}
	var hist int64
	for _, sj := range subjects {
		var dfs func(h []int)
		dfs = func(h []int) {
			if len(h) > 0 {
				m := sj.mk()
				for _, o := range h {
					switch ops[o] {
					case "csproto.Size":
						_ = csproto.Size(m)
					case "csproto.Marshal":
						_, _ = csproto.Marshal(m)
					case "runtime.Size":
						_ = proto.Size(m)
					case "grow":
						sj.grow(m)
					case "shrink":
						sj.shrink(m)
					}
				}
				hist++
				want, _ := proto.MarshalOptions{Deterministic: true}.Marshal(proto.Clone(m))
				got, err := csproto.Marshal(m)
				if err != nil || !bytes.Equal(got, want) {
					names := make([]string, len(h))
					for i, o := range h {
						names[i] = ops[o]
					}
					r.Fail("C09/plain-message-history/"+sj.name, sj.name+" :: "+strings.Join(names, ";"), map[string]any{"history": names, "error": fmt.Sprint(err), "got": fmt.Sprintf("%x", got), "want": fmt.Sprintf("%x", want)})
					return
				}
			}
			if len(h) == 4 {
				return
			}
			for o := range ops {
				dfs(append(append([]int{}, h...), o))
			}
		}
		dfs(nil)
	}
	r.AddTo("plain_message_histories", hist)
}

func main() {
	r := ev.Start("C09", "model_checking")
	depth := 4
	var nStates, nTrans, nLeaves int64
	for _, t := range gcore.Types() {
		if t.File != "p3" && t.File != "p2" || t.Name != "Child" {
			continue
		}
		if !r.Thorough() && (t.RT == corpus.GV1) {
			continue
		}
		all := ops()
		if !r.Thorough() { // quick: a representative sub-alphabet (every mechanism class once), one step deeper
			var sub []op
			for _, o := range all {
				switch o.name {
				case "a=1", "a=300", "s=len127", "s=len128", "next={}", "next.s=len128(nested only)", "kids+={a:1}", "kids.truncate", "kids[0].s=len127(nested only)",
					"Size()", "Marshal()", "MarshalTo(exact)", "csproto.Marshal", "runtime.Size", "runtime.Marshal", "Unmarshal(b1)", "Unmarshal(b2)", "Reset()", "Clone()-and-continue":
					sub = append(sub, o)
				}
			}
			all = sub
		}
		e := &explorer{r: r, t: t, ops: all, depth: depth, states: map[string]bool{}}
		e.dfs(nil)
		nStates += int64(len(e.states))
		nTrans += e.trans
		nLeaves += e.leaves
		r.AddTo("histories/"+t.String(), e.leaves)
		scheduleScenarios(r, t)
	}
	plainHistories(r)
	plainChildHistories(r)
	dirtyDestination(r)
	observerHistories(r)
	racePass(r)
	runtime.GC()
	r.States(nStates)
	r.Transitions(nTrans)
	r.Traces(nLeaves)
	r.Evals(nLeaves)
	r.Nontrivial(nStates)
	r.Set("history_depth", depth)
	r.Set("operation_alphabet_full", func() []string {
		var n []string
		for _, o := range ops() {
			n = append(n, o.name)
		}
		return n
	}())
	r.Sample(map[string]any{"history": []string{"s=len127", "Size()", "next={}", "Marshal()"}, "note": "every observer result is compared with the reference marshal of a FRESH tree built from the model contents"})
	r.Rule(fmt.Sprintf("Mode Q: for the recursive corpus message Child {int32 a, string s, Child next, repeated Child kids} of p2 and p3 on every runtime: ALL operation sequences of length %d over the operation alphabet listed under operation_alphabet (quick: an 18-operation sub-alphabet; thorough: all 27) (set/clear scalar, grow/shrink string across the 127/128 length boundary, set/clear nested message, mutate the NESTED message only, append/truncate list, mutate a list element only, Size, Marshal, MarshalTo, csproto.Size/Marshal, the owning runtime's Size/Marshal, Unmarshal of two inputs, Reset, Clone-and-continue), replayed on a fresh real message; every observer must return exactly the reference marshal of a fresh tree built from the model contents and nothing may panic. states = distinct (contents, all size-cache words of the tree) reached, transitions = operations executed. Plain messages (no generated methods; the runtime keeps size caches in them): all histories of length <= 4 over {csproto.Size, csproto.Marshal, runtime Size, grow, shrink} on two plain types, and on a well-known-type child (Timestamp, Struct) that is then placed - singular, oneof, list, map value, required, one generated level down - into a NEW generated parent whose csproto.Marshal / Marshal / Size+MarshalTo must equal the bytes of a deep copy. Dirty destinations: for ten bool/zero-bearing corpus types and every single-field / all-fields tree the history Marshal ; MarshalTo(destination full of 0xFF) ; Size ; MarshalTo(destination holding an earlier output shifted by one byte) ; csproto.Marshal gives the bytes of a fresh copy at every step. Observer-only histories: every sequence of <= 3 calls over the seven observers, no mutation, on every extension-bearing corpus message (each extension alone at two values, all together) and on the special trees of p2/p3/p3opt/p2def messages: each answer equals the answer of a fresh copy. A failing history is re-run with every size-cache word zeroed right before the failing call to attribute it to the size-cache mechanism. Mode S: 2-3 goroutines calling Size/Marshal/csproto.Marshal/runtime Size/Marshal on one shared nested message nobody mutates, caches cold / warm / written by the runtime; scheduling points at every atomic load/store of the generated code and at API boundaries; preemption bound 3 (thorough 5) for 2 threads, 2 (3) for 3 threads.", depth))
	r.Assume("runtime Size/Marshal are single atomic steps of the scheduler; finer interleavings inside the third-party runtimes and data races as such are outside a cooperative scheduler's reach")
	r.Finish()
}

// racePass: free-running -race complement (sampling; never the deciding step).
func racePass(r *ev.Run) {
	if os.Getenv("VERIF_SKIP_RACE") != "" {
		r.Set("race_pass", map[string]any{"sampling": true, "skipped": true})
		return
	}
	cmd := exec.Command("go", "test", "-race", "-count=1", "-vet=off", "./checks/c15race", "-run", "TestC09RacePass", "-v", "-args", "-iters", ev.Pick(r, "300", "3000"))
	cmd.Dir = ev.VerifDir() + "/mc"
	cmd.Env = append(os.Environ(), "GOFLAGS=-mod=mod", "GOPROXY=off", "GOSUMDB=off", "GOTOOLCHAIN=local")
	out, err := cmd.CombinedOutput()
	s := string(out)
	res := map[string]any{"sampling": true, "cmd": strings.Join(cmd.Args, " ")}
	switch {
	case strings.Contains(s, "DATA RACE"):
		i := strings.Index(s, "WARNING: DATA RACE")
		rep := s[i:]
		if len(rep) > 3000 {
			rep = rep[:3000]
		}
		r.Fail("C09/race-detector-report", "free-running -race pass", map[string]any{"report": rep})
		res["result"] = "DATA RACE"
	case strings.Contains(s, "ISOLATION-FAILURE"):
		r.Fail("C09/race-pass/wrong-bytes", "free-running -race pass", map[string]any{"report": s[strings.Index(s, "ISOLATION-FAILURE"):][:min(800, len(s)-strings.Index(s, "ISOLATION-FAILURE"))]})
		res["result"] = "wrong bytes"
	case err != nil:
		tail := s
		if len(tail) > 1200 {
			tail = tail[len(tail)-1200:]
		}
		r.Internal("race pass could not run: %v: %s", err, tail)
	default:
		res["result"] = "no race reported"
		for _, l := range strings.Split(s, "\n") {
			if strings.HasPrefix(l, "RACEPASS ") {
				res["summary"] = l
			}
		}
	}
	r.Set("race_pass", res)
}
