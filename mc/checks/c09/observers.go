package main

// Observer-only histories: nobody mutates the message; every sequence of <= 3 calls over {Size, Marshal, MarshalTo,
// csproto.Size, csproto.Marshal, runtime Size, runtime Marshal} on messages of the WHOLE corpus that hold proto2
// extensions, unknown fields, oneofs, maps or nested messages (the recursive Child subject of the main exploration has
// none of the first two). Each observer's answer must be the answer on a fresh copy: what one observer leaves in the
// message (size-cache words, written by generated code and by the runtime in their own representations) must be read
// correctly by every other observer.

import (
	"bytes"
	"fmt"

	"github.com/CrowdStrike/csproto"
	"google.golang.org/protobuf/proto"
	"google.golang.org/protobuf/types/dynamicpb"

	"verif/mc/lib/ev"
	"verif/mc/lib/gcore"
)

func observerHistories(r *ev.Run) {
	type obs struct {
		name string
		f    func(x any, rt rtFuncs, want []byte) (got []byte, size int, err error)
	}
	observers := []obs{
		{"Size()", func(x any, _ rtFuncs, _ []byte) ([]byte, int, error) { return nil, x.(sizer).Size(), nil }},
		{"Marshal()", func(x any, _ rtFuncs, _ []byte) ([]byte, int, error) { b, err := x.(marshaler).Marshal(); return b, -1, err }},
		{"MarshalTo(exact)", func(x any, _ rtFuncs, want []byte) ([]byte, int, error) {
			d := bytes.Repeat([]byte{0xA5}, len(want))
			err := x.(marshalerTo).MarshalTo(d)
			return d, -1, err
		}},
		{"csproto.Size", func(x any, _ rtFuncs, _ []byte) ([]byte, int, error) { return nil, csproto.Size(x), nil }},
		{"csproto.Marshal", func(x any, _ rtFuncs, _ []byte) ([]byte, int, error) { b, err := csproto.Marshal(x); return b, -1, err }},
		{"runtime.Size", func(x any, rt rtFuncs, _ []byte) ([]byte, int, error) { return nil, rt.size(x), nil }},
		{"runtime.Marshal", func(x any, rt rtFuncs, _ []byte) ([]byte, int, error) { b, err := rt.marshal(x); return b, -1, err }},
	}
	var seqs [][]int
	for a := range observers {
		for b := range observers {
			seqs = append(seqs, []int{a, b})
			for c := range observers {
				if r.Thorough() || a != b && b != c {
					seqs = append(seqs, []int{a, b, c})
				}
			}
		}
	}
	var n, subjects int64
	for _, t := range gcore.Types() {
		if _, ok := t.New().(marshalerTo); !ok {
			continue
		}
		if !r.Thorough() && t.RT == "gv1" {
			continue
		}
		var cs []gcore.Case
		ext := gcore.ExtCases(t, false)
		switch {
		case len(ext) > 0:
			// every extension alone at its first two values, and all together
			seen := map[string]int{}
			for _, c := range ext {
				k := c.ID
				if i := bytes.IndexByte([]byte(k), '='); i >= 0 {
					k = k[:i]
				}
				if seen[k] < 2 {
					seen[k]++
					cs = append(cs, c)
				}
			}
		case t.File == "p2" || t.File == "p3" || t.File == "p3opt" || t.File == "p2def":
			cs = gcore.Specials(t.RefDesc())
		default:
			continue
		}
		rt := runtimeOf(t.RT)
		for _, c := range cs {
			if multiEntry(c.Msg) || !initializedTree(c.Msg) {
				continue
			}
			mk := func() (x any, ok bool) {
				x = t.New()
				if p := guard(func() {
					gcore.Copy(gcore.Reflect(x), c.Msg)
					if err := gcore.SetExts(t, x, c.Msg); err != nil {
						panic(err)
					}
				}); p != "" {
					return nil, false
				}
				return x, true
			}
			x0, ok := mk()
			if !ok {
				continue
			}
			var want []byte
			var werr error
			if p := guard(func() { want, werr = x0.(marshaler).Marshal() }); p != "" || werr != nil {
				continue // known generated-code limitations (repeated / file-scope extensions) are C04/C05 findings
			}
			if !sameTree(t, want, canonical(c.Msg)) {
				continue // what a fresh Marshal yields is C05's business (file-scope / repeated extensions are recorded findings there)
			}
			subjects++
			id0 := t.String() + " :: " + c.ID
			for _, seq := range seqs {
				x, _ := mk()
				n++
				var names []string
				for _, oi := range seq {
					o := observers[oi]
					names = append(names, o.name)
					var got []byte
					var size int
					var err error
					p := guard(func() { got, size, err = o.f(x, rt, want) })
					bad := ""
					switch {
					case p != "" || err != nil:
						bad = fmt.Sprintf("panic=%q err=%v", p, err)
					case size >= 0 && size != len(want):
						bad = fmt.Sprintf("size %d, a fresh copy marshals to %d bytes", size, len(want))
					case size < 0 && !bytes.Equal(got, want):
						// the runtime may order the fields differently from the generated code: compare what the reference reads
						if o.name == "runtime.Marshal" && len(got) == len(want) && sameTree(t, got, want) {
							break
						}
						bad = fmt.Sprintf("bytes %x, a fresh copy marshals to %x", trunc(got), trunc(want))
					}
					if bad != "" {
						r.Fail("C09/observer-history/"+string(t.RT)+"/"+o.name+"/answer-differs-from-a-fresh-copy", id0+" "+fmt.Sprint(names), map[string]any{"type": t.String(), "case": c.ID, "history": names, "msg": bad})
						break
					}
				}
			}
		}
	}
	if subjects == 0 {
		r.Internal("observerHistories: no subject")
	}
	r.AddTo("observer_only_histories", n)
	r.AddTo("observer_only_subjects", subjects)
}

func initializedTree(m *dynamicpb.Message) bool {
	return m.IsValid() && proto.CheckInitialized(m) == nil
}

func sameTree(t *gcore.Type, a, b []byte) bool {
	da, db := dynamicpb.NewMessage(t.RefDesc()), dynamicpb.NewMessage(t.RefDesc())
	o := proto.UnmarshalOptions{AllowPartial: true, Resolver: t.Resolver()}
	if o.Unmarshal(a, da) != nil || o.Unmarshal(b, db) != nil {
		return false
	}
	return gcore.Diff(da, db) == ""
}
