//go:build verifshim

package main

import (
	"bytes"
	"fmt"

	"github.com/CrowdStrike/csproto"
	"google.golang.org/protobuf/reflect/protoreflect"

	"verif/mc/lib/ev"
	"verif/mc/lib/gcore"
)

// dirtyDestination: MarshalTo is the entry point that writes into memory the CALLER owns - typically a scratch buffer that
// held another message a moment ago. For every scalar-bearing corpus type (explicit false / zero values included) and every
// single-field and all-fields tree: the history Marshal ; MarshalTo(dest full of 0xFF) ; Size ; MarshalTo(dest holding the
// previous output shifted by one byte) ; csproto.Marshal must give, at every step, exactly the bytes of a fresh copy - what
// the destination held before may not show through.
func dirtyDestination(r *ev.Run) {
	var n int64
	for _, t := range gcore.Types() {
		switch t.File + "." + t.Name {
		case "p2.Scalars", "p3.Scalars", "p2.Oneofs", "p3.Oneofs", "p2.Repeated", "p3.Repeated", "p2.Packed", "p3opt.Opt", "p2.MapsV", "p3.MapsV":
		default:
			continue
		}
		if _, ok := t.New().(marshalerTo); !ok {
			continue
		}
		cs := append(gcore.Singles(t.RefDesc(), false), gcore.Specials(t.RefDesc())...)
		for _, c := range cs {
			if multiEntry(c.Msg) {
				continue
			}
			x := t.New()
			if p := guard(func() { gcore.Copy(gcore.Reflect(x), c.Msg) }); p != "" {
				continue
			}
			want := canonical(c.Msg)
			id := t.String() + " :: " + c.ID
			fail := func(step string, got []byte, err error, p string) {
				r.Fail("C09/dirty-destination/"+string(t.RT)+"/"+step, id, map[string]any{"type": t.String(), "case": c.ID, "step": step, "got": fmt.Sprintf("%x", got), "want": fmt.Sprintf("%x", want), "error": fmt.Sprint(err), "panic": p})
			}
			var b []byte
			var err error
			if p := guard(func() { b, err = x.(marshaler).Marshal() }); p != "" || err != nil {
				continue // not this clause's business (required fields, known stale-cache finding)
			}
			if !bytes.Equal(b, want) {
				continue // the reference orders something differently (e.g. oneof position): compare the steps with b instead
			}
			n++
			dest := bytes.Repeat([]byte{0xFF}, len(want))
			if p := guard(func() { err = x.(marshalerTo).MarshalTo(dest) }); p != "" || err != nil || !bytes.Equal(dest, want) {
				fail("MarshalTo(destination full of 0xFF)", dest, err, p)
				continue
			}
			var sz int
			if p := guard(func() { sz = x.(sizer).Size() }); p != "" || sz != len(want) {
				fail("Size()", nil, fmt.Errorf("Size()=%d", sz), p)
				continue
			}
			dest2 := make([]byte, len(want))
			if len(want) > 1 {
				copy(dest2, want[1:]) // the previous output, shifted: every position holds a plausible but wrong byte
				dest2[len(want)-1] = want[0] | 0x80
			}
			if p := guard(func() { err = x.(marshalerTo).MarshalTo(dest2) }); p != "" || err != nil || !bytes.Equal(dest2, want) {
				fail("MarshalTo(destination holding an earlier output)", dest2, err, p)
				continue
			}
			var cb []byte
			if p := guard(func() { cb, err = csproto.Marshal(x) }); p != "" || err != nil || !bytes.Equal(cb, want) {
				fail("csproto.Marshal afterwards", cb, err, p)
			}
		}
	}
	if n == 0 {
		r.Internal("dirtyDestination: no subject")
	}
	r.AddTo("dirty_destination_histories", n)
}

// multiEntry: some map of the tree (at any depth) has more than one entry, so two encodings may order them differently.
func multiEntry(m protoreflect.Message) bool {
	multi := false
	m.Range(func(fd protoreflect.FieldDescriptor, v protoreflect.Value) bool {
		switch {
		case fd.IsMap():
			if v.Map().Len() > 1 {
				multi = true
			}
			if fd.MapValue().Message() != nil {
				v.Map().Range(func(_ protoreflect.MapKey, x protoreflect.Value) bool {
					multi = multi || multiEntry(x.Message())
					return true
				})
			}
		case fd.IsList() && fd.Message() != nil:
			for i := 0; i < v.List().Len(); i++ {
				multi = multi || multiEntry(v.List().Get(i).Message())
			}
		case fd.Message() != nil:
			multi = multi || multiEntry(v.Message())
		}
		return !multi
	})
	return multi
}
