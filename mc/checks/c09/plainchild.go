//go:build verifshim

package main

import (
	"bytes"
	"fmt"
	"strings"

	"github.com/CrowdStrike/csproto"
	"google.golang.org/protobuf/proto"
	"google.golang.org/protobuf/reflect/protoreflect"
	"google.golang.org/protobuf/types/known/structpb"
	"google.golang.org/protobuf/types/known/timestamppb"

	"verif/mc/lib/ev"
	"verif/mc/lib/gcore"
)

// plainChildHistories: a message WITHOUT fast-marshal methods (a well-known type, sized and marshaled by its runtime, which
// leaves size caches in it) that lives inside a message WITH generated methods.  Every history of length <= 4 over
// {csproto.Size(child), csproto.Marshal(child), runtime Size(child), marshal an earlier parent that holds the child, grow the
// child, shrink the child}; after every history the child is put into a NEW generated parent (singular / repeated / map value /
// oneof position, directly or one generated level further down) and csproto.Marshal, the generated Marshal and Size+MarshalTo
// of that parent must give the bytes of a deep copy of the current contents.
func plainChildHistories(r *ev.Run) {
	type child struct {
		name   string
		mk     func() proto.Message
		grow   func(proto.Message)
		shrink func(proto.Message)
	}
	children := []child{
		{"Timestamp", func() proto.Message { return &timestamppb.Timestamp{Seconds: 1} },
			func(m proto.Message) { t := m.(*timestamppb.Timestamp); t.Seconds = 1 << 40; t.Nanos = 999999999 },
			func(m proto.Message) { t := m.(*timestamppb.Timestamp); t.Seconds = 0; t.Nanos = 0 }},
		{"Struct", func() proto.Message {
			s, _ := structpb.NewStruct(map[string]any{"k": "v"})
			return s
		}, func(m proto.Message) {
			m.(*structpb.Struct).Fields["k"] = structpb.NewStringValue(strings.Repeat("x", 200))
		}, func(m proto.Message) {
			delete(m.(*structpb.Struct).Fields, "k")
		}},
	}
	// positions: how a child gets into a new parent of type t (by reflection only: no generated method is involved)
	type position struct {
		typ, child, name string
		put              func(p protoreflect.Message, c proto.Message)
	}
	fd := func(m protoreflect.Message, n string) protoreflect.FieldDescriptor {
		f := m.Descriptor().Fields().ByName(protoreflect.Name(n))
		if f == nil {
			panic("no field " + n + " in " + string(m.Descriptor().FullName()))
		}
		return f
	}
	set := func(n string) func(p protoreflect.Message, c proto.Message) {
		return func(p protoreflect.Message, c proto.Message) {
			p.Set(fd(p, n), protoreflect.ValueOfMessage(c.ProtoReflect()))
		}
	}
	positions := []position{
		{"Holder", "Timestamp", "Holder.ts", set("ts")},
		{"Wkt", "Timestamp", "Wkt.f_timestamp", set("f_timestamp")},
		{"Wkt", "Timestamp", "Wkt.o_ts(oneof)", set("o_ts")},
		{"Wkt", "Timestamp", "Wkt.r_ts[1]", func(p protoreflect.Message, c proto.Message) {
			l := p.Mutable(fd(p, "r_ts")).List()
			l.Append(protoreflect.ValueOfMessage((&timestamppb.Timestamp{Nanos: 5}).ProtoReflect()))
			l.Append(protoreflect.ValueOfMessage(c.ProtoReflect()))
		}},
		{"Wkt", "Timestamp", "Wkt.m_ts[k]", func(p protoreflect.Message, c proto.Message) {
			p.Mutable(fd(p, "m_ts")).Map().Set(protoreflect.ValueOfString("k").MapKey(), protoreflect.ValueOfMessage(c.ProtoReflect()))
		}},
		{"Holder", "Timestamp", "Holder.w.f_timestamp+tail", func(p protoreflect.Message, c proto.Message) {
			w := p.Mutable(fd(p, "w")).Message()
			w.Set(fd(w, "f_timestamp"), protoreflect.ValueOfMessage(c.ProtoReflect()))
			w.Set(fd(w, "tail"), protoreflect.ValueOfInt32(7))
		}},
		{"Wkt", "Struct", "Wkt.f_struct+tail", func(p protoreflect.Message, c proto.Message) {
			p.Set(fd(p, "f_struct"), protoreflect.ValueOfMessage(c.ProtoReflect()))
			p.Set(fd(p, "tail"), protoreflect.ValueOfInt32(7))
		}},
		{"Wkt2", "Timestamp", "Wkt2.ts(required)+n", func(p protoreflect.Message, c proto.Message) {
			p.Set(fd(p, "ts"), protoreflect.ValueOfMessage(c.ProtoReflect()))
			p.Set(fd(p, "n"), protoreflect.ValueOfInt32(7))
		}},
	}
	ops := []string{"csproto.Size(child)", "csproto.Marshal(child)", "runtime.Size(child)", "csproto.Marshal(earlier parent)", "grow", "shrink"}
	var hist, parents int64
	for _, t := range gcore.Types() {
		if t.File != "p3wkt" && t.File != "p2wkt" {
			continue
		}
		for _, pos := range positions {
			if pos.typ != t.Name {
				continue
			}
			var ch *child
			for i := range children {
				if children[i].name == pos.child {
					ch = &children[i]
				}
			}
			parents++
			var dfs func(h []int)
			dfs = func(h []int) {
				if len(h) > 0 {
					c := ch.mk()
					for _, o := range h {
						switch ops[o] {
						case "csproto.Size(child)":
							_ = csproto.Size(c)
						case "csproto.Marshal(child)":
							_, _ = csproto.Marshal(c)
						case "runtime.Size(child)":
							_ = proto.Size(c)
						case "csproto.Marshal(earlier parent)":
							ep := t.New()
							pos.put(gcore.Reflect(ep), c)
							_, _ = csproto.Marshal(ep)
						case "grow":
							ch.grow(c)
						case "shrink":
							ch.shrink(c)
						}
					}
					hist++
					names := make([]string, len(h))
					for i, o := range h {
						names[i] = ops[o]
					}
					id := t.String() + " :: " + pos.name + " :: " + strings.Join(names, ";")
					// reference: the same position filled with a deep copy of the child's current contents, marshaled from a
					// dynamic copy of the parent (no generated code, no cache of the subject)
					fresh := ch.mk()
					proto.Reset(fresh)
					proto.Merge(fresh, c)
					rp := t.New()
					pos.put(gcore.Reflect(rp), fresh)
					want := canonical(gcore.ToDyn(t.Desc, gcore.Reflect(rp)))
					observers := []struct {
						name string
						f    func(x any) ([]byte, error)
					}{
						{"csproto.Marshal", func(x any) ([]byte, error) { return csproto.Marshal(x) }},
						{"Marshal()", func(x any) ([]byte, error) { return x.(marshaler).Marshal() }},
						{"Size()+MarshalTo", func(x any) ([]byte, error) {
							b := make([]byte, x.(sizer).Size())
							err := x.(marshalerTo).MarshalTo(b)
							return b, err
						}},
						{"csproto.Size+MarshalTo", func(x any) ([]byte, error) {
							b := make([]byte, csproto.Size(x))
							err := x.(marshalerTo).MarshalTo(b)
							return b, err
						}},
					}
					for _, ob := range observers {
						np := t.New()
						pos.put(gcore.Reflect(np), c)
						var got []byte
						var err error
						if p := guard(func() { got, err = ob.f(np) }); p != "" {
							r.Fail("C09/plain-child-in-generated-parent/panic/"+string(t.RT)+"/"+pos.name+"/"+ob.name, id, map[string]any{"history": names, "observer": ob.name, "panic": p})
							return
						}
						if err != nil || !sameFields(got, want) {
							r.Fail("C09/plain-child-in-generated-parent/bytes-differ-from-fresh-copy/"+string(t.RT)+"/"+pos.name+"/"+ob.name, id, map[string]any{"history": names, "observer": ob.name, "error": fmt.Sprint(err), "got": fmt.Sprintf("%x", got), "want": fmt.Sprintf("%x", want)})
							return
						}
					}
				}
				if len(h) == 4 {
					return
				}
				for o := range ops {
					dfs(append(append([]int{}, h...), o))
				}
			}
			dfs(nil)
		}
	}
	if parents == 0 {
		r.Internal("no well-known-type parent in the linked corpus")
	}
	r.AddTo("plain_child_histories", hist)
	r.AddTo("plain_child_positions", parents)
}

// sameFields: byte equality (all subjects have at most one map entry, so map order cannot differ)
func sameFields(a, b []byte) bool { return bytes.Equal(a, b) }
