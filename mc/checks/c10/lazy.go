package main

import (
	"fmt"

	"github.com/CrowdStrike/csproto"
	"github.com/CrowdStrike/csproto/lazyproto"

	"verif/mc/lib/ev"
	"verif/mc/lib/lazyref"
	"verif/mc/lib/refwire"
)

// lazyClause: every lazyproto accessor in safe mode, both entry points, top-level and nested results,
// after the caller overwrote / zeroed / recycled the buffer it passed to Decode.
func lazyClause(r *ev.Run) {
	key := func(n, wt int) []byte { return refwire.AppendKey(nil, n, wt) }
	vi := func(n int, v uint64) []byte { return refwire.AppendVarint(key(n, 0), v) }
	ln := func(n int, p []byte) []byte { return refwire.AppendBytes(key(n, 2), p) }
	cat := func(ps ...[]byte) []byte {
		var o []byte
		for _, p := range ps {
			o = append(o, p...)
		}
		return o
	}
	t1 := [][]byte{cat(vi(1, 300), vi(1, 1<<40)), ln(1, cat(refwire.AppendVarint(nil, 9), refwire.AppendVarint(nil, 70000))), cat(ln(1, []byte("first")), ln(1, nil), ln(1, []byte("third")))}
	t2 := [][]byte{ln(2, cat(vi(1, 77), ln(2, vi(1, 88)))), cat(ln(2, vi(1, 5)), ln(2, cat(vi(1, 6), ln(2, ln(3, []byte("deep"))))))}
	t3 := [][]byte{refwire.AppendFixed32(key(3, 5), 0xdeadbeef), refwire.AppendFixed64(key(3, 1), 0x0102030405060708), ln(3, []byte("bytes-or-string-value"))}
	def := lazyproto.NewDef(1, 3, -2)
	n := def.NestedTag(2, 1)
	n.NestedTag(2, 1, 3)
	accs := lazyref.BuildAccessors()
	dec, err := lazyproto.NewDecoder(def, lazyproto.WithMode(csproto.DecoderModeSafe))
	if err != nil {
		r.Internal("lazyproto.NewDecoder: %v", err)
		return
	}
	other := cat(vi(1, 424242), ln(2, vi(1, 434343)), ln(3, []byte("OTHER-MESSAGE-OTHER-MESSAGE")))
	var calls, cases int64
	for _, a := range t1 {
		for _, b := range t2 {
			for _, c := range t3 {
				msg := cat(a, b, c)
				fields, ok := lazyref.RefFields(msg)
				if !ok {
					r.Internal("lazy clause: message not well-formed %x", msg)
					continue
				}
				for entry := 0; entry < 2; entry++ {
					for _, clobber := range []string{"complement", "zero", "recycled-for-another-message"} {
						buf := append([]byte{}, msg...)
						var res *lazyproto.DecodeResult
						if entry == 0 {
							res, err = dec.Decode(buf)
						} else {
							var rv lazyproto.DecodeResult
							rv, err = lazyproto.Decode(buf, def)
							res = &rv
						}
						if err != nil || res == nil {
							r.Internal("lazy clause: decode failed: %v", err)
							continue
						}
						switch clobber {
						case "complement":
							for i := range buf {
								buf[i] = ^buf[i]
							}
						case "zero":
							for i := range buf {
								buf[i] = 0
							}
						default:
							copy(buf, other)
							for i := len(other); i < len(buf); i++ {
								buf[i] = 0x7f
							}
						}
						cases++
						id := fmt.Sprintf("lazyproto/entry=%d/%s/msg=%x", entry, clobber, msg)
						func() {
							defer func() {
								if p := recover(); p != nil {
									r.Fail("C10/lazyproto/panic-after-buffer-"+clobber, id, map[string]any{"msg": fmt.Sprint(p)})
								}
							}()
							if sig, m := lazyref.CheckFlat(res, def, fields, accs, []int{1, 2, 3, 4}, &calls); sig != "" {
								r.Fail("C10/lazyproto/value-changed-after-buffer-"+clobber+"/"+sig, id, map[string]any{"msg": m})
								return
							}
							// nested results are decoded lazily AFTER the clobber: they must come from private data
							occs := fields[2]
							nrs, nerr := res.NestedResults(2)
							if nerr != nil || len(nrs) != len(occs) {
								r.Fail("C10/lazyproto/nested-results-after-buffer-"+clobber, id, map[string]any{"msg": fmt.Sprintf("%d results, err %v, expected %d", len(nrs), nerr, len(occs))})
								return
							}
							for i, nr := range nrs {
								sf, _ := lazyref.RefFields(occs[i].Payload)
								if sig, m := lazyref.CheckFlat(nr, def[2], sf, accs, []int{1, 2}, &calls); sig != "" {
									r.Fail("C10/lazyproto/nested-value-changed-after-buffer-"+clobber+"/"+sig, id, map[string]any{"msg": m, "nested": i})
									return
								}
								if len(sf[2]) > 0 {
									nn, e := nr.NestedResult(2)
									if e != nil {
										r.Fail("C10/lazyproto/nested-results-after-buffer-"+clobber, id, map[string]any{"msg": e.Error()})
										return
									}
									ssf, _ := lazyref.RefFields(sf[2][len(sf[2])-1].Payload)
									if sig, m := lazyref.CheckFlat(nn, def[2][2], ssf, accs, []int{1, 3}, &calls); sig != "" {
										r.Fail("C10/lazyproto/nested-value-changed-after-buffer-"+clobber+"/"+sig, id, map[string]any{"msg": m, "nested": "2.2"})
									}
								}
							}
						}()
						_ = res.Close()
					}
				}
			}
		}
	}
	r.Evals(cases)
	r.Nontrivial(cases)
	r.Set("lazyproto_clobber_cases", cases)
	r.Set("lazyproto_accessor_calls_after_clobber", calls)
	r.Sample(map[string]any{"lazyproto_case": "Decode(buf) in safe mode; buf overwritten with its complement; then all 26 accessors + NestedResults/NestedResult decoded lazily after the clobber"})
}
