// C10: safe-mode decoding never aliases the caller's buffer (generated Unmarshal; lazyproto is covered by C14/C15).
package main

import "verif/mc/checks/gen"

func main() {
	gen.Pre = lazyClause
	gen.Main("C10", "exploration",
		"corpus x runtimes x value trees as in C04 (every kind incl. string, bytes, repeated bytes/strings, maps with string/bytes keys and values, oneof string/bytes, nested messages, extensions) x EVERY legal encoding variant of the tree as in C06 (order, packing, repeated / split occurrences, all map-entry shapes incl. an unknown field inside an entry, unknown fields incl. padded keys at every position, the same one level down): generated Unmarshal (default generator options, i.e. safe mode) from a private buffer; the decoded tree is snapshotted, then the buffer is overwritten with its complement, with zeros, and recycled for another decode; the tree read back after each step must equal the snapshot. distinct_nontrivial = cases holding variable-length data (string/bytes/message/map/unknown) that survived all clobbers. lazyproto clause: 18 messages (varint/packed/repeated strings x nested depth 2-3 x fixed32/fixed64/bytes) x {Decoder.Decode safe mode, Decode()} x {complement, zero, recycled for another message}: after the clobber every one of the 26 accessors, and NestedResults/NestedResult decoded lazily AFTER the clobber, must still give the reference values of the original input (C14/C15 additionally clobber the buffer in every explored history/schedule). ROUND 7 ADDITION: the snapshots clone strings and string map keys (a string header copied by value still points into the caller's buffer).",
		"with enableunsafedecode=true / fast mode aliasing is opt-in and not checked")
}
