// C16: the generator is total, deterministic, names its output files distinctly and emits compiling code.
// Mode X: the full product corpus files x runtimes x 16 option combinations is run through the plug-in
// built from the CURRENT sources (twice each), and every compilable option set is compiled.
package main

import (
	"bytes"
	"encoding/json"
	"fmt"
	"go/ast"
	"go/parser"
	"go/printer"
	"go/token"
	"os"
	"os/exec"
	"path/filepath"
	"regexp"
	"runtime"
	"sort"
	"strings"
	"sync"

	"google.golang.org/protobuf/proto"
	"google.golang.org/protobuf/reflect/protodesc"
	"google.golang.org/protobuf/reflect/protoreflect"
	"google.golang.org/protobuf/reflect/protoregistry"
	"google.golang.org/protobuf/types/descriptorpb"
	"google.golang.org/protobuf/types/pluginpb"

	_ "github.com/CrowdStrike/csproto/example/permessage/googlev2"
	_ "github.com/CrowdStrike/csproto/example/proto2/googlev2"
	_ "github.com/CrowdStrike/csproto/example/proto3/googlev2"

	"verif/mc/corpus"
	"verif/mc/lib/ev"
)

var goEnv = append(os.Environ(), "GOFLAGS=-mod=mod", "GOPROXY=off", "GOSUMDB=off", "GOTOOLCHAIN=local")

func runPlugin(bin string, fds []*descriptorpb.FileDescriptorProto, gen string, param string) (*pluginpb.CodeGeneratorResponse, string) {
	return runPluginMulti(bin, fds, []string{gen}, param)
}

func runPluginMulti(bin string, fds []*descriptorpb.FileDescriptorProto, gen []string, param string) (*pluginpb.CodeGeneratorResponse, string) {
	req := &pluginpb.CodeGeneratorRequest{FileToGenerate: gen, ProtoFile: fds,
		CompilerVersion: &pluginpb.Version{Major: proto.Int32(3), Minor: proto.Int32(21), Patch: proto.Int32(12)}}
	if param != "" {
		req.Parameter = proto.String(param)
	}
	in, _ := proto.Marshal(req)
	cmd := exec.Command(bin)
	cmd.Stdin = bytes.NewReader(in)
	var out, errb bytes.Buffer
	cmd.Stdout, cmd.Stderr = &out, &errb
	if err := cmd.Run(); err != nil {
		e := errb.String()
		if len(e) > 500 {
			e = e[:500]
		}
		return nil, fmt.Sprintf("plug-in process failed: %v: %s", err, e)
	}
	resp := &pluginpb.CodeGeneratorResponse{}
	if err := proto.Unmarshal(out.Bytes(), resp); err != nil {
		return nil, "unparsable response: " + err.Error()
	}
	return resp, ""
}

type schema struct {
	id      string // runtime/file or example/<path>
	rt      corpus.Runtime
	file    string
	fds     []*descriptorpb.FileDescriptorProto
	gen     string
	nMsgs   int
	msgs    []string
	corpus  bool
	syntax  string
	compile bool
	pkg     string // package directory under gen/<rt>/ (several corpus files may share one)
}

func countMsgs(ms []*descriptorpb.DescriptorProto, prefix string, out *[]string) {
	for _, m := range ms {
		if m.GetOptions().GetMapEntry() {
			continue
		}
		*out = append(*out, prefix+m.GetName())
		countMsgs(m.NestedType, prefix+m.GetName()+".", out)
	}
}

func schemas() []schema {
	var out []schema
	for _, rt := range corpus.Runtimes {
		for _, spec := range corpus.Files() {
			if !spec.For(rt) {
				continue
			}
			fd := corpus.Build(spec, rt)
			s := schema{id: string(rt) + "/" + spec.Name, rt: rt, file: spec.Name, fds: corpus.BuildWithDeps(spec, rt), gen: fd.GetName(), corpus: true, syntax: spec.Syntax, compile: true, pkg: spec.Pkg()}
			countMsgs(fd.MessageType, "", &s.msgs)
			out = append(out, s)
		}
	}
	// the repository's own example schemas (google v2 flavour), descriptors recovered from the registered files
	for _, p := range []string{"googlev2_proto2_example.proto", "googlev2_proto3_example.proto", "googlev2_permessage_example.proto"} {
		fd, err := protoregistry.GlobalFiles.FindFileByPath(p)
		if err != nil {
			continue
		}
		var fds []*descriptorpb.FileDescriptorProto
		seen := map[string]bool{}
		var add func(f protoreflect.FileDescriptor)
		add = func(f protoreflect.FileDescriptor) {
			if seen[f.Path()] {
				return
			}
			seen[f.Path()] = true
			for i := 0; i < f.Imports().Len(); i++ {
				add(f.Imports().Get(i).FileDescriptor)
			}
			fds = append(fds, protodesc.ToFileDescriptorProto(f))
		}
		add(fd)
		s := schema{id: "example/" + p, rt: corpus.GV2, file: p, fds: fds, gen: p, syntax: fd.Syntax().String()}
		countMsgs(fds[len(fds)-1].MessageType, "", &s.msgs)
		out = append(out, s)
	}
	return out
}

type optSet struct {
	api, perMsg, unsafe, special string
}

func (o optSet) param() string {
	p := []string{"paths=source_relative", "apiversion=" + o.api}
	if o.perMsg == "true" {
		p = append(p, "filepermessage=true")
	}
	if o.unsafe == "true" {
		p = append(p, "enableunsafedecode=true")
	}
	if o.special != "" {
		p = append(p, "specialname="+o.special)
	}
	return strings.Join(p, ",")
}
func (o optSet) String() string {
	return fmt.Sprintf("api=%s/permessage=%s/unsafe=%s/special=%s", o.api, o.perMsg, o.unsafe, o.special)
}

func allOpts() []optSet {
	var out []optSet
	for _, a := range []string{"v1", "v2"} {
		for _, pm := range []string{"false", "true"} {
			for _, u := range []string{"false", "true"} {
				for _, sp := range []string{"", "Size"} {
					out = append(out, optSet{a, pm, u, sp})
				}
			}
		}
	}
	return out
}

type genResult struct {
	files map[string]string
	names []string
	err   string
}

var (
	mu      sync.Mutex
	results = map[string]*genResult{} // schema id + "|" + opts
)

func funcBodies(src string) (map[string]string, error) {
	fset := token.NewFileSet()
	f, err := parser.ParseFile(fset, "x.go", src, 0)
	if err != nil {
		return nil, err
	}
	out := map[string]string{}
	for _, d := range f.Decls {
		fd, ok := d.(*ast.FuncDecl)
		if !ok {
			continue
		}
		name := fd.Name.Name
		if fd.Recv != nil && len(fd.Recv.List) > 0 {
			var b bytes.Buffer
			printer.Fprint(&b, fset, fd.Recv.List[0].Type)
			name = b.String() + "." + name
		}
		var b bytes.Buffer
		printer.Fprint(&b, fset, fd)
		out[name] = b.String()
	}
	return out, nil
}

func main() {
	r := ev.Start("C16", "exploration")
	run := filepath.Join(ev.VerifDir(), "build", "runs", fmt.Sprintf("c16.%d", os.Getpid()))
	os.MkdirAll(run, 0o755)
	defer os.RemoveAll(run)
	plugin := filepath.Join(run, "protoc-gen-fastmarshal")
	b := exec.Command("go", "build", "-o", plugin, "./cmd/protoc-gen-fastmarshal")
	b.Dir, b.Env = repoDir(), goEnv
	if out, err := b.CombinedOutput(); err != nil {
		fmt.Println("BUILD-ERROR: protoc-gen-fastmarshal does not compile:\n" + string(out))
		os.Exit(2)
	}
	scs := schemas()
	opts := allOpts()
	type task struct {
		s schema
		o optSet
	}
	var tasks []task
	for _, s := range scs {
		for _, o := range opts {
			tasks = append(tasks, task{s, o})
		}
	}
	var runs, ok int64
	var cnt sync.Mutex
	ev.Parallel(len(tasks), runtime.NumCPU(), func(i int) {
		t := tasks[i]
		id := t.s.id + "|" + t.o.String()
		r1, e1 := runPlugin(plugin, t.s.fds, t.s.gen, t.o.param())
		r2, e2 := runPlugin(plugin, t.s.fds, t.s.gen, t.o.param())
		cnt.Lock()
		runs += 2
		cnt.Unlock()
		res := &genResult{files: map[string]string{}}
		mu.Lock()
		results[id] = res
		mu.Unlock()
		sigBase := t.s.id + "/permessage=" + t.o.perMsg
		if e1 != "" || e2 != "" {
			res.err = e1 + e2
			r.Fail("C16/plug-in-crashed/"+sigBase, id, map[string]any{"error": res.err})
			return
		}
		if r1.Error != nil {
			res.err = r1.GetError()
			e := res.err
			if len(e) > 400 {
				e = e[:400] + "...(truncated)"
			}
			r.Fail("C16/generator-error/"+sigBase, id, map[string]any{"error": e, "options": t.o.param()})
			return
		}
		// determinism
		b1, _ := proto.MarshalOptions{Deterministic: true}.Marshal(r1)
		b2, _ := proto.MarshalOptions{Deterministic: true}.Marshal(r2)
		if !bytes.Equal(b1, b2) {
			r.Fail("C16/non-deterministic-output/"+sigBase, id, map[string]any{"options": t.o.param()})
		}
		// names
		prefix := strings.TrimSuffix(t.s.gen, ".proto")
		lower := map[string]int{}
		for _, f := range r1.File {
			res.names = append(res.names, f.GetName())
			lower[strings.ToLower(f.GetName())]++
			if _, dup := res.files[f.GetName()]; !dup {
				res.files[f.GetName()] = f.GetContent()
			}
			// valid Go
			if _, err := parser.ParseFile(token.NewFileSet(), f.GetName(), f.GetContent(), 0); err != nil {
				r.Fail("C16/output-does-not-parse/"+sigBase, id+"|"+f.GetName(), map[string]any{"error": err.Error()})
			}
		}
		if t.o.perMsg == "false" {
			if len(r1.File) != 1 || r1.File[0].GetName() != prefix+".pb.fm.go" {
				r.Fail("C16/unexpected-file-name/"+sigBase, id, map[string]any{"names": res.names, "expected": prefix + ".pb.fm.go"})
			}
		} else {
			var dups []string
			for n, c := range lower {
				if c > 1 {
					dups = append(dups, n)
				}
			}
			sort.Strings(dups)
			if len(dups) > 0 {
				r.Fail("C16/duplicate-file-names/"+sigBase, id, map[string]any{"duplicated": dups, "all": res.names, "messages": t.s.msgs})
			}
			if len(r1.File) != len(t.s.msgs) {
				r.Fail("C16/not-one-file-per-message/"+sigBase, id, map[string]any{"files": len(r1.File), "messages": len(t.s.msgs)})
			}
			for _, f := range r1.File {
				okName := false
				for _, m := range t.s.msgs {
					short := m[strings.LastIndex(m, ".")+1:]
					if f.GetName() == prefix+"_"+strings.ToLower(short)+".pb.fm.go" {
						okName = true
					}
				}
				if !okName {
					r.Fail("C16/unexpected-file-name/"+sigBase, id+"|"+f.GetName(), map[string]any{"name": f.GetName()})
				}
			}
		}
		cnt.Lock()
		ok++
		cnt.Unlock()
	})
	r.Set("schemas", len(scs))
	r.Set("option_combinations", len(opts))
	r.Set("plugin_runs", runs)
	// cross-option comparisons
	var bodiesCompared, unsafeCompared int64
	setMode := regexp.MustCompile(`(?m)^\s*(dec\.SetMode\(csproto\.DecoderModeFast\)|// enable faster, but unsafe, string decoding)\s*\n`)
	for _, s := range scs {
		for _, a := range []string{"v1", "v2"} {
			for _, sp := range []string{"", "Size"} {
				base := results[s.id+"|"+optSet{a, "false", "false", sp}.String()]
				if base == nil || base.err != "" {
					continue
				}
				single := ""
				for _, c := range base.files {
					single = c
				}
				// unsafe only toggles the SetMode lines
				if u := results[s.id+"|"+optSet{a, "false", "true", sp}.String()]; u != nil && u.err == "" {
					for _, c := range u.files {
						unsafeCompared++
						if setMode.ReplaceAllString(c, "") != single {
							r.Fail("C16/enableunsafedecode-changes-more-than-SetMode/"+s.id, s.id+"|api="+a, nil)
						}
						if strings.Count(c, "dec.SetMode(csproto.DecoderModeFast)") != len(s.msgs) {
							r.Fail("C16/enableunsafedecode-not-applied-to-every-message/"+s.id, s.id+"|api="+a, nil)
						}
					}
				}
				// per-message bodies == single-file bodies
				pm := results[s.id+"|"+optSet{a, "true", "false", sp}.String()]
				if pm == nil || pm.err != "" {
					continue
				}
				sb, err := funcBodies(single)
				if err != nil {
					continue
				}
				dupNames := len(pm.names) != len(pm.files)
				merged := map[string]string{}
				for _, c := range pm.files {
					fb, err := funcBodies(c)
					if err != nil {
						continue
					}
					for k, v := range fb {
						merged[k] = v
					}
				}
				for k, v := range sb {
					pv, okk := merged[k]
					bodiesCompared++
					if !okk {
						if !dupNames { // with colliding names whole files are lost: reported once as duplicate-file-names
							r.Fail("C16/per-message-output-lacks-function/"+s.id, s.id+"|api="+a+"|"+k, nil)
						}
						continue
					}
					if pv != v {
						r.Fail("C16/per-message-body-differs-from-single-file/"+s.id, s.id+"|api="+a+"|"+k, map[string]any{"single": trunc(v, 600), "permessage": trunc(pv, 600)})
					}
				}
			}
		}
	}
	// one request naming SEVERAL files to generate (what protoc sends for `protoc a.proto b.proto`): the files
	// returned must be exactly the ones the single-file requests returned, whatever the order
	var multiReqs, multiFiles int64
	byID := map[string]schema{}
	for _, s := range scs {
		byID[s.id] = s
	}
	for _, rt := range corpus.Runtimes {
		for _, pair := range [][2]string{{"p3", "p3imp"}, {"p2", "p2imp"}, {"p2", "p3"}, {"p2ext", "names"}, {"p2nestreq", "p2"}, {"p3wkt", "p2wkt"}, {"p3pkg", "p3pkgb"}, {"p2pkg", "p2pkgb"}} {
			a, okA := byID[string(rt)+"/"+pair[0]]
			b, okB := byID[string(rt)+"/"+pair[1]]
			if !okA || !okB {
				continue
			}
			var fds []*descriptorpb.FileDescriptorProto
			seen := map[string]bool{}
			for _, f := range append(append([]*descriptorpb.FileDescriptorProto{}, a.fds...), b.fds...) {
				if !seen[f.GetName()] {
					seen[f.GetName()] = true
					fds = append(fds, f)
				}
			}
			for _, o := range []optSet{{rt.APIVersion(), "false", "false", ""}, {rt.APIVersion(), "true", "false", ""}} {
				ra, rb := results[a.id+"|"+o.String()], results[b.id+"|"+o.String()]
				if ra == nil || rb == nil || ra.err != "" || rb.err != "" || len(ra.names) != len(ra.files) || len(rb.names) != len(rb.files) {
					continue // already reported above
				}
				want := map[string]string{}
				for n, c := range ra.files {
					want[n] = c
				}
				for n, c := range rb.files {
					want[n] = c
				}
				for _, order := range [][]string{{a.gen, b.gen}, {b.gen, a.gen}} {
					id := fmt.Sprintf("%s/%s+%s|%s|order=%s", rt, pair[0], pair[1], o.String(), strings.Join(order, ","))
					sig := fmt.Sprintf("C16/multi-file-request-differs-from-single-file-requests/%s/%s+%s/permessage=%s", rt, pair[0], pair[1], o.perMsg)
					resp, e := runPluginMulti(plugin, fds, order, o.param())
					multiReqs++
					if e != "" || resp.Error != nil {
						r.Fail(sig, id, map[string]any{"error": e + resp.GetError()})
						continue
					}
					got := map[string]string{}
					for _, f := range resp.File {
						if _, dup := got[f.GetName()]; dup {
							r.Fail(sig, id+"|"+f.GetName(), map[string]any{"problem": "file emitted twice"})
						}
						got[f.GetName()] = f.GetContent()
					}
					for n, c := range want {
						multiFiles++
						gc, present := got[n]
						switch {
						case !present:
							r.Fail(sig, id+"|"+n, map[string]any{"problem": "file missing from the multi-file response"})
						case gc != c:
							r.Fail(sig, id+"|"+n, map[string]any{"problem": "content differs from the single-file request", "multi_head": trunc(gc, 300), "single_head": trunc(c, 300)})
						}
					}
					for n := range got {
						if _, exp := want[n]; !exp {
							r.Fail(sig, id+"|"+n, map[string]any{"problem": "unexpected extra file"})
						}
					}
				}
			}
		}
	}
	// option semantics that no compilation can show: (a) specialname=X appends "_" to every reference to a field whose
	// Go name is X, and nothing else changes; blanks around the name are
	// trimmed and the option may be given more than once (protoc splits parameters at commas, so a list inside one
	// value cannot arrive); (b) a request without apiversion behaves like apiversion=v1
	var optReqs int64
	single := func(s schema, param string) (string, string) {
		resp, e := runPlugin(plugin, s.fds, s.gen, param)
		optReqs++
		if e != "" || resp.Error != nil || len(resp.File) != 1 {
			return "", e + resp.GetError()
		}
		return resp.File[0].GetContent(), ""
	}
	for _, rt := range corpus.Runtimes {
		s, okS := byID[string(rt)+"/names"]
		if !okS {
			continue
		}
		base := "paths=source_relative,apiversion=" + rt.APIVersion()
		plain, e0 := single(s, base)
		if e0 != "" || !strings.Contains(plain, ".Reset_") || !strings.Contains(plain, ".String_") {
			continue // reported above / the schema has no such fields
		}
		for _, c := range []struct {
			spelled, sig string
			names        []string
		}{
			{"specialname=Reset_", "single", []string{"Reset_"}},
			{"specialname= Reset_ ", "blanks-around-the-name", []string{"Reset_"}},
			{"specialname=Reset_,specialname=String_", "option-given-twice", []string{"Reset_", "String_"}},
			{"specialname=NoSuchField", "name-that-matches-nothing", nil},
		} {
			param := base + "," + strings.ReplaceAll(c.spelled, ";", ",")
			want := plain
			for _, n := range c.names {
				want = strings.ReplaceAll(want, "."+n, "."+n+"_")
			}
			got, e := single(s, param)
			if e != "" || got != want {
				r.Fail(fmt.Sprintf("C16/specialname-option/%s/%s", rt, c.sig), string(rt)+"/names|"+param, map[string]any{"error": e, "differs": got != want,
					"references_renamed": strings.Count(got, ".Reset__"), "references_expected": strings.Count(want, ".Reset__")})
			}
		}
	}
	for _, id := range []string{"gogo/p3", "legacy/p2", "gv2/p3"} {
		s, okS := byID[id]
		if !okS {
			continue
		}
		explicit, e1 := single(s, "paths=source_relative,apiversion=v1")
		dflt, e2 := single(s, "paths=source_relative")
		if e1 != e2 || explicit != dflt {
			r.Fail("C16/default-apiversion-is-not-v1/"+id, id, map[string]any{"error_explicit": e1, "error_default": e2})
		}
	}
	r.Set("option_semantics_requests", optReqs)
	r.Set("multi_file_requests", multiReqs)
	r.Set("multi_file_outputs_compared_with_single_file_requests", multiFiles)
	r.Set("function_bodies_compared_single_vs_permessage", bodiesCompared)
	r.Set("unsafe_outputs_compared", unsafeCompared)
	// compile every compilable option set with the runtime's message types
	compiled := 0
	for _, cs := range []struct{ pm, u, sp string }{{"false", "false", ""}, {"true", "false", ""}, {"false", "true", ""}, {"true", "true", ""}, {"false", "false", "Size"}} {
		replace := map[string]string{}
		dir := filepath.Join(run, fmt.Sprintf("c_%s_%s_%s", cs.pm, cs.u, cs.sp))
		var pkgs []string
		for _, s := range scs {
			if !s.compile {
				continue
			}
			res := results[s.id+"|"+optSet{s.rt.APIVersion(), cs.pm, cs.u, cs.sp}.String()]
			if res == nil || res.err != "" {
				continue
			}
			for name, content := range res.files {
				p := filepath.Join(dir, name)
				os.MkdirAll(filepath.Dir(p), 0o755)
				os.WriteFile(p, []byte(content), 0o644)
				replace[filepath.Join(ev.VerifDir(), "mc", "gen", name)] = p
			}
			if pd := "./gen/" + string(s.rt) + "/" + s.pkg; len(pkgs) == 0 || pkgs[len(pkgs)-1] != pd {
				pkgs = append(pkgs, pd)
			}
		}
		ov, _ := json.Marshal(map[string]any{"Replace": replace})
		ovp := filepath.Join(dir, "overlay.json")
		os.WriteFile(ovp, ov, 0o644)
		c := exec.Command("go", append([]string{"build", "-overlay", ovp}, pkgs...)...)
		c.Dir, c.Env = filepath.Join(ev.VerifDir(), "mc"), goEnv
		out, _ := c.CombinedOutput()
		compiled += len(pkgs)
		cur := ""
		errs := map[string][]string{}
		for _, l := range strings.Split(string(out), "\n") {
			if strings.HasPrefix(l, "# verif/mc/gen/") {
				cur = strings.TrimPrefix(l, "# verif/mc/gen/")
				continue
			}
			if cur != "" && strings.TrimSpace(l) != "" && len(errs[cur]) < 4 {
				errs[cur] = append(errs[cur], trunc(l, 240))
			}
		}
		for pkg, es := range errs {
			r.Fail("C16/generated-code-does-not-compile/"+pkg+"/permessage="+cs.pm, fmt.Sprintf("%s|permessage=%s unsafe=%s special=%s", pkg, cs.pm, cs.u, cs.sp), map[string]any{"errors": es})
		}
	}
	// the repository's example schemas are compiled too, against the example module's own message types: every
	// checked-in *.pb.fm.go of the package is masked out and the freshly generated files take their place
	exDirs := map[string]string{"googlev2_proto2_example.proto": "proto2/googlev2", "googlev2_proto3_example.proto": "proto3/googlev2", "googlev2_permessage_example.proto": "permessage/googlev2"}
	exCompiled := 0
	for _, s := range scs {
		dir, isEx := exDirs[s.file]
		if !isEx || s.corpus {
			continue
		}
		for _, pm := range []string{"false", "true"} {
			res := results[s.id+"|"+optSet{"v2", pm, "false", ""}.String()]
			if res == nil || res.err != "" || len(res.names) != len(res.files) {
				continue
			}
			pkgDir := filepath.Join(repoDir(), "example", dir)
			replace := map[string]string{}
			old, _ := filepath.Glob(filepath.Join(pkgDir, "*.pb.fm.go"))
			for _, o := range old {
				replace[o] = ""
			}
			out := filepath.Join(run, fmt.Sprintf("ex_%s_%s", strings.ReplaceAll(dir, "/", "_"), pm))
			os.MkdirAll(out, 0o755)
			for name, content := range res.files {
				pth := filepath.Join(out, filepath.Base(name))
				os.WriteFile(pth, []byte(content), 0o644)
				replace[filepath.Join(pkgDir, filepath.Base(name))] = pth
			}
			ov, _ := json.Marshal(map[string]any{"Replace": replace})
			ovp := filepath.Join(out, "overlay.json")
			os.WriteFile(ovp, ov, 0o644)
			c := exec.Command("go", "build", "-overlay", ovp, "./"+dir)
			c.Dir, c.Env = filepath.Join(repoDir(), "example"), goEnv
			outb, err := c.CombinedOutput()
			exCompiled++
			if err != nil {
				var es []string
				for _, l := range strings.Split(string(outb), "\n") {
					if strings.TrimSpace(l) != "" && !strings.HasPrefix(l, "#") && len(es) < 5 {
						es = append(es, trunc(strings.ReplaceAll(l, out+"/", ""), 240))
					}
				}
				r.Fail("C16/generated-code-does-not-compile/example/"+s.file+"/permessage="+pm, s.id+"|permessage="+pm, map[string]any{"errors": es})
			}
		}
	}
	r.Set("example_packages_compiled(single file and file per message)", exCompiled)
	r.Set("packages_compiled(with matching apiversion, 5 option sets)", compiled)
	r.Evals(runs/2 + int64(compiled) + int64(exCompiled))
	r.Nontrivial(ok)
	r.Sample(map[string]any{"schema": scs[0].id, "messages": scs[0].msgs, "options": opts[5].param()})
	r.Sample(map[string]any{"schema": scs[len(scs)-1].id, "messages": len(scs[len(scs)-1].msgs), "note": "repository example schema, descriptors recovered from the registered file"})
	r.Rule("full product: every corpus file of every runtime flavour + the repository's three google-v2 example schemas x {apiversion v1,v2} x {single file, file per message} x {unsafe off,on} x {specialname none, Size}; each request is run twice through the plug-in built from the current sources: no error, byte-identical responses, documented file names (single: <prefix>.pb.fm.go; per message: <prefix>_<lower(message)>.pb.fm.go, pairwise distinct also case-insensitively, one per message), every file parses; per-message function bodies equal the single-file ones; enableunsafedecode only adds the SetMode lines (one per message); requests naming two files to generate (8 file pairs per runtime, two of them the two files of ONE Go package, both orders, single-file and per-message mode) return exactly the files of the two single-file requests; and the outputs of 5 option sets are compiled together with the runtime's message types (matching apiversion). distinct_nontrivial = (schema, option) requests that produced output and passed the per-request checks.")
	r.Assume("invalid option VALUES are outside the quantifier; apiversion is compiled only with its matching runtime (v1: gogo, legacy; v2: gv2, gv1)")
	r.Assume("schemas with proto3 optional are only generated for the google flavours (protoc-gen-gogo does not support them)")
	os.RemoveAll(run) // Finish exits the process: the deferred removal above would never run
	r.Finish()
}

func repoDir() string {
	if d := os.Getenv("VERIF_REPO"); d != "" {
		return d
	}
	return "/repo"
}

func trunc(s string, n int) string {
	if len(s) > n {
		return s[:n] + "..."
	}
	return s
}
