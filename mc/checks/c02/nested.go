package main

import (
	"bytes"
	"fmt"

	"github.com/CrowdStrike/csproto"
	gogotypes "github.com/gogo/protobuf/types"
	"google.golang.org/protobuf/proto"
	"google.golang.org/protobuf/types/known/emptypb"
	"google.golang.org/protobuf/types/known/wrapperspb"

	"verif/mc/lib/ev"
	"verif/mc/lib/refwire"
)

// selfSized is a message of the "can marshal itself in place" kind (Size + MarshalTo) whose encoding is a given byte string
type selfSized struct{ enc []byte }

func (m *selfSized) Size() int { return len(m.enc) }
func (m *selfSized) MarshalTo(dst []byte) error {
	if len(dst) < len(m.enc) {
		return fmt.Errorf("short buffer")
	}
	copy(dst, m.enc)
	return nil
}
func (m *selfSized) Marshal() ([]byte, error) { return append([]byte(nil), m.enc...), nil }

// marshalOnly only knows how to produce its bytes
type marshalOnly struct{ enc []byte }

func (m *marshalOnly) Marshal() ([]byte, error) { return append([]byte(nil), m.enc...), nil }

// nestedFields: a message-typed field is key(number, LEN) ‖ varint(len(child)) ‖ child, for every child length including 0
// (a present child without populated fields is two bytes on the wire, not nothing), for every kind of child EncodeNested
// accepts; EncodeMapEntryHeader is key ‖ varint(size).
func nestedFields(r *ev.Run, tags []int) int64 {
	var n int64
	lens := []int{0, 1, 2, 127, 128, 300, 16384}
	for _, l := range lens {
		pl := make([]byte, l)
		for i := range pl {
			pl[i] = byte(i*7 + 0x81)
		}
		// a well-formed child body of the same length for the real runtimes: BytesValue{value: ...} (l >= 2), Empty (0)
		type child struct {
			name string
			m    any
			body []byte
		}
		children := []child{
			{"self-sized", &selfSized{enc: pl}, pl},
			{"marshal-only", &marshalOnly{enc: pl}, pl},
		}
		if l == 0 {
			children = append(children,
				child{"google-v2/Empty", &emptypb.Empty{}, nil},
				child{"google-v2/BytesValue{}", &wrapperspb.BytesValue{}, nil},
				child{"gogo/Empty", &gogotypes.Empty{}, nil},
				child{"gogo/BytesValue{}", &gogotypes.BytesValue{}, nil})
		} else {
			v := pl
			gb, err := proto.Marshal(&wrapperspb.BytesValue{Value: v})
			if err != nil {
				r.Internal("reference marshal: %v", err)
				continue
			}
			want := refwire.AppendBytes(refwire.AppendKey(nil, 1, refwire.Len), v)
			if !bytes.Equal(gb, want) {
				r.Internal("BytesValue reference bytes differ")
				continue
			}
			children = append(children,
				child{"google-v2/BytesValue", &wrapperspb.BytesValue{Value: v}, want},
				child{"gogo/BytesValue", &gogotypes.BytesValue{Value: v}, want})
		}
		for _, tag := range tags {
			for _, c := range children {
				ref := refwire.AppendBytes(refwire.AppendKey(nil, tag, refwire.Len), c.body)
				var encErr error
				cs, msg := encodeCS(len(ref)+8, func(e *csproto.Encoder) {
					encErr = e.EncodeNested(tag, c.m)
				})
				id := fmt.Sprintf("nested/%s/tag=%d/len=%d", c.name, tag, len(c.body))
				n++
				if msg != "" || encErr != nil {
					r.Fail("encode/nested/error-or-panic/"+c.name, id, info{Kind: "nested", Tag: tag, Msg: msg + fmt.Sprint(encErr)})
					continue
				}
				// the spare 8 bytes must be untouched and the field must be exactly the reference
				if !bytes.Equal(cs[:len(ref)], ref) || !bytes.Equal(cs[len(ref):], make([]byte, 8)) {
					kind := "bytes-differ-from-reference"
					if len(c.body) == 0 {
						kind = "present-empty-child-not-written-as-key-and-zero-length"
					}
					r.Fail("encode/nested/"+kind+"/"+c.name, id, info{Kind: "nested", Tag: tag, Got: fmt.Sprintf("%x", trunc(cs)), Ref: fmt.Sprintf("%x", trunc(ref))})
				}
			}
			// map entry header
			ref := refwire.AppendVarint(refwire.AppendKey(nil, tag, refwire.Len), uint64(l))
			cs, msg := encodeCS(len(ref), func(e *csproto.Encoder) { e.EncodeMapEntryHeader(tag, l) })
			n++
			if msg != "" || !bytes.Equal(cs, ref) {
				r.Fail("encode/map-entry-header/bytes-differ-from-reference", fmt.Sprintf("mapentryheader/tag=%d/size=%d", tag, l), info{Kind: "map-entry-header", Tag: tag, Msg: msg, Got: fmt.Sprintf("%x", cs), Ref: fmt.Sprintf("%x", ref)})
			}
		}
	}
	return n
}

func trunc(b []byte) []byte {
	if len(b) > 24 {
		return b[:24]
	}
	return b
}
