// C02: conformance of Encoder/Decoder to the canonical wire format; Skip returns exact raw fields.
package main

import (
	"bytes"
	"fmt"
	"reflect"
	"runtime"
	"strings"
	"sync/atomic"

	"github.com/CrowdStrike/csproto"
	"google.golang.org/protobuf/encoding/protowire"

	"verif/mc/checks/codec"
	"verif/mc/lib/ev"
	"verif/mc/lib/refwire"
)

var modes = []csproto.DecoderMode{csproto.DecoderModeSafe, csproto.DecoderModeFast}

type info struct {
	Kind string `json:"kind"`
	Tag  int    `json:"tag,omitempty"`
	Val  string `json:"value,omitempty"`
	Got  string `json:"csproto_bytes,omitempty"`
	Ref  string `json:"reference_bytes,omitempty"`
	Mode string `json:"mode,omitempty"`
	Msg  string `json:"msg,omitempty"`
}

func tagClass(tag int) string {
	if tag >= 1<<26 {
		return "num>=2^26"
	}
	return "num<2^26"
}

type bufs struct{ cs, ref, pw []byte }

func encodeCS(n int, enc func(e *csproto.Encoder)) (out []byte, msg string) {
	defer func() {
		if p := recover(); p != nil {
			msg = fmt.Sprintf("encoder panic: %v", p)
		}
	}()
	out = make([]byte, n)
	enc(csproto.NewEncoder(out))
	return out, ""
}

func checkScalar(r *ev.Run, bf *bufs, k *codec.Scalar, tag int, u uint64) {
	bf.ref = k.Ref(refwire.AppendKey(bf.ref[:0], tag, k.WT), u)
	bf.pw = k.PW(protowire.AppendTag(bf.pw[:0], protowire.Number(tag), protowire.Type(k.WT)), u)
	id := fmt.Sprintf("%s/tag=%d/v=%#x", k.Name, tag, u)
	if !bytes.Equal(bf.ref, bf.pw) {
		r.Internal("references disagree on %s: %x vs %x", id, bf.ref, bf.pw)
		return
	}
	if cap(bf.cs) < len(bf.ref) {
		bf.cs = make([]byte, 64)
	}
	cs := bf.cs[:len(bf.ref)]
	msg := func() (msg string) {
		defer func() {
			if p := recover(); p != nil {
				msg = fmt.Sprintf("encoder panic: %v", p)
			}
		}()
		k.Enc(csproto.NewEncoder(cs), tag, u)
		return ""
	}()
	if msg != "" || !bytes.Equal(cs, bf.ref) {
		r.Fail("encode/"+k.Name+"/bytes-differ-from-reference", id, info{Kind: k.Name, Tag: tag, Val: fmt.Sprintf("%#x", u), Got: fmt.Sprintf("%x", cs), Ref: fmt.Sprintf("%x", bf.ref), Msg: msg})
		return
	}
	// reference-produced bytes -> Decoder
	for _, m := range modes {
		msg, cls := func() (msg, cls string) {
			defer func() {
				if p := recover(); p != nil {
					msg, cls = fmt.Sprintf("decoder panic: %v", p), "panic"
				}
			}()
			d := csproto.NewDecoder(bf.ref)
			d.SetMode(m)
			gt, gw, err := d.DecodeTag()
			if err != nil {
				return err.Error(), "tag-error"
			}
			if gt != tag || int(gw) != k.WT {
				return fmt.Sprintf("tag (%d,%d)", gt, gw), "tag-mismatch"
			}
			v, err := k.Dec(d)
			if err != nil {
				return err.Error(), "value-error"
			}
			if v != u {
				return fmt.Sprintf("decoded %#x", v), "value-mismatch"
			}
			if d.Offset() != len(bf.ref) {
				return fmt.Sprintf("offset %d/%d", d.Offset(), len(bf.ref)), "consumption"
			}
			return "", ""
		}()
		if msg != "" {
			r.Fail("decode-ref/"+k.Name+"/"+cls+"/"+tagClass(tag), id+"/"+m.String(), info{Kind: k.Name, Tag: tag, Val: fmt.Sprintf("%#x", u), Ref: fmt.Sprintf("%x", bf.ref), Mode: m.String(), Msg: msg})
			return
		}
	}
}

func checkPacked(r *ev.Run, p *codec.Packed, tag int, vs []uint64) {
	k := codec.ScalarByName(p.Elem)
	var payload, pwPayload []byte
	for _, v := range vs {
		payload = k.Ref(payload, v)
		pwPayload = k.PW(pwPayload, v)
	}
	ref := refwire.AppendBytes(refwire.AppendKey(nil, tag, refwire.Len), payload)
	pw := protowire.AppendBytes(protowire.AppendTag(nil, protowire.Number(tag), protowire.BytesType), pwPayload)
	id := fmt.Sprintf("%s/tag=%d/n=%d/first=%#x", p.Name, tag, len(vs), vs[0])
	if !bytes.Equal(ref, pw) {
		r.Internal("references disagree on %s", id)
		return
	}
	cs, msg := encodeCS(len(ref), func(e *csproto.Encoder) { p.Enc(e, tag, vs) })
	if msg != "" || !bytes.Equal(cs, ref) {
		r.Fail("encode/"+p.Name+"/bytes-differ-from-reference", id, info{Kind: p.Name, Tag: tag, Got: fmt.Sprintf("%x", cs[:min(64, len(cs))]), Ref: fmt.Sprintf("%x", ref[:min(64, len(ref))]), Msg: msg})
		return
	}
	neg := "plain"
	for _, v := range vs {
		if int64(v) < 0 && (p.Elem == "int32" || p.Elem == "int64") {
			neg = "has-negative"
		}
	}
	for _, m := range modes {
		msg, cls := func() (msg, cls string) {
			defer func() {
				if p := recover(); p != nil {
					msg, cls = fmt.Sprintf("decoder panic: %v", p), "panic"
				}
			}()
			d := csproto.NewDecoder(ref)
			d.SetMode(m)
			gt, gw, err := d.DecodeTag()
			if err != nil {
				return err.Error(), "tag-error"
			}
			if gt != tag || gw != csproto.WireTypeLengthDelimited {
				return fmt.Sprintf("tag (%d,%d)", gt, gw), "tag-mismatch"
			}
			got, err := p.Dec(d)
			if err != nil {
				return err.Error(), "value-error"
			}
			if len(got) != len(vs) {
				return fmt.Sprintf("%d elements, expected %d", len(got), len(vs)), "value-mismatch"
			}
			for i := range got {
				if got[i] != vs[i] {
					return fmt.Sprintf("element %d: %#x != %#x", i, got[i], vs[i]), "value-mismatch"
				}
			}
			if d.Offset() != len(ref) {
				return fmt.Sprintf("offset %d/%d", d.Offset(), len(ref)), "consumption"
			}
			return "", ""
		}()
		if msg != "" {
			r.Fail("decode-ref/"+p.Name+"/"+cls+"/"+neg+"/"+tagClass(tag), id+"/"+m.String(), info{Kind: p.Name, Tag: tag, Ref: fmt.Sprintf("%x", ref[:min(64, len(ref))]), Mode: m.String(), Msg: msg})
			return
		}
	}
}

// ---- Skip over all well-formed field sequences

type fieldEnc struct {
	desc string
	tag  int
	wt   int
	b    []byte
}

func skipAlphabet() []fieldEnc {
	nums := []int{1, 15, 16, 2047, 2048, 1 << 21, 1 << 28, 1<<29 - 1}
	var out []fieldEnc
	for _, n := range nums {
		for _, v := range []uint64{1, 300, 1<<32 - 1, 1<<64 - 1} {
			out = append(out, fieldEnc{fmt.Sprintf("%d:varint(%d)", n, v), n, refwire.Varint, refwire.AppendVarint(refwire.AppendKey(nil, n, refwire.Varint), v)})
		}
		out = append(out, fieldEnc{fmt.Sprintf("%d:fixed64", n), n, refwire.Fixed64, refwire.AppendFixed64(refwire.AppendKey(nil, n, refwire.Fixed64), 0x8877665544332211)})
		out = append(out, fieldEnc{fmt.Sprintf("%d:fixed32", n), n, refwire.Fixed32, refwire.AppendFixed32(refwire.AppendKey(nil, n, refwire.Fixed32), 0x80402010)})
		for _, l := range []int{0, 1, 127, 128} {
			pl := make([]byte, l)
			for i := range pl {
				pl[i] = byte(0x80 + i) // payload bytes look like varint continuations: Skip must not interpret them
			}
			out = append(out, fieldEnc{fmt.Sprintf("%d:len(%d)", n, l), n, refwire.Len, refwire.AppendBytes(refwire.AppendKey(nil, n, refwire.Len), pl)})
		}
	}
	// padded keys: a valid, non-minimal varint key (the reference parsers accept it); the raw field includes
	// every byte of such a key
	pad := func(key []byte, extra int) []byte {
		k := append([]byte{}, key...)
		k[len(k)-1] |= 0x80
		for i := 0; i < extra-1; i++ {
			k = append(k, 0x80)
		}
		return append(k, 0x00)
	}
	for _, n := range []int{1, 16, 2047} {
		for extra := 1; extra <= 2; extra++ {
			out = append(out, fieldEnc{fmt.Sprintf("%d:padded-key+%d:varint(300)", n, extra), n, refwire.Varint, refwire.AppendVarint(pad(refwire.AppendKey(nil, n, refwire.Varint), extra), 300)})
			out = append(out, fieldEnc{fmt.Sprintf("%d:padded-key+%d:fixed32", n, extra), n, refwire.Fixed32, refwire.AppendFixed32(pad(refwire.AppendKey(nil, n, refwire.Fixed32), extra), 0x80402010)})
			out = append(out, fieldEnc{fmt.Sprintf("%d:padded-key+%d:len(1)", n, extra), n, refwire.Len, refwire.AppendBytes(pad(refwire.AppendKey(nil, n, refwire.Len), extra), []byte{0x80})})
		}
	}
	return out
}

func packedResultsIndependent(r *ev.Run) {
	dt := reflect.TypeOf(&csproto.Decoder{})
	n := 0
	for i := 0; i < dt.NumMethod(); i++ {
		m := dt.Method(i)
		if !strings.HasPrefix(m.Name, "DecodePacked") || m.Type.NumIn() != 1 || m.Type.NumOut() != 2 || m.Type.Out(0).Kind() != reflect.Slice {
			continue
		}
		width := 0 // varint elements
		switch m.Type.Out(0).Elem().Kind() {
		case reflect.Float32:
			width = 4
		case reflect.Float64:
			width = 8
		}
		if strings.Contains(m.Name, "Fixed32") {
			width = 4
		}
		if strings.Contains(m.Name, "Fixed64") {
			width = 8
		}
		payload := func(count int, first byte) []byte {
			var p []byte
			for k := 0; k < count; k++ {
				if width == 0 {
					p = append(p, (first+byte(k))&1) // 0/1: valid for every varint kind incl. bool
				} else {
					e := make([]byte, width)
					e[0] = first + byte(k)
					p = append(p, e...)
				}
			}
			return p
		}
		p1, p2 := payload(5, 1), payload(2, 0)
		buf := refwire.AppendBytes(refwire.AppendKey(nil, 1, refwire.Len), p1)
		second := len(buf)
		buf = refwire.AppendBytes(refwire.AppendKey(buf, 2, refwire.Len), p2)
		for _, mode := range []csproto.DecoderMode{csproto.DecoderModeSafe, csproto.DecoderModeFast} {
			d := csproto.NewDecoder(append([]byte{}, buf...))
			d.SetMode(mode)
			call := func() (reflect.Value, string) {
				if _, _, err := d.DecodeTag(); err != nil {
					return reflect.Value{}, "DecodeTag: " + err.Error()
				}
				out := m.Func.Call([]reflect.Value{reflect.ValueOf(d)})
				if !out[1].IsNil() {
					return reflect.Value{}, fmt.Sprint(out[1].Interface())
				}
				return out[0], ""
			}
			msg := ""
			func() {
				defer func() {
					if p := recover(); p != nil {
						msg = fmt.Sprintf("panic: %v", p)
					}
				}()
				r1, e1 := call()
				if e1 != "" || r1.Len() != 5 {
					msg = fmt.Sprintf("first field: %s (%v)", e1, r1)
					return
				}
				snap := fmt.Sprintf("%v", r1.Interface())
				r2, e2 := call()
				if e2 != "" || r2.Len() != 2 {
					msg = fmt.Sprintf("second field: %s", e2)
					return
				}
				if now := fmt.Sprintf("%v", r1.Interface()); now != snap {
					msg = fmt.Sprintf("list returned for field 1 changed from %s to %s when field 2 was decoded", snap, now)
					return
				}
				snap2 := fmt.Sprintf("%v", r2.Interface())
				d.Reset()
				if _, e3 := call(); e3 != "" {
					msg = "after Reset: " + e3
					return
				}
				if now := fmt.Sprintf("%v", r2.Interface()); now != snap2 || fmt.Sprintf("%v", r1.Interface()) != snap {
					msg = "earlier results changed when field 1 was decoded again after Reset"
				}
				_ = second
			}()
			n++
			if msg != "" {
				r.Fail("decode/"+m.Name+"/earlier-result-not-independent", m.Name+"/"+mode.String(), info{Kind: m.Name, Ref: fmt.Sprintf("%x", buf), Mode: mode.String(), Msg: msg})
			}
		}
	}
	r.Evals(int64(n))
	r.Nontrivial(int64(n))
	r.Set("packed_methods_checked_for_result_independence", n/2)
}

func checkSkipSeq(r *ev.Run, alpha []fieldEnc, seq []int, buf []byte) bool {
	buf = buf[:0]
	for _, i := range seq {
		buf = append(buf, alpha[i].b...)
	}
	for _, m := range modes {
		msg, cls := func() (msg, cls string) {
			defer func() {
				if p := recover(); p != nil {
					msg, cls = fmt.Sprintf("panic: %v", p), "panic"
				}
			}()
			d := csproto.NewDecoder(buf)
			d.SetMode(m)
			var cat []byte
			start := 0
			for pos, i := range seq {
				f := alpha[i]
				gt, gw, err := d.DecodeTag()
				if err != nil {
					return fmt.Sprintf("field %d DecodeTag: %v", pos, err), "tag-error"
				}
				if gt != f.tag || int(gw) != f.wt {
					return fmt.Sprintf("field %d tag (%d,%d)", pos, gt, gw), "tag-mismatch"
				}
				raw, err := d.Skip(gt, gw)
				if err != nil {
					return fmt.Sprintf("field %d Skip: %v", pos, err), "skip-error"
				}
				end := start + len(f.b)
				if !bytes.Equal(raw, buf[start:end]) {
					return fmt.Sprintf("field %d Skip returned %x, expected %x", pos, raw, buf[start:end]), "raw-mismatch"
				}
				if d.Offset() != end {
					return fmt.Sprintf("field %d cursor %d, expected %d", pos, d.Offset(), end), "cursor"
				}
				cat = append(cat, raw...)
				start = end
			}
			if d.More() || !bytes.Equal(cat, buf) {
				return "concatenation of skipped fields differs from input", "concat"
			}
			return "", ""
		}()
		if msg != "" {
			descs := make([]string, len(seq))
			for j, i := range seq {
				descs[j] = alpha[i].desc
			}
			r.Fail("skip/"+cls, fmt.Sprintf("skip/%v/%s", descs, m), info{Kind: "skip", Ref: fmt.Sprintf("%x", buf[:min(len(buf), 96)]), Mode: m.String(), Msg: msg, Val: fmt.Sprint(descs)})
			return false
		}
	}
	return true
}

func main() {
	r := ev.Start("C02", "exploration")
	ev.BigHeap(512 << 20)
	workers := runtime.NumCPU()
	bnd := codec.BoundaryBits()
	tags := codec.BoundaryTags(4096)
	fewTags := []int{1, 15, 16, 2047, 2048, 1<<26 - 1, 1 << 26, 1<<29 - 1}
	var cases atomic.Int64

	var values []uint64
	values = append(values, bnd...)
	lim := ev.Pick(r, uint64(1<<14), uint64(1<<16))
	for x := uint64(0); x < lim; x++ {
		values = append(values, x, x<<16, x<<48, ^x, ^(x << 16))
	}
	ev.Parallel(len(codec.Scalars)*len(fewTags), workers, func(s int) {
		k := &codec.Scalars[s/len(fewTags)]
		tag := fewTags[s%len(fewTags)]
		bf := &bufs{cs: make([]byte, 64)}
		for _, raw := range values {
			checkScalar(r, bf, k, tag, k.Norm(raw))
		}
		cases.Add(int64(len(values)))
	})
	ev.Parallel(len(codec.Scalars), workers, func(s int) {
		k := &codec.Scalars[s]
		bf := &bufs{cs: make([]byte, 64)}
		var n int64
		for _, tag := range tags {
			for _, raw := range []uint64{0, 1, 0x80, ^uint64(0), 1 << 63, 0x7fffffff} {
				checkScalar(r, bf, k, tag, k.Norm(raw))
				n++
			}
		}
		cases.Add(n)
	})
	r.Sample(map[string]any{"kind": "int32", "tag": 1 << 26, "value": -1, "reference_bytes": fmt.Sprintf("%x", refwire.AppendVarint(refwire.AppendKey(nil, 1<<26, 0), ^uint64(0)))})

	// strings / bytes against both references
	for _, l := range []int{0, 1, 127, 128, 16383, 16384} {
		for _, tag := range fewTags {
			pl := make([]byte, l)
			for i := range pl {
				pl[i] = byte(i*13 + 0xC0)
			}
			ref := refwire.AppendBytes(refwire.AppendKey(nil, tag, refwire.Len), pl)
			pw := protowire.AppendBytes(protowire.AppendTag(nil, protowire.Number(tag), protowire.BytesType), pl)
			if !bytes.Equal(ref, pw) {
				r.Internal("references disagree on bytes len %d", l)
			}
			for _, asString := range []bool{false, true} {
				kind := "bytes"
				if asString {
					kind = "string"
				}
				cs, msg := encodeCS(len(ref), func(e *csproto.Encoder) {
					if asString {
						e.EncodeString(tag, string(pl))
					} else {
						e.EncodeBytes(tag, pl)
					}
				})
				id := fmt.Sprintf("%s/tag=%d/len=%d", kind, tag, l)
				if msg != "" || !bytes.Equal(cs, ref) {
					r.Fail("encode/"+kind+"/bytes-differ-from-reference", id, info{Kind: kind, Tag: tag, Msg: msg})
				}
				for _, m := range modes {
					d := csproto.NewDecoder(ref)
					d.SetMode(m)
					var gt int
					var gw csproto.WireType
					var err error
					var got []byte
					func() {
						defer func() {
							if p := recover(); p != nil {
								err = fmt.Errorf("decoder panic: %v", p)
							}
						}()
						gt, gw, err = d.DecodeTag()
						if err == nil {
							if asString {
								var s string
								s, err = d.DecodeString()
								got = []byte(s)
							} else {
								got, err = d.DecodeBytes()
							}
						}
					}()
					if err != nil || gt != tag || gw != 2 || !bytes.Equal(got, pl) || d.Offset() != len(ref) {
						r.Fail("decode-ref/"+kind+"/"+tagClass(tag), id+"/"+m.String(), info{Kind: kind, Tag: tag, Mode: m.String(), Msg: fmt.Sprint(err)})
					}
				}
				cases.Add(1)
			}
		}
	}

	// the exported package-level primitives, called directly
	cases.Add(helperFuncs(r, values, tags))

	// message-typed fields and map entry headers
	cases.Add(nestedFields(r, fewTags))

	// packed
	plens := []int{1, 2, 3, 15, 16, 17, 31, 32, 33, 127, 128, 129}
	if r.Thorough() {
		plens = append(plens, 2048, 16384)
	}
	ptags := []int{1, 16, 2048, 1<<29 - 1}
	ev.Parallel(len(codec.Packeds)*len(plens), workers, func(s int) {
		p := &codec.Packeds[s/len(plens)]
		k := codec.ScalarByName(p.Elem)
		l := plens[s%len(plens)]
		vs := make([]uint64, l)
		var n int64
		seen := map[uint64]bool{}
		for _, raw := range bnd {
			u := k.Norm(raw)
			if seen[u] {
				continue
			}
			seen[u] = true
			for i := range vs {
				vs[i] = u
			}
			checkPacked(r, p, ptags[len(seen)%len(ptags)], vs)
			n++
		}
		for phase := 0; phase < 64; phase++ {
			for i := range vs {
				vs[i] = k.Norm(bnd[(phase+i*5)%len(bnd)])
			}
			checkPacked(r, p, ptags[phase%len(ptags)], vs)
			n++
		}
		cases.Add(n)
	})
	r.Sample(map[string]any{"kind": "packed_int64", "elements": []int64{-1, 1, -1 << 63}, "note": "reference-produced packed runs incl. 10-byte negatives"})

	// thorough: all 2^32 values of the 32-bit kinds (byte conformance)
	if r.Thorough() {
		for ki := range codec.Scalars {
			k := &codec.Scalars[ki]
			if !k.Bits32 {
				continue
			}
			ev.Parallel(1024, workers, func(s int) {
				bf := &bufs{cs: make([]byte, 64)}
				lo := uint64(s) << 22
				for x := lo; x < lo+1<<22; x++ {
					checkScalar(r, bf, k, 2, k.Norm(x))
				}
				cases.Add(1 << 22)
			})
			r.AddTo("full_2^32_domains_completed", 1)
		}
		wt := []*codec.Scalar{codec.ScalarByName("uint64"), codec.ScalarByName("fixed64"), codec.ScalarByName("fixed32"), codec.ScalarByName("sint32")}
		ev.Parallel(1024, workers, func(s int) {
			bf := &bufs{cs: make([]byte, 64)}
			per := (1 << 29) / 1024
			var n int64
			for tag := s * per; tag < (s+1)*per; tag++ {
				if tag == 0 {
					continue
				}
				for _, k := range wt {
					checkScalar(r, bf, k, tag, 0x81)
					n++
				}
			}
			cases.Add(n)
		})
		r.Set("all_field_numbers", true)
	}

	// every DecodePacked* method: two packed fields decoded one after the other with the SAME Decoder; the list returned
	// for the first must still hold its values after the second was decoded (and after Reset + decoding it again)
	packedResultsIndependent(r)

	// Skip: all sequences of <= L fields over the field alphabet
	alpha := skipAlphabet()
	L := ev.Pick(r, 3, 4)
	var seqs, okSeqs atomic.Int64
	// shard on the first field (and second for depth >= 2)
	ev.Parallel(len(alpha)*len(alpha), workers, func(s int) {
		a, b := s/len(alpha), s%len(alpha)
		buf := make([]byte, 0, 1024)
		var n, ok int64
		run := func(seq []int) {
			n++
			if checkSkipSeq(r, alpha, seq, buf) {
				ok++
			}
		}
		if b == 0 {
			run([]int{a})
		}
		run([]int{a, b})
		if L >= 3 {
			for c := range alpha {
				run([]int{a, b, c})
				if L >= 4 {
					for d := range alpha {
						run([]int{a, b, c, d})
					}
				}
			}
		}
		seqs.Add(n)
		okSeqs.Add(ok)
	})
	fb := fallbackAfterFailedDecode(r, alpha)
	mx := mixedConsumption(r, alpha)
	r.Set("mixed_consumption_cases", mx)
	seqs.Add(mx)
	r.Set("fallback_after_failed_typed_decode_cases", fb)
	seqs.Add(fb)
	r.Set("skip_field_alphabet", len(alpha))
	r.Set("skip_max_sequence_length", L)
	r.Set("skip_sequences", seqs.Load())
	r.Sample(map[string]any{"skip_sequence": []string{alpha[3].desc, alpha[9].desc, alpha[len(alpha)-1].desc}, "modes": "safe,fast"})
	r.Evals(cases.Load() + seqs.Load())
	r.Nontrivial(cases.Load() + seqs.Load())
	r.Rule("deterministic enumeration, cases pairwise distinct by construction. Triple case: csproto Encoder bytes must equal the spec-derived reference and protowire (the two references are cross-checked; disagreement = internal error), the exported package-level primitives (EncodeVarint/Tag/ZigZag32/64/Fixed32/64, DecodeVarint/ZigZag32/64/Fixed32/64, SizeOfVarint/ZigZag/TagKey) called directly over the same value and tag sets: bytes, counts, decode with any trailing bytes in buffers of exactly 9/10/11 bytes, every proper prefix an error; message-typed fields (EncodeNested with self-sizing, marshal-only, google-v2 and gogo children of 0..16384 bytes; EncodeMapEntryHeader) must be key+length+child for every child length including 0; and the reference bytes must decode with the real Decoder (safe+fast) to the reference value with full consumption. Skip case: every sequence of <= L well-formed fields over the field alphabet (8 numbers x {4 varint widths, fixed64, fixed32, 4 LEN sizes} + 3 numbers x {key padded by 1 or 2 zero groups} x {varint, fixed32, LEN}); DecodeTag+Skip must return input[start:end], leave the cursor at end, and the concatenation must reproduce the input. Fallback case: key read, a single-value typed decoder (13 scalar kinds, string, bytes) tried and FAILED (value beyond 32 bits, payload of the wrong shape) on every field of the alphabet and on over-wide varints / odd LEN payloads, then Skip must still return the complete field and leave the cursor on the next key, and the widest decoder of the wire type must read the reference value. Mixed consumption: three consecutive fields (every ordered pair of alphabet fields + a one-byte-key field), each consumed by Skip / the widest typed decoder / a no-op Seek then Skip / typed decode, Seek back behind the key, Skip - all 64 combinations, both modes: every Skip returns the complete field, the cursor ends on the next key. distinct_nontrivial = cases that reached the byte/value comparison (all of them).")
	r.Assume("keys are minimal (conforming writers); group wire types 3/4 are outside the supported set")
	r.Finish()
}
