package main

import (
	"bytes"
	"encoding/binary"
	"fmt"

	"github.com/CrowdStrike/csproto"
	"google.golang.org/protobuf/encoding/protowire"

	"verif/mc/lib/ev"
)

// helperFuncs: the exported package-level primitives the Encoder, the Decoder, lazyproto and the generated code are built
// from (EncodeVarint / EncodeTag / EncodeZigZag32/64 / EncodeFixed32/64, DecodeVarint / DecodeZigZag32/64 /
// DecodeFixed32/64, SizeOfVarint / SizeOfZigZag / SizeOfTagKey), called directly: bytes and byte counts equal the
// reference's, the reference's bytes decode to the value with the right consumed count whatever follows them in the buffer
// (exact-length buffers and buffers padded to 9, 10, 11 bytes: the varint reader has a bounds-checked and an unrolled path),
// every proper prefix is an error, nothing panics and nothing outside the written bytes is touched.
func helperFuncs(r *ev.Run, values []uint64, tags []int) int64 {
	var n int64
	fail := func(sig, id, msg string) { r.Fail("helpers/"+sig, id, info{Kind: sig, Msg: msg}) }
	call := func(sig, id string, f func()) {
		defer func() {
			if p := recover(); p != nil {
				fail(sig+"/panic", id, fmt.Sprint(p))
			}
		}()
		f()
	}
	buf := make([]byte, 32)
	enc := func(sig, id string, ref []byte, f func(dst []byte) int) {
		call(sig, id, func() {
			for i := range buf {
				buf[i] = 0xA5
			}
			k := f(buf[8:])
			if k != len(ref) || !bytes.Equal(buf[8:8+len(ref)], ref) {
				fail(sig+"/bytes-differ-from-reference", id, fmt.Sprintf("returned %d, wrote %x; reference %x", k, buf[8:8+max(k, len(ref))], ref))
				return
			}
			for i := range buf {
				if (i < 8 || i >= 8+len(ref)) && buf[i] != 0xA5 {
					fail(sig+"/wrote-outside-the-encoding", id, fmt.Sprintf("byte %d of the window changed", i-8))
					return
				}
			}
		})
	}
	// dec runs f on the reference bytes alone, followed by 0xFF filler up to 9, 10, 11 and 16 bytes, and on every proper prefix
	dec := func(sig, id string, ref []byte, f func(p []byte) (uint64, int, error), want uint64) {
		for _, total := range []int{len(ref), 9, 10, 11, 16} {
			if total < len(ref) {
				continue
			}
			p := make([]byte, total)
			copy(p, ref)
			for i := len(ref); i < total; i++ {
				p[i] = 0xFF
			}
			call(sig, id, func() {
				v, k, err := f(p)
				if err != nil || v != want || k != len(ref) {
					fail(sig+"/differs-from-reference", fmt.Sprintf("%s/buffer=%d", id, total), fmt.Sprintf("got (%#x, %d, %v), reference (%#x, %d) on %x", v, k, err, want, len(ref), p))
				}
			})
		}
		for cut := 0; cut < len(ref); cut++ {
			call(sig, id, func() {
				if v, k, err := f(ref[:cut:cut]); err == nil {
					fail(sig+"/truncated-input-accepted", fmt.Sprintf("%s/cut=%d", id, cut), fmt.Sprintf("got (%#x, %d, nil) on %x", v, k, ref[:cut]))
				}
			})
		}
	}
	for _, v := range values {
		id := fmt.Sprintf("v=%#x", v)
		ref := protowire.AppendVarint(nil, v)
		enc("EncodeVarint", id, ref, func(d []byte) int { return csproto.EncodeVarint(d, v) })
		if s := csproto.SizeOfVarint(v); s != len(ref) {
			fail("SizeOfVarint", id, fmt.Sprintf("%d, reference %d", s, len(ref)))
		}
		dec("DecodeVarint", id, ref, csproto.DecodeVarint, v)
		// zig-zag 64
		s64 := int64(v)
		ref = protowire.AppendVarint(nil, protowire.EncodeZigZag(s64))
		enc("EncodeZigZag64", id, ref, func(d []byte) int { return csproto.EncodeZigZag64(d, s64) })
		if s := csproto.SizeOfZigZag(v); s != len(ref) {
			fail("SizeOfZigZag", id, fmt.Sprintf("%d, reference %d", s, len(ref)))
		}
		dec("DecodeZigZag64", id, ref, func(p []byte) (uint64, int, error) { x, k, e := csproto.DecodeZigZag64(p); return uint64(x), k, e }, v)
		// zig-zag 32
		s32 := int32(v)
		ref = protowire.AppendVarint(nil, protowire.EncodeZigZag(int64(s32)))
		enc("EncodeZigZag32", id, ref, func(d []byte) int { return csproto.EncodeZigZag32(d, s32) })
		dec("DecodeZigZag32", id, ref, func(p []byte) (uint64, int, error) {
			x, k, e := csproto.DecodeZigZag32(p)
			return uint64(uint32(x)), k, e
		}, uint64(uint32(s32)))
		// fixed
		ref = binary.LittleEndian.AppendUint64(nil, v)
		enc("EncodeFixed64", id, ref, func(d []byte) int { return csproto.EncodeFixed64(d, v) })
		dec("DecodeFixed64", id, ref, func(p []byte) (uint64, int, error) { return csproto.DecodeFixed64(p) }, v)
		ref = binary.LittleEndian.AppendUint32(nil, uint32(v))
		enc("EncodeFixed32", id, ref, func(d []byte) int { return csproto.EncodeFixed32(d, uint32(v)) })
		dec("DecodeFixed32", id, ref, func(p []byte) (uint64, int, error) { x, k, e := csproto.DecodeFixed32(p); return uint64(x), k, e }, uint64(uint32(v)))
		n += 14
	}
	for _, tag := range tags {
		for _, wt := range []int{0, 1, 2, 5} {
			id := fmt.Sprintf("tag=%d/wt=%d", tag, wt)
			ref := protowire.AppendTag(nil, protowire.Number(tag), protowire.Type(wt))
			enc("EncodeTag", id, ref, func(d []byte) int { return csproto.EncodeTag(d, tag, csproto.WireType(wt)) })
			if s := csproto.SizeOfTagKey(tag); s != len(ref) {
				fail("SizeOfTagKey", id, fmt.Sprintf("%d, reference %d", s, len(ref)))
			}
			n += 2
		}
	}
	return n
}
