package main

// "Try typed, fall back": a caller reads a key, tries a typed decode, and when that fails (value does not fit the
// 32-bit kind, wrong payload shape, truncated element) falls back to Skip - which must still return exactly the field's
// complete raw encoding and leave the cursor on the next field - or to the widest decoder of the same wire type, which
// must return the reference's value. Enumerated: every field of the Skip alphabet followed by a second field, every
// single-value typed decoder (13 scalar kinds, string, bytes), both modes; only failing attempts are continued.

import (
	"bytes"
	"fmt"
	"io"
	"runtime"
	"sync/atomic"

	"github.com/CrowdStrike/csproto"
	"google.golang.org/protobuf/encoding/protowire"
	"verif/mc/checks/codec"
	"verif/mc/lib/ev"
	"verif/mc/lib/refwire"
)

type attempt struct {
	name string
	wt   int
	f    func(d *csproto.Decoder) error
}

func attempts() []attempt {
	var out []attempt
	for i := range codec.Scalars {
		k := &codec.Scalars[i]
		out = append(out, attempt{k.Name, k.WT, func(d *csproto.Decoder) error { _, err := k.Dec(d); return err }})
	}
	out = append(out, attempt{"string", refwire.Len, func(d *csproto.Decoder) error { _, err := d.DecodeString(); return err }})
	out = append(out, attempt{"bytes", refwire.Len, func(d *csproto.Decoder) error { _, err := d.DecodeBytes(); return err }})
	// The packed decoders are not part of the alphabet: on the unchanged code a packed decode that fails on the k-th
	// element has consumed the length prefix and the elements before it (it returns the partial list), so there is no
	// "fall back on the same field" for them; the 15 single-value decoders uniformly consume nothing when they fail.
	return out
}

func fallbackAfterFailedDecode(r *ev.Run, alpha []fieldEnc) int64 {
	var n int64
	atts := attempts()
	// further first fields that make typed decoders of the SAME wire type fail: varints beyond 32 bits (incl. 10-byte
	// ones), length-delimited payloads that are not a whole number of elements / hold an over-long varint
	first := append([]fieldEnc{}, alpha...)
	for _, num := range []int{1, 16, 2048} {
		for _, v := range []uint64{1 << 32, 1<<32 + 5, 1 << 35, 1 << 63, 1<<64 - 1} {
			first = append(first, fieldEnc{fmt.Sprintf("%d:varint(%d)", num, v), num, refwire.Varint, refwire.AppendVarint(refwire.AppendKey(nil, num, refwire.Varint), v)})
		}
		for _, pl := range [][]byte{{1, 2, 3}, {0xff, 0xff, 0xff, 0xff, 0x7f}, {0x80, 0x80, 0x80, 0x80, 0x80, 0x01}, {0x80}, {1, 0x80}, {0, 0, 0, 0, 0, 0, 0, 0, 1}} {
			first = append(first, fieldEnc{fmt.Sprintf("%d:len(%x)", num, pl), num, refwire.Len, refwire.AppendBytes(refwire.AppendKey(nil, num, refwire.Len), pl)})
		}
	}
	second := []fieldEnc{alpha[0], alpha[5], alpha[7]}
	for _, f := range first {
		for _, g := range second {
			buf := append(append([]byte{}, f.b...), g.b...)
			for _, a := range atts {
				for _, m := range modes {
					for _, then := range []string{"Skip", "widest"} {
						n++
						msg, cls := func() (msg, cls string) {
							defer func() {
								if p := recover(); p != nil {
									msg, cls = fmt.Sprintf("panic: %v", p), "panic"
								}
							}()
							d := csproto.NewDecoder(append([]byte{}, buf...))
							d.SetMode(m)
							gt, gw, err := d.DecodeTag()
							if err != nil || gt != f.tag || int(gw) != f.wt {
								return fmt.Sprintf("DecodeTag: (%d,%d) %v", gt, gw, err), "tag"
							}
							if a.f(d) == nil {
								return "", "" // the attempt succeeded (or mis-read silently: other clauses)
							}
							switch then {
							case "Skip":
								raw, err := d.Skip(gt, gw)
								if err != nil {
									return fmt.Sprintf("Skip after the failed %s: %v", a.name, err), "skip-error"
								}
								if !bytes.Equal(raw, f.b) {
									return fmt.Sprintf("Skip after the failed %s returned %x, the field is %x", a.name, raw, f.b), "raw-mismatch"
								}
								if d.Offset() != len(f.b) {
									return fmt.Sprintf("cursor %d after Skip, the next field starts at %d", d.Offset(), len(f.b)), "cursor"
								}
								gt2, gw2, err := d.DecodeTag()
								if err != nil || gt2 != g.tag || int(gw2) != g.wt {
									return fmt.Sprintf("next key read as (%d,%d) %v", gt2, gw2, err), "next-key"
								}
							case "widest":
								switch f.wt {
								case refwire.Varint:
									v, err := d.DecodeUInt64()
									_, _, kn := protowire.ConsumeTag(f.b)
									want, _ := protowire.ConsumeVarint(f.b[kn:])
									if err != nil || v != want {
										return fmt.Sprintf("DecodeUInt64 after the failed %s: %d %v, the reference reads %d", a.name, v, err, want), "widen"
									}
								case refwire.Len:
									b, err := d.DecodeBytes()
									if err != nil || !bytes.HasSuffix(f.b, b) || d.Offset() != len(f.b) {
										return fmt.Sprintf("DecodeBytes after the failed %s: %x %v cursor %d (field %x)", a.name, b, err, d.Offset(), f.b), "widen"
									}
								default:
									return "", ""
								}
							}
							return "", ""
						}()
						if msg != "" {
							r.Fail("fallback-after-failed-decode/"+then+"/"+cls+"/"+a.name, fmt.Sprintf("fallback/%s/%s/%s/%s", f.desc, a.name, m, then), info{Kind: a.name, Ref: fmt.Sprintf("%x", buf[:min(len(buf), 64)]), Mode: m.String(), Msg: msg, Val: f.desc})
						}
					}
				}
			}
		}
	}
	return n
}

// mixedConsumption: three consecutive fields, each consumed in one of four ways - Skip; the widest typed decoder of its
// wire type; DecodeTag, a no-op Seek(0, SeekCurrent), Skip; DecodeTag, typed decode, Seek back behind the key, Skip (a
// "peek") - all 64 combinations x every ordered pair of alphabet fields (padded keys included) followed by a one-byte-key
// field x both modes. What Skip knows about "the key just read" must be right whatever was done to the fields before.
func mixedConsumption(r *ev.Run, alpha []fieldEnc) int64 {
	var n atomic.Int64
	third := alpha[0]
	ev.Parallel(len(alpha), runtime.NumCPU(), func(ai int) {
		var cnt int64
		for bi := range alpha {
			fs := [3]fieldEnc{alpha[ai], alpha[bi], third}
			buf := append(append(append([]byte{}, fs[0].b...), fs[1].b...), fs[2].b...)
			for mask := 0; mask < 64; mask++ {
				for _, m := range modes {
					cnt++
					msg, cls := func() (msg, cls string) {
						defer func() {
							if p := recover(); p != nil {
								msg, cls = fmt.Sprintf("panic: %v", p), "panic"
							}
						}()
						d := csproto.NewDecoder(append([]byte{}, buf...))
						d.SetMode(m)
						start := 0
						for i, f := range fs {
							act := (mask >> (2 * i)) & 3
							end := start + len(f.b)
							gt, gw, err := d.DecodeTag()
							if err != nil || gt != f.tag || int(gw) != f.wt {
								return fmt.Sprintf("field %d: DecodeTag (%d,%d) %v", i, gt, gw, err), "tag"
							}
							afterKey := d.Offset()
							typed := func() error {
								var err error
								switch f.wt {
								case refwire.Varint:
									_, err = d.DecodeUInt64()
								case refwire.Fixed64:
									_, err = d.DecodeFixed64()
								case refwire.Fixed32:
									_, err = d.DecodeFixed32()
								default:
									_, err = d.DecodeBytes()
								}
								return err
							}
							skip := func(how string) (string, string) {
								raw, err := d.Skip(gt, gw)
								if err != nil {
									return fmt.Sprintf("field %d (%s): Skip: %v", i, how, err), "skip-error"
								}
								if !bytes.Equal(raw, f.b) {
									return fmt.Sprintf("field %d (%s): Skip returned %x, the field is %x", i, how, raw, f.b), "raw-mismatch"
								}
								return "", ""
							}
							switch act {
							case 0:
								if m, c := skip("Skip"); m != "" {
									return m, c
								}
							case 1:
								if err := typed(); err != nil {
									return fmt.Sprintf("field %d: typed decode: %v", i, err), "typed-error"
								}
							case 2:
								if _, err := d.Seek(0, io.SeekCurrent); err != nil {
									return fmt.Sprintf("field %d: Seek(0, current): %v", i, err), "seek"
								}
								if m, c := skip("after a no-op Seek"); m != "" {
									return m, c
								}
							default:
								if err := typed(); err != nil {
									return fmt.Sprintf("field %d: typed decode: %v", i, err), "typed-error"
								}
								if _, err := d.Seek(int64(afterKey), io.SeekStart); err != nil {
									return fmt.Sprintf("field %d: Seek back: %v", i, err), "seek"
								}
								if m, c := skip("after peeking at the value and seeking back"); m != "" {
									return m, c
								}
							}
							if d.Offset() != end {
								return fmt.Sprintf("field %d: cursor %d, the next field starts at %d", i, d.Offset(), end), "cursor"
							}
							start = end
						}
						return "", ""
					}()
					if msg != "" {
						r.Fail("mixed-consumption/"+cls, fmt.Sprintf("mixed/%s,%s/mask=%d/%s", fs[0].desc, fs[1].desc, mask, m), info{Kind: "skip", Ref: fmt.Sprintf("%x", buf[:min(len(buf), 64)]), Mode: m.String(), Msg: msg, Val: fmt.Sprintf("%s | %s | %s ; actions (2 bits per field: 0 Skip, 1 typed, 2 no-op Seek then Skip, 3 peek then Skip) = %d", fs[0].desc, fs[1].desc, fs[2].desc, mask)})
					}
				}
			}
		}
		n.Add(cnt)
	})
	return n.Load()
}
