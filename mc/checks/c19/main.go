// C19: nested-message bridging in the hand-written codec (Encoder.EncodeNested / Decoder.DecodeNested)
// is exact. Mode X: exhaustive deterministic enumeration of
//
//	nested value (12 flavours) x layout (only/first/middle/last) x field number x surrounding scalars
//
// executed on the real Encoder/Decoder. Oracle: bytes = key || varint(len b) || b with
// b = csproto.Marshal(m) (cross-checked against the owning runtime by decode-equality), keys and
// varints composed by lib/refwire; decoded messages compared with the owning runtime's Equal.
package main

import (
	"io"
	"bytes"
	"errors"
	"fmt"
	"runtime"
	"sort"
	"strings"
	"sync"
	"sync/atomic"

	"github.com/CrowdStrike/csproto"
	"google.golang.org/protobuf/encoding/protowire"

	"verif/mc/lib/ev"
	"verif/mc/lib/refwire"
)

const canary = 16

var modes = []csproto.DecoderMode{csproto.DecoderModeSafe, csproto.DecoderModeFast}

// ---- layouts -------------------------------------------------------------------------------

type fkind int

const (
	fU fkind = iota // EncodeUInt64
	fS              // EncodeString
	fF              // EncodeFixed32
	fN              // EncodeNested
)

type fieldSpec struct {
	kind fkind
	num  int
}

type scal struct {
	u uint64
	s string
	f uint32
}

// layout: the nested field is written after `before` of the three scalar fields (U, S, F).
type layout struct {
	name    string
	before  int
	scalars bool
}

var layouts = []layout{
	{"only", 0, false},
	{"first", 0, true},
	{"middle-after-1", 1, true},
	{"middle-after-2", 2, true},
	{"last", 3, true},
}

type plan struct {
	fields                         []fieldSpec
	sc                             scal
	exp                            []byte
	offKey, offLen, offPay, offEnd int
}

func scalarNums(nested int, large bool) [3]int {
	pool := []int{2, 3, 4, 5}
	if large {
		pool = []int{1<<29 - 2, 1<<29 - 3, 1<<29 - 4, 1<<29 - 5}
	}
	var out [3]int
	i := 0
	for _, c := range pool {
		if c == nested || i == 3 {
			continue
		}
		out[i] = c
		i++
	}
	return out
}

func buildPlan(lay layout, num int, nums [3]int, sc scal, b []byte) *plan {
	p := &plan{sc: sc}
	scal3 := []fieldSpec{{fU, nums[0]}, {fS, nums[1]}, {fF, nums[2]}}
	if lay.scalars {
		p.fields = append(p.fields, scal3[:lay.before]...)
		p.fields = append(p.fields, fieldSpec{fN, num})
		p.fields = append(p.fields, scal3[lay.before:]...)
	} else {
		p.fields = []fieldSpec{{fN, num}}
	}
	for _, f := range p.fields {
		switch f.kind {
		case fU:
			p.exp = refwire.AppendVarint(refwire.AppendKey(p.exp, f.num, refwire.Varint), sc.u)
		case fS:
			p.exp = refwire.AppendBytes(refwire.AppendKey(p.exp, f.num, refwire.Len), []byte(sc.s))
		case fF:
			p.exp = refwire.AppendFixed32(refwire.AppendKey(p.exp, f.num, refwire.Fixed32), sc.f)
		case fN:
			p.offKey = len(p.exp)
			p.exp = refwire.AppendKey(p.exp, f.num, refwire.Len)
			p.offLen = len(p.exp)
			p.exp = refwire.AppendVarint(p.exp, uint64(len(b)))
			p.offPay = len(p.exp)
			p.exp = append(p.exp, b...)
			p.offEnd = len(p.exp)
		}
	}
	return p
}

// encodeFields drives the real Encoder through the layout.
func encodeFields(e *csproto.Encoder, p *plan, m any) error {
	for _, f := range p.fields {
		switch f.kind {
		case fU:
			e.EncodeUInt64(f.num, p.sc.u)
		case fS:
			e.EncodeString(f.num, p.sc.s)
		case fF:
			e.EncodeFixed32(f.num, p.sc.f)
		case fN:
			if err := e.EncodeNested(f.num, m); err != nil {
				return err
			}
		}
	}
	return nil
}

const sentinelNum = 7

func safeEncode(buf []byte, p *plan, m any, sentinel bool) (err error, pan string) {
	defer func() {
		if x := recover(); x != nil {
			pan = fmt.Sprint(x)
		}
	}()
	e := csproto.NewEncoder(buf)
	err = encodeFields(e, p, m)
	if err == nil && sentinel {
		e.EncodeBool(sentinelNum, true)
	}
	return err, ""
}

// safeRTMarshal: the owning runtime's own Marshal of a freshly made instance of the value (plain flavours only; wrapper
// flavours have no runtime of their own).
func safeRTMarshal(v *val) (b []byte, err error) {
	switch v.flavour {
	case "googlev2-plain", "gogo-plain", "googlev1-legacy":
	default:
		return nil, fmt.Errorf("no owning runtime for flavour %s", v.flavour)
	}
	err = safeRT(func() error {
		var e error
		b, e = rtMarshal(v.rt, v.mk())
		return e
	})
	return b, err
}

func safeMarshal(m any) (b []byte, err error, pan string) {
	defer func() {
		if x := recover(); x != nil {
			pan = fmt.Sprint(x)
		}
	}()
	b, err = csproto.Marshal(m)
	return b, err, ""
}

func safeSize(m any) (n int, pan string) {
	defer func() {
		if x := recover(); x != nil {
			pan = fmt.Sprint(x)
		}
	}()
	return csproto.Size(m), ""
}

func safeUnmarshal(b []byte, m any) (err error, pan string) {
	defer func() {
		if x := recover(); x != nil {
			pan = fmt.Sprint(x)
		}
	}()
	return csproto.Unmarshal(b, m), ""
}

func safeRT(f func() error) (err error) {
	defer func() {
		if x := recover(); x != nil {
			err = fmt.Errorf("runtime panic: %v", x)
		}
	}()
	return f()
}

// ---- value preparation (oracle side) -------------------------------------------------------

// prepare computes the oracle bytes of a value and checks the preconditions that make it a fair
// C19 input: csproto.Marshal succeeds and the owning runtime decodes its output to the original
// value. A value failing them exhibits a defect of another property (or a harness mistake) and is
// skipped and listed in the evidence, never silently.
func prepare(r *ev.Run, v *val) {
	b, err, pan := safeMarshal(v.mk())
	if pan != "" || err != nil {
		v.skip = fmt.Sprintf("csproto.Marshal failed: %v %s", err, pan)
		return
	}
	v.b = b
	if v.det {
		b2, _, _ := safeMarshal(v.mk())
		if !bytes.Equal(b, b2) {
			r.Internal("value %s declared deterministic but csproto.Marshal returned different bytes", v.id())
			return
		}
	}
	v.sizeSeen, pan = safeSize(v.mk())
	if pan != "" {
		v.skip = "csproto.Size panicked: " + pan
		return
	}
	if v.sizeSeen != len(b) && !(v.sizeSeen == 0 && len(b) > 0) {
		// a Size()/Marshal() disagreement of the message itself (C04 territory). Size()==0 for a
		// non-empty message is different: that is csproto.Size not knowing the type, and what
		// EncodeNested does then is exactly this property's business.
		v.skip = fmt.Sprintf("csproto.Size=%d but csproto.Marshal returned %d bytes", v.sizeSeen, len(b))
		return
	}
	// the owning runtime must read b back as the original value
	fr := v.fresh()
	rtRejects := false
	if err := safeRT(func() error { return rtUnmarshal(v.rt, b, fr) }); err != nil {
		rtRejects = true
		if v.rt == rtV2 && v.flavour == "fastmarshal-googlev1" {
			// proto2 message with a missing required field: protobuf-go reports it but still fills the message
		} else {
			v.skip = "owning runtime rejects csproto.Marshal output: " + err.Error()
			return
		}
	}
	if !rtEqual(v.rt, fr, v.want()) {
		v.skip = "owning runtime decodes csproto.Marshal output to a different message"
		return
	}
	// plain flavours delegate to the runtime: bytes must be identical when deterministic
	switch v.flavour {
	case "googlev2-plain", "gogo-plain", "googlev1-legacy", "gogo-selfmarshal", "marshaler-v2-embedded":
		if v.det {
			rb, err := rtMarshal(v.rt, v.mk())
			if err != nil || !bytes.Equal(rb, b) {
				v.skip = fmt.Sprintf("owning runtime's Marshal differs from csproto.Marshal (err=%v)", err)
				return
			}
		}
	}
	// direct csproto.Unmarshal of exactly b: what DecodeNested has to reproduce
	d := v.fresh()
	uerr, pan := safeUnmarshal(b, d)
	if pan != "" {
		v.skip = "csproto.Unmarshal panicked on csproto.Marshal output: " + pan
		return
	}
	if uerr != nil {
		if !rtRejects {
			// the owning runtime reads these bytes back as the original value: "decoding the field back yields an equal
			// message" cannot hold if the decode the bridge delegates to refuses them
			r.Fail("DecodeNested/"+v.flavour+"/valid-nested-message-rejected", v.id(), detail{Flavour: v.flavour, Value: v.name, Msg: "csproto.Unmarshal (what DecodeNested delegates to) rejects the bytes csproto.Marshal produced, the owning runtime decodes them to the original value: " + uerr.Error()})
		}
		v.decErr = true
		return
	}
	v.direct = d
	v.useWant = rtEqual(v.rt, d, v.want())
}

// ---- one case ------------------------------------------------------------------------------

type scratch struct{ a, b, c []byte }

func (s *scratch) ensure(n int) {
	need := n + 2*canary + 8
	if len(s.a) < need {
		s.a = make([]byte, need)
		s.b = make([]byte, need)
		s.c = make([]byte, need)
	}
}

func fill(p []byte, c byte) {
	for i := range p {
		p[i] = c
	}
}

type detail struct {
	Flavour  string `json:"flavour"`
	Value    string `json:"value"`
	Layout   string `json:"layout,omitempty"`
	FieldNum int    `json:"field_number,omitempty"`
	Scalars  string `json:"scalars,omitempty"`
	Mode     string `json:"mode,omitempty"`
	SizeSeen int    `json:"csproto_Size"`
	MarshLen int    `json:"len_csproto_Marshal"`
	Got      string `json:"got,omitempty"`
	Want     string `json:"want,omitempty"`
	Msg      string `json:"msg,omitempty"`
}

func hexCut(b []byte) string {
	if len(b) > 48 {
		return fmt.Sprintf("%x...(%d bytes)", b[:48], len(b))
	}
	return fmt.Sprintf("%x", b)
}

// region compares got with the plan and names the first region that deviates.
func (p *plan) region(got []byte, v *val) string {
	if len(got) < len(p.exp) {
		return "short-output"
	}
	switch {
	case !bytes.Equal(got[:p.offKey], p.exp[:p.offKey]):
		return "preceding-fields-damaged"
	case !bytes.Equal(got[p.offKey:p.offLen], p.exp[p.offKey:p.offLen]):
		return "key-mismatch"
	case !bytes.Equal(got[p.offLen:p.offPay], p.exp[p.offLen:p.offPay]):
		return "length-mismatch"
	}
	if v.det {
		if !bytes.Equal(got[p.offPay:p.offEnd], p.exp[p.offPay:p.offEnd]) {
			return "payload-mismatch"
		}
	} else {
		fr := v.fresh()
		if err := safeRT(func() error { return rtUnmarshal(v.rt, got[p.offPay:p.offEnd], fr) }); err != nil || !rtEqual(v.rt, fr, v.want()) {
			return "payload-mismatch"
		}
	}
	if !bytes.Equal(got[p.offEnd:len(p.exp)], p.exp[p.offEnd:]) {
		return "following-fields-misplaced"
	}
	return ""
}

func checkEncode(r *ev.Run, v *val, p *plan, sc *scratch, id string, dt detail) bool {
	n := len(p.exp)
	sc.ensure(n)
	fail := func(kind string, got []byte, msg string) bool {
		dt.Got, dt.Want, dt.Msg = hexCut(got), hexCut(p.exp), msg
		r.Fail("EncodeNested/"+v.flavour+"/"+kind, id, dt)
		return false
	}
	// run A: fresh instance, exactly-sized window; run B: same instance again (warm size cache), other pre-fill
	m1 := v.mk()
	fill(sc.a[:n+2*canary], 0xA5)
	wa := sc.a[canary : canary+n : canary+n]
	err, pan := safeEncode(wa, p, m1, false)
	if pan != "" {
		return fail("panic", wa, "exact buffer, first use: "+pan)
	}
	if err != nil {
		return fail("unexpected-error", wa, err.Error())
	}
	if k := p.region(wa, v); k != "" {
		return fail(k, wa, "exact buffer, first use")
	}
	fill(sc.b[:n+2*canary], 0x5A)
	wb := sc.b[canary : canary+n : canary+n]
	err, pan = safeEncode(wb, p, m1, false)
	if pan != "" {
		return fail("panic", wb, "exact buffer, second use of the same instance: "+pan)
	}
	if err != nil {
		return fail("unexpected-error", wb, "second use of the same instance: "+err.Error())
	}
	if k := p.region(wb, v); k != "" {
		return fail(k+"-on-reuse", wb, "exact buffer, second use of the same instance")
	}
	for i := 0; i < canary; i++ {
		if sc.a[i] != 0xA5 || sc.a[canary+n+i] != 0xA5 || sc.b[i] != 0x5A || sc.b[canary+n+i] != 0x5A {
			return fail("canary-damaged", wa, "bytes outside the window were written")
		}
	}
	// run C: a sentinel field after everything must land exactly at len(exp)
	big := sc.c[: n+3 : n+3]
	fill(big, 0xEE)
	err, pan = safeEncode(big, p, v.mk(), true)
	if pan != "" {
		return fail("panic", big, "larger buffer with sentinel: "+pan)
	}
	if err != nil {
		return fail("unexpected-error", big, err.Error())
	}
	if k := p.region(big, v); k != "" {
		return fail(k, big, "larger buffer with sentinel")
	}
	if big[n] != sentinelNum<<3 || big[n+1] != 1 || big[n+2] != 0xEE {
		return fail("cursor-mismatch", big, fmt.Sprintf("sentinel field not at offset %d: tail %x", n, big[n:]))
	}
	return true
}

func checkDecode(r *ev.Run, v *val, p *plan, id string, dt detail) bool {
	for _, mode := range modes {
		kind, msg := decodeOnce(v, p, mode)
		if kind != "" {
			dt.Mode, dt.Msg, dt.Want = mode.String(), msg, hexCut(p.exp)
			r.Fail("DecodeNested/"+v.flavour+"/"+kind, id+"/"+mode.String(), dt)
			return false
		}
	}
	return true
}

func decodeOnce(v *val, p *plan, mode csproto.DecoderMode) (kind, msg string) {
	defer func() {
		if x := recover(); x != nil {
			kind, msg = "panic", fmt.Sprint(x)
		}
	}()
	buf := append([]byte{}, p.exp...) // private copy: fast mode may alias
	d := csproto.NewDecoder(buf)
	d.SetMode(mode)
	nestedDone := false
	for _, f := range p.fields {
		tag, wt, err := d.DecodeTag()
		if err != nil {
			if nestedDone {
				return "following-key-unreadable", "DecodeTag after the nested field: " + err.Error()
			}
			return "precondition-DecodeTag-error", err.Error() // C01's business, but it blocks this case
		}
		if tag != f.num {
			if nestedDone {
				return "following-key-mismatch", fmt.Sprintf("tag %d after the nested field, expected %d", tag, f.num)
			}
			return "precondition-DecodeTag-mismatch", fmt.Sprintf("tag %d, expected %d", tag, f.num)
		}
		switch f.kind {
		case fU:
			x, err := d.DecodeUInt64()
			if err != nil || x != p.sc.u || wt != csproto.WireTypeVarint {
				return "surrounding-field-wrong", fmt.Sprintf("uint64 field: %v %v", x, err)
			}
		case fS:
			x, err := d.DecodeString()
			if err != nil || x != p.sc.s || wt != csproto.WireTypeLengthDelimited {
				return "surrounding-field-wrong", fmt.Sprintf("string field: %q %v", x, err)
			}
		case fF:
			x, err := d.DecodeFixed32()
			if err != nil || x != p.sc.f || wt != csproto.WireTypeFixed32 {
				return "surrounding-field-wrong", fmt.Sprintf("fixed32 field: %v %v", x, err)
			}
		case fN:
			if wt != csproto.WireTypeLengthDelimited {
				return "tag-mismatch", "wire type"
			}
			if d.Offset() != p.offLen {
				return "tag-mismatch", "offset after key"
			}
			fr := v.fresh()
			err := d.DecodeNested(fr)
			if v.decErr {
				if err == nil {
					return "error-not-propagated", "csproto.Unmarshal of the same bytes fails, DecodeNested returned nil"
				}
				return "", "" // cursor after an error is not part of the verdict
			}
			if err != nil {
				return "unexpected-error", err.Error()
			}
			if d.Offset() != p.offEnd {
				return "consumed-length-mismatch", fmt.Sprintf("offset %d after DecodeNested, expected %d (declared length %d)", d.Offset(), p.offEnd, p.offEnd-p.offPay)
			}
			ref := v.direct
			if v.useWant {
				ref = v.want()
			}
			if !rtEqual(v.rt, fr, ref) {
				return "message-not-equal", "decoded message differs from the original per the owning runtime's Equal"
			}
			nestedDone = true
		}
	}
	if d.Offset() != len(p.exp) || d.More() {
		return "consumed-length-mismatch", fmt.Sprintf("final offset %d of %d", d.Offset(), len(p.exp))
	}
	return "", ""
}

// ---- error propagation -----------------------------------------------------------------------

type encErrCase struct {
	name string
	mk   func() any
	want []error // the error must satisfy errors.Is for one of these; empty: any non-nil error
}

// sigName drops the "/sizeN" suffix of an error-case name: the size belongs to the case id, not the class.
func sigName(name string) string {
	if i := strings.Index(name, "/size"); i >= 0 {
		return name[:i]
	}
	return name
}

func isAny(err error, targets []error) bool {
	for _, t := range targets {
		if errors.Is(err, t) {
			return true
		}
	}
	return len(targets) == 0
}

type decErrCase struct {
	name    string
	mk      func() any
	payload []byte
	want    error
}

func checkEncodeErrors(r *ev.Run, fieldNums []int) (n int64) {
	cases := encodeErrorCases()
	for _, c := range cases {
		// oracle: the nested message (or csproto.Marshal for runtime-only types) really fails
		for _, lay := range layouts {
			for _, num := range fieldNums {
				sc := scal{u: 300, s: "ab", f: 7}
				p := buildPlan(lay, num, scalarNums(num, false), sc, nil)
				buf := make([]byte, 256+len(p.exp))
				err, pan := safeEncode(buf, p, c.mk(), false)
				id := fmt.Sprintf("encode-error/%s/layout=%s/num=%d", c.name, lay.name, num)
				dt := detail{Flavour: c.name, Value: "failing marshaler", Layout: lay.name, FieldNum: num}
				n++
				switch {
				case pan != "":
					dt.Msg = pan
					r.Fail("EncodeNested/"+sigName(c.name)+"/panic", id, dt)
				case err == nil:
					dt.Msg = "EncodeNested returned nil although the nested message cannot be marshalled"
					r.Fail("EncodeNested/"+sigName(c.name)+"/error-not-propagated", id, dt)
				case !isAny(err, c.want):
					dt.Msg = fmt.Sprintf("returned %q, expected errors.Is one of %q", err, c.want)
					r.Fail("EncodeNested/"+sigName(c.name)+"/error-replaced", id, dt)
				}
			}
		}
	}
	r.Set("failing_marshalers", len(cases))
	return n
}

func checkDecodeErrors(r *ev.Run, fieldNums []int) (n int64) {
	cases := decodeErrorCases()
	for _, c := range cases {
		for _, lay := range layouts {
			for _, num := range fieldNums {
				for _, mode := range modes {
					sc := scal{u: 300, s: "ab", f: 7}
					p := buildPlan(lay, num, scalarNums(num, false), sc, c.payload)
					id := fmt.Sprintf("decode-error/%s/layout=%s/num=%d/%s", c.name, lay.name, num, mode)
					dt := detail{Flavour: c.name, Value: "failing unmarshaler", Layout: lay.name, FieldNum: num, Mode: mode.String(), Want: hexCut(p.exp)}
					n++
					err, pan := func() (err error, pan string) {
						defer func() {
							if x := recover(); x != nil {
								pan = fmt.Sprint(x)
							}
						}()
						d := csproto.NewDecoder(append([]byte{}, p.exp...))
						d.SetMode(mode)
						if _, err := d.Seek(int64(p.offLen), 0); err != nil {
							return nil, "harness: seek failed"
						}
						return d.DecodeNested(c.mk()), ""
					}()
					switch {
					case pan != "":
						dt.Msg = pan
						r.Fail("DecodeNested/"+sigName(c.name)+"/panic", id, dt)
					case err == nil:
						dt.Msg = "DecodeNested returned nil although the nested message cannot be unmarshalled"
						r.Fail("DecodeNested/"+sigName(c.name)+"/error-not-propagated", id, dt)
					case c.want != nil && !errors.Is(err, c.want):
						dt.Msg = fmt.Sprintf("returned %q, expected errors.Is(%q)", err, c.want)
						r.Fail("DecodeNested/"+sigName(c.name)+"/error-replaced", id, dt)
					case c.want == nil:
						// a natural failure of a real message: whatever well-known sentinel the message's own entry point
						// reports for exactly these bytes is still found in what DecodeNested returns
						direct, _ := safeUnmarshal(append([]byte{}, c.payload...), c.mk())
						for _, sn := range []error{io.ErrUnexpectedEOF, io.EOF, csproto.ErrValueOverflow, csproto.ErrInvalidVarintData, csproto.ErrInvalidFieldTag} {
							if direct != nil && errors.Is(direct, sn) && !errors.Is(err, sn) {
								dt.Msg = fmt.Sprintf("csproto.Unmarshal of the nested bytes fails with %q (errors.Is %v); DecodeNested returned %q, which is not", direct, sn, err)
								r.Fail("DecodeNested/"+sigName(c.name)+"/error-replaced", id, dt)
							}
						}
					}
				}
			}
		}
	}
	r.Set("failing_unmarshalers", len(cases))
	return n
}

// ---- main ----------------------------------------------------------------------------------

func main() {
	r := ev.Start("C19", "exploration")
	thorough := r.Thorough()

	fieldNums := []int{1, 15, 16, 2047, 2048, 1<<29 - 1}
	scals := []scal{{0, "", 0}, {^uint64(0), "h\xc3\xa9llo\x00", 0xDEADBEEF}, {128, str(128), 1}, {1, "a", 0xFFFFFFFF}}
	largeNums := []bool{false}
	if thorough {
		fieldNums = []int{1, 15, 16, 2047, 2048, 1<<21 - 1, 1 << 21, 1<<28 - 1, 1 << 28, 1<<29 - 1}
		scals = nil
		for _, u := range []uint64{0, 128, ^uint64(0)} {
			for _, s := range []string{"", str(128)} {
				for _, f := range []uint32{0, 0xFFFFFFFF} {
					scals = append(scals, scal{u, s, f})
				}
			}
		}
		largeNums = []bool{false, true}
	}

	vals := allValues(thorough)
	seen := map[string]bool{}
	for i := range vals {
		if seen[vals[i].id()] {
			r.Internal("duplicate value id %s", vals[i].id())
		}
		seen[vals[i].id()] = true
		prepare(r, &vals[i])
	}
	var skipped []string
	flavourValues := map[string]int{}
	var noSizeNonEmpty int
	for i := range vals {
		v := &vals[i]
		if v.skip != "" {
			skipped = append(skipped, v.id()+": "+v.skip)
			// The oracle bytes could not be established for this value. If the owning runtime marshals the very same value
			// without complaint, the value is a valid message, and a valid message must be encodable as a nested field: try
			// it, and report what EncodeNested does (an error / a panic / bytes the runtime does not read back as the value).
			if !v.nilMsg {
				if rb, rerr := safeRTMarshal(v); rerr == nil {
					buf := make([]byte, len(rb)+64)
					e := csproto.NewEncoder(buf)
					var eerr error
					pan := ""
					func() {
						defer func() {
							if x := recover(); x != nil {
								pan = fmt.Sprint(x)
							}
						}()
						eerr = e.EncodeNested(1, v.mk())
					}()
					want := append(protowire.AppendVarint(protowire.AppendTag(nil, 1, protowire.BytesType), uint64(len(rb))), rb...)
					if pan != "" || eerr != nil || (v.det && !bytes.HasPrefix(buf, want)) {
						r.Fail("EncodeNested/"+v.flavour+"/valid-message-cannot-be-encoded", v.id(), detail{Flavour: v.flavour, Value: v.name, Msg: fmt.Sprintf("precondition: %s; EncodeNested: err=%v panic=%q; the owning runtime marshals the same value to %d bytes", v.skip, eerr, pan, len(rb)), Got: hexCut(buf[:min(len(buf), len(want)+4)]), Want: hexCut(want)})
					}
				}
			}
			continue
		}
		flavourValues[v.flavour]++
		if v.sizeSeen == 0 && len(v.b) > 0 {
			noSizeNonEmpty++
		}
	}
	sort.Strings(skipped)
	r.Set("values", len(vals))
	r.Set("values_per_flavour", flavourValues)
	r.Set("values_skipped_by_precondition", skipped)
	r.Set("values_where_csproto_Size_is_0_but_message_nonempty", noSizeNonEmpty)
	r.Set("layouts", len(layouts))
	r.Set("field_numbers", fieldNums)
	r.Set("surrounding_scalar_sets", len(scals))

	// classification sanity of the hand-written legacy types (harness check, not a verdict)
	if mt := csproto.MsgType(&LegacyMsg{}); mt != csproto.MessageTypeGoogleV1 {
		r.Internal("LegacyMsg classifies as %v, expected MessageTypeGoogleV1", mt)
	}
	if mt := csproto.MsgType(&LegacyBare{}); mt != csproto.MessageTypeGoogleV1 {
		r.Internal("LegacyBare classifies as %v, expected MessageTypeGoogleV1", mt)
	}

	var cases, nontriv, decErrCases atomic.Int64
	var mu sync.Mutex
	flavourCases := map[string]int64{}
	ev.Parallel(len(vals), runtime.NumCPU(), func(i int) {
		v := &vals[i]
		if v.skip != "" {
			return
		}
		sc := &scratch{}
		var n int64
		// per value, stop after a handful of failing cases: every case of a broken value fails the same way
		failures := 0
		for _, lay := range layouts {
			for _, num := range fieldNums {
				for si, s := range scals {
					if !lay.scalars && si > 0 {
						continue // no scalar fields in this layout
					}
					for _, large := range largeNums {
						if !lay.scalars && large {
							continue
						}
						p := buildPlan(lay, num, scalarNums(num, large), s, v.b)
						id := fmt.Sprintf("%s/layout=%s/num=%d/scalars=%d/largenums=%v", v.id(), lay.name, num, si, large)
						dt := detail{Flavour: v.flavour, Value: v.name, Layout: lay.name, FieldNum: num,
							Scalars: fmt.Sprintf("u=%d s=%q f=%#x", s.u, s.s, s.f), SizeSeen: v.sizeSeen, MarshLen: len(v.b)}
						okE := checkEncode(r, v, p, sc, id, dt)
						okD := checkDecode(r, v, p, id, dt)
						n++
						if !okE || !okD {
							failures++
						}
					}
				}
			}
		}
		cases.Add(n)
		if len(v.b) > 0 {
			nontriv.Add(n)
		}
		if v.decErr {
			decErrCases.Add(n)
		}
		mu.Lock()
		flavourCases[v.flavour] += n
		mu.Unlock()
		_ = failures
	})
	r.Set("cases_per_flavour", flavourCases)
	r.Set("cases_where_nested_unmarshal_fails_naturally", decErrCases.Load())

	ne := checkEncodeErrors(r, fieldNums)
	nd := checkDecodeErrors(r, fieldNums)
	nl := checkDeclaredLengths(r)
	r.Set("encode_error_cases", ne)
	r.Set("decode_error_cases", nd)
	r.Set("declared_length_cases", nl)

	for _, i := range []int{0, 8, 40, len(vals) / 2, len(vals) - 1} {
		if i < len(vals) && vals[i].skip == "" {
			v := &vals[i]
			r.Sample(map[string]any{"flavour": v.flavour, "value": v.name, "len_csproto_Marshal": len(v.b), "csproto_Size": v.sizeSeen,
				"payload_head": hexCut(v.b), "note": "each x 5 layouts x field numbers x scalar sets; 3 encoder runs (exact window twice, sentinel run) + decode in safe and fast mode"})
		}
	}
	r.Sample(map[string]any{"kind": "declared-length", "buffer": "key || varint(D) || 6 tail bytes", "D": "0..6, 7, 8, 2^31-1, 2^31, 2^32, 2^63, 2^64-1", "targets": "recording Unmarshaler / XXX_Unmarshal stubs and runtime messages"})

	r.Evals(cases.Load() + ne + nd + nl)
	r.Nontrivial(nontriv.Load() + ne + nd + nl)
	r.Rule("(a value whose oracle bytes cannot be established although its owning runtime marshals it is handed to EncodeNested directly: error, panic or other bytes = violation) deterministic enumeration of value x layout{only,first,middle-after-1,middle-after-2,last} x nested field number x surrounding scalar set (x small/large scalar field numbers in the thorough tier); values are pairwise distinct by construction (flavour, name). One case = 3 runs of the real Encoder (exact canary-framed window with a fresh instance, exact window re-using the instance with another pre-fill, larger buffer followed by a sentinel field) compared region by region with key||varint(len b)||b, b = csproto.Marshal(m), plus decoding the oracle bytes with the real Decoder in safe and fast mode (tag, DecodeNested into a fresh message, Offset, owning runtime's Equal, surrounding fields). Non-trivial = nested payload non-empty, or an error / declared-length case. Error cases: failing stubs and naturally failing runtime messages x layouts x field numbers (x modes). Declared-length cases: every D in 0..len(tail)+2 and the 32/64-bit boundary values x minimal/padded length varint x targets x modes.")
	r.Assume("the surrounding scalar encoders (EncodeUInt64/EncodeString/EncodeFixed32) are verified by C01; here they only pin the cursor")
	r.Assume("instances are never shared between oracle and code under test: cached sizes (generated Size(), protobuf-go size+1 cache) belong to C09")
	r.Assume("values whose csproto.Marshal/Size/owning-runtime round trip is itself inconsistent are defects of other properties; they are listed in values_skipped_by_precondition (empty on the pinned tree)")
	r.Assume("the write cursor is not observable directly (no Offset accessor): it is inferred from where following fields and a sentinel field land")
	r.Finish()
}
