package main

import (
	"errors"

	golangproto "github.com/golang/protobuf/proto"
	"google.golang.org/protobuf/proto"
)

// Sentinel errors returned by failing stubs; EncodeNested / DecodeNested must hand them back
// (errors.Is).
var (
	errMarshalTo = errors.New("c19: sentinel MarshalTo failure")
	errMarshal   = errors.New("c19: sentinel Marshal failure")
	errUnmarshal = errors.New("c19: sentinel Unmarshal failure")
	errXXX       = errors.New("c19: sentinel XXX_Marshal/XXX_Unmarshal failure")
)

// rec is the shared recording part of every hand-written stub. A stub "message" is an opaque
// payload: its encoding is the payload itself.
type rec struct {
	payload []byte

	failTo, failMarshal, failUnmarshal error

	toCalls, marshalCalls, unmarshalCalls int
	destLens                              []int    // len(dest) of every MarshalTo call
	got                                   [][]byte // copy of the data of every Unmarshal call
}

func (s *rec) marshalTo(dest []byte) error {
	s.toCalls++
	s.destLens = append(s.destLens, len(dest))
	if s.failTo != nil {
		return s.failTo
	}
	copy(dest, s.payload) // a real MarshalTo would panic on a short dest; copy keeps the stub total
	return nil
}

func (s *rec) marshal() ([]byte, error) {
	s.marshalCalls++
	if s.failMarshal != nil {
		return nil, s.failMarshal
	}
	return append([]byte{}, s.payload...), nil
}

func (s *rec) unmarshal(p []byte) error {
	s.unmarshalCalls++
	s.got = append(s.got, append([]byte{}, p...))
	if s.failUnmarshal != nil {
		return s.failUnmarshal
	}
	s.payload = append([]byte{}, p...)
	return nil
}

// stubTo: the fast-marshal shape (Size + MarshalTo + Marshal + Unmarshal), like generated *.pb.fm.go.
type stubTo struct{ rec }

func (s *stubTo) Size() int                   { return len(s.payload) }
func (s *stubTo) MarshalTo(dest []byte) error { return s.marshalTo(dest) }
func (s *stubTo) Marshal() ([]byte, error)    { return s.marshal() }
func (s *stubTo) Unmarshal(p []byte) error    { return s.unmarshal(p) }

// stubToNoSize: MarshalTo + Marshal + Unmarshal but no Size method.
type stubToNoSize struct{ rec }

func (s *stubToNoSize) MarshalTo(dest []byte) error { return s.marshalTo(dest) }
func (s *stubToNoSize) Marshal() ([]byte, error)    { return s.marshal() }
func (s *stubToNoSize) Unmarshal(p []byte) error    { return s.unmarshal(p) }

// stubM: Size + Marshal + Unmarshal, no MarshalTo ("marshals itself to a fresh slice").
type stubM struct{ rec }

func (s *stubM) Size() int                { return len(s.payload) }
func (s *stubM) Marshal() ([]byte, error) { return s.marshal() }
func (s *stubM) Unmarshal(p []byte) error { return s.unmarshal(p) }

// stubMNoSize: Marshal + Unmarshal only.
type stubMNoSize struct{ rec }

func (s *stubMNoSize) Marshal() ([]byte, error) { return s.marshal() }
func (s *stubMNoSize) Unmarshal(p []byte) error { return s.unmarshal(p) }

// stubV1: only the golang/protobuf v1 "XXX_" methods (csproto.ProtoV1Marshaler / ProtoV1Unmarshaler),
// i.e. reachable only through csproto.Size / csproto.Marshal / csproto.Unmarshal.
type stubV1 struct{ rec }

func (s *stubV1) XXX_Size() int { return len(s.payload) }
func (s *stubV1) XXX_Marshal(b []byte, _ bool) ([]byte, error) {
	s.marshalCalls++
	if s.failMarshal != nil {
		return nil, s.failMarshal
	}
	return append(b, s.payload...), nil
}
func (s *stubV1) XXX_Unmarshal(p []byte) error { return s.unmarshal(p) }

// stubNone implements nothing csproto knows about.
type stubNone struct{ X int }

// v2Opaque wraps a google v2 message without exposing it: Marshal/Unmarshal only, no Size and not
// itself a proto.Message, so csproto.Size() knows nothing about it.
type v2Opaque struct{ m proto.Message }

func (w *v2Opaque) Marshal() ([]byte, error) { return proto.Marshal(w.m) }
func (w *v2Opaque) Unmarshal(b []byte) error { return proto.Unmarshal(b, w.m) }

// v2Embed embeds the v2 message (so it still is a proto.Message and csproto.Size can ask the
// runtime) and adds its own Marshal method: the "Marshaler" branch with a runtime-provided size.
type v2Embed struct{ proto.Message }

func (w v2Embed) Marshal() ([]byte, error) { return proto.Marshal(w.Message) }

// LegacyMsg is a message as protoc-gen-go 1.2/1.3 (pre-APIv2) emitted it: struct tags,
// Reset/String/ProtoMessage and the XXX_ methods backed by proto.InternalMessageInfo.
type LegacyMsg struct {
	Name                 *string    `protobuf:"bytes,1,opt,name=name" json:"name,omitempty"`
	Id                   *int64     `protobuf:"varint,2,opt,name=id" json:"id,omitempty"`
	Tags                 []string   `protobuf:"bytes,3,rep,name=tags" json:"tags,omitempty"`
	Child                *LegacyMsg `protobuf:"bytes,4,opt,name=child" json:"child,omitempty"`
	Blob                 []byte     `protobuf:"bytes,5,opt,name=blob" json:"blob,omitempty"`
	XXX_NoUnkeyedLiteral struct{}   `json:"-"`
	XXX_unrecognized     []byte     `json:"-"`
	XXX_sizecache        int32      `json:"-"`
}

func (m *LegacyMsg) Reset()         { *m = LegacyMsg{} }
func (m *LegacyMsg) String() string { return golangproto.CompactTextString(m) }
func (*LegacyMsg) ProtoMessage()    {}

var xxx_messageInfo_LegacyMsg golangproto.InternalMessageInfo

func (m *LegacyMsg) XXX_Unmarshal(b []byte) error {
	return xxx_messageInfo_LegacyMsg.Unmarshal(m, b)
}
func (m *LegacyMsg) XXX_Marshal(b []byte, deterministic bool) ([]byte, error) {
	return xxx_messageInfo_LegacyMsg.Marshal(b, m, deterministic)
}
func (m *LegacyMsg) XXX_Size() int { return xxx_messageInfo_LegacyMsg.Size(m) }

// LegacyBare is the even older shape: no XXX_ methods at all. csproto classifies it as google v1,
// but csproto.Marshal / Unmarshal do not know how to handle it (ErrMarshaler / ErrUnmarshaler).
type LegacyBare struct {
	Name *string `protobuf:"bytes,1,opt,name=name" json:"name,omitempty"`
}

func (m *LegacyBare) Reset()         { *m = LegacyBare{} }
func (m *LegacyBare) String() string { return "LegacyBare" }
func (*LegacyBare) ProtoMessage()    {}
