package main

import (
	"io"
	"bytes"
	"fmt"

	"github.com/CrowdStrike/csproto"
	gogoproto "github.com/gogo/protobuf/proto"
	gogodesc "github.com/gogo/protobuf/protoc-gen-gogo/descriptor"
	gogotypes "github.com/gogo/protobuf/types"
	golangproto "github.com/golang/protobuf/proto"
	"google.golang.org/protobuf/proto"
	"google.golang.org/protobuf/types/descriptorpb"
	"google.golang.org/protobuf/types/known/timestamppb"
	"google.golang.org/protobuf/types/known/wrapperspb"

	p2v1 "github.com/CrowdStrike/csproto/example/proto2/googlev1"
	p3gogo "github.com/CrowdStrike/csproto/example/proto3/gogo"
	p3v2 "github.com/CrowdStrike/csproto/example/proto3/googlev2"

	"verif/mc/lib/ev"
	"verif/mc/lib/refwire"
)

func encodeErrorCases() []encErrCase {
	var out []encErrCase
	for _, n := range []int{0, 5, 128} {
		n := n
		out = append(out,
			// the fast-marshal stubs fail in MarshalTo AND in Marshal (distinct sentinels): whichever of the
			// two the encoder chooses to call, its error has to come back
			encErrCase{fmt.Sprintf("failing-MarshalTo-stub/size%d", n), func() any {
				return &stubTo{rec{payload: pattern(n), failTo: errMarshalTo, failMarshal: errMarshal}}
			}, []error{errMarshalTo, errMarshal}},
			encErrCase{fmt.Sprintf("failing-MarshalTo-stub-no-size/size%d", n), func() any {
				return &stubToNoSize{rec{payload: pattern(n), failTo: errMarshalTo, failMarshal: errMarshal}}
			}, []error{errMarshalTo, errMarshal}},
			encErrCase{fmt.Sprintf("failing-Marshal-stub/size%d", n), func() any { return &stubM{rec{payload: pattern(n), failMarshal: errMarshal}} }, []error{errMarshal}},
			encErrCase{fmt.Sprintf("failing-Marshal-stub-no-size/size%d", n), func() any { return &stubMNoSize{rec{payload: pattern(n), failMarshal: errMarshal}} }, []error{errMarshal}},
			encErrCase{fmt.Sprintf("failing-XXX_Marshal-stub/size%d", n), func() any { return &stubV1{rec{payload: pattern(n), failMarshal: errXXX}} }, []error{errXXX}},
		)
	}
	out = append(out,
		encErrCase{"unsupported-type", func() any { return &stubNone{X: 1} }, []error{csproto.ErrMarshaler}},
		encErrCase{"nil-interface", func() any { return nil }, []error{csproto.ErrMarshaler}},
		// runtime-detected failures: invalid UTF-8 in a proto3 string, unset required fields
		encErrCase{"googlev2-plain-invalid-utf8", func() any { return &wrapperspb.StringValue{Value: "\xff"} }, nil},
		encErrCase{"googlev2-plain-required-missing", func() any { return &descriptorpb.UninterpretedOption_NamePart{} }, nil},
		encErrCase{"marshaler-only-no-size-invalid-utf8", func() any { return &v2Opaque{&wrapperspb.StringValue{Value: "\xff"}} }, nil},
		encErrCase{"marshaler-v2-embedded-invalid-utf8", func() any { return v2Embed{&wrapperspb.StringValue{Value: "\xff"}} }, nil},
		// generated proto2 MarshalTo reports an unset required field
		encErrCase{"fastmarshal-googlev1-required-missing", func() any { return &p2v1.EmbeddedEvent{Stuff: proto.String("x")} }, nil},
		// the gogo runtime refuses a typed nil pointer
		encErrCase{"gogo-plain-typed-nil", func() any { return (*gogodesc.FieldDescriptorProto)(nil) }, nil},
		encErrCase{"gogo-plain-required-missing", func() any { return &gogodesc.UninterpretedOption_NamePart{} }, nil},
	)
	// keep only cases whose failure the oracle side confirms (csproto.Marshal, or the stub's own method, fails)
	var confirmed []encErrCase
	for _, c := range out {
		_, err, pan := safeMarshal(c.mk())
		if mt, isTo := c.mk().(csproto.MarshalerTo); isTo && err != nil && pan == "" {
			// fast-marshal shaped: MarshalTo has to fail as well
			err = safeRT(func() error { return mt.MarshalTo(make([]byte, 1<<10)) })
		}
		if err != nil && pan == "" {
			confirmed = append(confirmed, c)
		}
	}
	return confirmed
}

func decodeErrorCases() []decErrCase {
	var out []decErrCase
	for _, n := range []int{0, 3, 128} {
		n := n
		out = append(out,
			decErrCase{fmt.Sprintf("failing-Unmarshal-fastmarshal-stub/size%d", n), func() any { return &stubTo{rec{failUnmarshal: errUnmarshal}} }, pattern(n), errUnmarshal},
			decErrCase{fmt.Sprintf("failing-Unmarshal-marshaler-stub/size%d", n), func() any { return &stubM{rec{failUnmarshal: errUnmarshal}} }, pattern(n), errUnmarshal},
			decErrCase{fmt.Sprintf("failing-Unmarshal-no-size-stub/size%d", n), func() any { return &stubMNoSize{rec{failUnmarshal: errUnmarshal}} }, pattern(n), errUnmarshal},
			decErrCase{fmt.Sprintf("failing-XXX_Unmarshal-stub/size%d", n), func() any { return &stubV1{rec{failUnmarshal: errXXX}} }, pattern(n), errXXX},
			decErrCase{fmt.Sprintf("unsupported-type/size%d", n), func() any { return &stubNone{} }, pattern(n), csproto.ErrUnmarshaler},
			decErrCase{fmt.Sprintf("nil-interface/size%d", n), func() any { return nil }, pattern(n), csproto.ErrUnmarshaler},
			// (a Google V1 message without XXX_ methods is a supported message since csproto delegates it to golang/protobuf: see C11)
		)
	}
	// nested failures that ARE (or wrap) the sentinels callers test for: the bridge hands the nested error on, it does not
	// translate it - errors.Is / errors.As on what DecodeNested returns still find them
	for _, se := range []struct {
		n string
		e error
	}{{"io.ErrUnexpectedEOF", io.ErrUnexpectedEOF}, {"io.EOF", io.EOF}, {"wrapped-io.ErrUnexpectedEOF", fmt.Errorf("nested field 3: %w", io.ErrUnexpectedEOF)},
		{"csproto.ErrValueOverflow", csproto.ErrValueOverflow}, {"csproto.ErrInvalidVarintData", csproto.ErrInvalidVarintData}, {"typed-error", &typedErr{7}}} {
		se := se
		out = append(out,
			decErrCase{"failing-Unmarshal-fastmarshal-stub/" + se.n, func() any { return &stubTo{rec{failUnmarshal: se.e}} }, pattern(3), se.e},
			decErrCase{"failing-Unmarshal-marshaler-stub/" + se.n, func() any { return &stubM{rec{failUnmarshal: se.e}} }, pattern(3), se.e},
			decErrCase{"failing-XXX_Unmarshal-stub/" + se.n, func() any { return &stubV1{rec{failUnmarshal: se.e}} }, pattern(3), se.e},
		)
	}
	trunc := []byte{0x08}             // field 1, varint, value missing
	badWT := []byte{0x0d, 1, 2, 3, 4} // field 1 as fixed32
	egroup := []byte{0x0c}            // stray end-group
	for _, g := range []struct {
		n string
		b []byte
	}{{"truncated-varint", trunc}, {"wrong-wiretype", badWT}, {"stray-endgroup", egroup}} {
		g := g
		out = append(out,
			decErrCase{"fastmarshal-googlev2/" + g.n, func() any { return &p3v2.EmbeddedEvent{} }, g.b, nil},
			decErrCase{"fastmarshal-gogo/" + g.n, func() any { return &p3gogo.EmbeddedEvent{} }, g.b, nil},
			decErrCase{"googlev2-plain/" + g.n, func() any { return &timestamppb.Timestamp{} }, g.b, nil},
			decErrCase{"marshaler-only-no-size/" + g.n, func() any { return &v2Opaque{&timestamppb.Timestamp{}} }, g.b, nil},
			decErrCase{"marshaler-v2-embedded/" + g.n, func() any { return v2Embed{&timestamppb.Timestamp{}} }, g.b, nil},
			decErrCase{"gogo-selfmarshal/" + g.n, func() any { return &gogotypes.Timestamp{} }, g.b, nil},
			decErrCase{"gogo-plain/" + g.n, func() any { return &gogodesc.FieldDescriptorProto{} }, g.b, nil},
			decErrCase{"googlev1-legacy/" + g.n, func() any { return &LegacyMsg{} }, g.b, nil},
		)
	}
	out = append(out,
		decErrCase{"fastmarshal-googlev1/required-missing", func() any { return &p2v1.EmbeddedEvent{} }, []byte{0x12, 0x01, 0x78}, nil},
		decErrCase{"googlev2-plain/required-missing", func() any { return &descriptorpb.UninterpretedOption_NamePart{} }, []byte{0x0a, 0x01, 0x78}, nil},
	)
	// keep only cases the oracle side confirms: the message's own entry point rejects exactly these bytes
	var confirmed []decErrCase
	for _, c := range out {
		err, pan := safeUnmarshal(append([]byte{}, c.payload...), c.mk())
		if err != nil && pan == "" {
			confirmed = append(confirmed, c)
		}
	}
	return confirmed
}

// ---- declared lengths ----------------------------------------------------------------------

// lenTarget is a message to decode into plus a way to observe whether (and with what) its
// unmarshal entry point was invoked.
type lenTarget struct {
	name string
	mk   func() any // pre-filled instance: used for over-long lengths, where it must stay as it is
	mkE  func() any // empty instance: used for in-range lengths
	// outcome applies the target's own entry point to data on a second instance: the reference result
	// for in-range lengths.
	sameAs func(got any, data []byte) (ok bool, refErr bool)
	// untouched reports that the instance is still in its initial state / was never invoked.
	untouched func(got any) bool
}

func stubTarget(name string, mk func() recHolder) lenTarget {
	return lenTarget{
		name: name,
		mk:   func() any { return mk() },
		mkE:  func() any { return mk() },
		sameAs: func(got any, data []byte) (bool, bool) {
			s := got.(recHolder).r()
			return s.unmarshalCalls == 1 && len(s.got) == 1 && bytes.Equal(s.got[0], data), false
		},
		untouched: func(got any) bool { return got.(recHolder).r().unmarshalCalls == 0 },
	}
}

func rtTarget(name string, k rtKind, mk func() any) lenTarget {
	mkE := reflectFresh(mk())
	return lenTarget{
		name: name,
		mk:   mk,
		mkE:  mkE,
		sameAs: func(got any, data []byte) (bool, bool) {
			// reference: the message's own entry point (as csproto.Unmarshal reaches it) applied to
			// exactly the declared bytes; compared with the owning runtime's Equal
			ref := mkE()
			err, pan := safeUnmarshal(append([]byte{}, data...), ref)
			if err != nil || pan != "" {
				return true, true
			}
			return rtEqual(k, got, ref), false
		},
		untouched: func(got any) bool { return rtEqual(k, got, mk()) },
	}
}

func lengthTargets() []lenTarget {
	return []lenTarget{
		stubTarget("fastmarshal-stub", func() recHolder { return &stubTo{} }),
		stubTarget("marshaler-sizer-stub", func() recHolder { return &stubM{} }),
		stubTarget("marshaler-only-no-size-stub", func() recHolder { return &stubMNoSize{} }),
		stubTarget("protov1-stub", func() recHolder { return &stubV1{} }),
		rtTarget("googlev2-plain", rtV2, func() any { return &timestamppb.Timestamp{Seconds: 77, Nanos: 78} }),
		rtTarget("fastmarshal-googlev2", rtV2, func() any { return &p3v2.EmbeddedEvent{ID: 77, Stuff: "init"} }),
		rtTarget("fastmarshal-gogo", rtGogo, func() any { return &p3gogo.EmbeddedEvent{ID: 77, Stuff: "init"} }),
		rtTarget("gogo-selfmarshal", rtGogo, func() any { return &gogotypes.Timestamp{Seconds: 77, Nanos: 78} }),
		rtTarget("gogo-plain", rtGogo, func() any { return &gogodesc.FieldDescriptorProto{Number: gogoproto.Int32(77)} }),
		rtTarget("googlev1-legacy", rtV1, func() any { return &LegacyMsg{Id: golangproto.Int64(77)} }),
	}
}

// paddedVarint encodes v with one redundant continuation group (non-minimal but well-formed).
func paddedVarint(v uint64) []byte {
	b := refwire.AppendVarint(nil, v)
	if len(b) >= 10 {
		return nil
	}
	b[len(b)-1] |= 0x80
	return append(b, 0x00)
}

func checkDeclaredLengths(r *ev.Run) (n int64) {
	// tail: every even-length prefix is a valid Timestamp / int-field message, odd prefixes are truncated
	tail := []byte{0x08, 0x05, 0x10, 0x06, 0x08, 0x07}
	R := uint64(len(tail))
	var ds []uint64
	for d := uint64(0); d <= R+2; d++ {
		ds = append(ds, d)
	}
	ds = append(ds, 127, 128, 16384, 1<<31-2, 1<<31-1, 1<<31, 1<<31+1, 1<<32-1, 1<<32, 1<<32+uint64(R), 1<<35, 1<<62, 1<<63-1, 1<<63, 1<<63+R, ^uint64(0)-1, ^uint64(0))
	type pre struct {
		name string
		b    []byte
	}
	pres := []pre{{"first", nil}, {"after-uint64", refwire.AppendVarint(refwire.AppendKey(nil, 2, refwire.Varint), 300)}}
	for _, tg := range lengthTargets() {
		for _, pr := range pres {
			for _, num := range []int{1, 1<<29 - 1} {
				for _, d := range ds {
					for _, padded := range []bool{false, true} {
						lv := refwire.AppendVarint(nil, d)
						if padded {
							if lv = paddedVarint(d); lv == nil {
								continue
							}
						}
						buf := append([]byte{}, pr.b...)
						buf = refwire.AppendKey(buf, num, refwire.Len)
						offLen := len(buf)
						buf = append(buf, lv...)
						offPay := len(buf)
						buf = append(buf, tail...)
						for _, mode := range modes {
							n++
							id := fmt.Sprintf("declared-length/%s/%s/num=%d/D=%d/padded=%v/%s", tg.name, pr.name, num, d, padded, mode)
							dt := detail{Flavour: tg.name, Value: fmt.Sprintf("declared length %d, %d bytes available", d, R), Layout: pr.name, FieldNum: num, Mode: mode.String(), Want: hexCut(buf)}
							got := tg.mk()
							if d <= R {
								got = tg.mkE()
							}
							var off int
							err, pan := func() (err error, pan string) {
								defer func() {
									if x := recover(); x != nil {
										pan = fmt.Sprint(x)
									}
								}()
								dec := csproto.NewDecoder(append([]byte{}, buf...))
								dec.SetMode(mode)
								if len(pr.b) > 0 {
									if _, _, e := dec.DecodeTag(); e != nil {
										return nil, "harness: " + e.Error()
									}
									if _, e := dec.DecodeUInt64(); e != nil {
										return nil, "harness: " + e.Error()
									}
								}
								tag, wt, e := dec.DecodeTag()
								if e != nil || tag != num || wt != csproto.WireTypeLengthDelimited || dec.Offset() != offLen {
									return nil, fmt.Sprintf("harness: DecodeTag %d %d %v", tag, wt, e)
								}
								err = dec.DecodeNested(got)
								off = dec.Offset()
								return err, ""
							}()
							if pan != "" {
								dt.Msg = pan
								r.Fail("DecodeNested/"+tg.name+"/declared-length/panic", id, dt)
								continue
							}
							if d > R {
								// beyond the buffer: rejected, nested decoder not invoked
								switch {
								case err == nil:
									dt.Msg = "accepted a declared length beyond the buffer"
									r.Fail("DecodeNested/"+tg.name+"/declared-length/overlong-accepted", id, dt)
								case !tg.untouched(got):
									dt.Msg = "nested decoder was invoked (or the message modified) although the declared length does not fit: " + err.Error()
									r.Fail("DecodeNested/"+tg.name+"/declared-length/nested-decoder-invoked", id, dt)
								}
								continue
							}
							same, refErr := tg.sameAs(got, tail[:d])
							switch {
							case refErr && err == nil:
								dt.Msg = "the message's own unmarshal rejects exactly the declared bytes, DecodeNested returned nil"
								r.Fail("DecodeNested/"+tg.name+"/declared-length/error-not-propagated", id, dt)
							case refErr:
								// propagated; cursor not part of the verdict
							case err != nil:
								dt.Msg = "unexpected error: " + err.Error()
								r.Fail("DecodeNested/"+tg.name+"/declared-length/unexpected-error", id, dt)
							case !same:
								dt.Msg = "nested decoder did not receive exactly the declared bytes"
								r.Fail("DecodeNested/"+tg.name+"/declared-length/wrong-bytes-handed-over", id, dt)
							case off != offPay+int(d):
								dt.Msg = fmt.Sprintf("offset %d, expected %d", off, offPay+int(d))
								r.Fail("DecodeNested/"+tg.name+"/declared-length/consumed-length-mismatch", id, dt)
							}
						}
					}
				}
			}
		}
		// nothing after the key, and a length varint cut off by the end of the buffer
		for _, cut := range [][]byte{{}, {0x80}, {0xff, 0xff}} {
			buf := append(refwire.AppendKey(nil, 1, refwire.Len), cut...)
			for _, mode := range modes {
				n++
				id := fmt.Sprintf("declared-length/%s/truncated-length-%x/%s", tg.name, cut, mode)
				dt := detail{Flavour: tg.name, Value: "length varint missing or truncated", Mode: mode.String(), Want: hexCut(buf)}
				got := tg.mk()
				err, pan := func() (err error, pan string) {
					defer func() {
						if x := recover(); x != nil {
							pan = fmt.Sprint(x)
						}
					}()
					dec := csproto.NewDecoder(append([]byte{}, buf...))
					dec.SetMode(mode)
					if _, _, e := dec.DecodeTag(); e != nil {
						return nil, "harness: " + e.Error()
					}
					return dec.DecodeNested(got), ""
				}()
				switch {
				case pan != "":
					dt.Msg = pan
					r.Fail("DecodeNested/"+tg.name+"/declared-length/panic", id, dt)
				case err == nil:
					dt.Msg = "accepted a field without a complete length"
					r.Fail("DecodeNested/"+tg.name+"/declared-length/overlong-accepted", id, dt)
				case !tg.untouched(got):
					dt.Msg = "nested decoder invoked although no length could be read"
					r.Fail("DecodeNested/"+tg.name+"/declared-length/nested-decoder-invoked", id, dt)
				}
			}
		}
	}
	r.Set("declared_length_targets", len(lengthTargets()))
	r.Set("declared_lengths", ds)
	return n
}

// typedErr is a nested failure of a type of its own (errors.As).
type typedErr struct{ code int }

func (e *typedErr) Error() string { return fmt.Sprintf("c19: typed nested failure %d", e.code) }
