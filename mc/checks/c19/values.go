package main

import (
	"bytes"
	"fmt"
	"reflect"
	"strings"

	gogoproto "github.com/gogo/protobuf/proto"
	gogodesc "github.com/gogo/protobuf/protoc-gen-gogo/descriptor"
	gogotypes "github.com/gogo/protobuf/types"
	golangproto "github.com/golang/protobuf/proto"
	"google.golang.org/protobuf/proto"
	"google.golang.org/protobuf/types/descriptorpb"
	"google.golang.org/protobuf/types/known/anypb"
	"google.golang.org/protobuf/types/known/durationpb"
	"google.golang.org/protobuf/types/known/emptypb"
	"google.golang.org/protobuf/types/known/fieldmaskpb"
	"google.golang.org/protobuf/types/known/structpb"
	"google.golang.org/protobuf/types/known/timestamppb"
	"google.golang.org/protobuf/types/known/wrapperspb"

	p2v1 "github.com/CrowdStrike/csproto/example/proto2/googlev1"
	p3gogo "github.com/CrowdStrike/csproto/example/proto3/gogo"
	p3v2 "github.com/CrowdStrike/csproto/example/proto3/googlev2"
)

type rtKind int

const (
	rtStub rtKind = iota // hand-written stub: the message is its payload
	rtV2                 // google.golang.org/protobuf
	rtGogo               // github.com/gogo/protobuf
	rtV1                 // github.com/golang/protobuf (legacy struct)
)

// val is one nested-message value of one flavour. mk returns a fresh, never-used instance each
// time (generated Size() methods cache, protobuf-go stores size+1 in the same word: instances are
// never shared between the oracle and the code under test).
type val struct {
	flavour string
	name    string
	rt      rtKind
	mk      func() any
	fresh   func() any // empty instance of the same type to decode into
	det     bool       // csproto.Marshal output is byte-for-byte deterministic
	nilMsg  bool       // typed nil pointer: decodes back as an empty message

	// filled by prepare()
	b        []byte // csproto.Marshal(mk())
	decErr   bool   // csproto.Unmarshal(b, fresh) fails (e.g. proto2 required field missing): DecodeNested must fail too
	useWant  bool   // direct round trip reproduces the original: compare decoded messages with the original
	direct   any    // result of the direct csproto.Unmarshal(b, fresh)
	skip     string // precondition failure (a defect outside this property, or harness limitation)
	sizeSeen int    // csproto.Size(mk())
}

func (v *val) id() string { return v.flavour + "/" + v.name }

func (v *val) want() any {
	if v.nilMsg {
		return v.fresh()
	}
	return v.mk()
}

// ---- owning-runtime operations -------------------------------------------------------------

type recHolder interface{ r() *rec }

func (s *rec) r() *rec { return s }

func innerV2(x any) proto.Message {
	switch t := x.(type) {
	case *v2Opaque:
		return t.m
	case v2Embed:
		return t.Message
	case proto.Message:
		return t
	}
	return nil
}

func rtMarshal(k rtKind, x any) ([]byte, error) {
	switch k {
	case rtStub:
		return append([]byte{}, x.(recHolder).r().payload...), nil
	case rtV2:
		return proto.Marshal(innerV2(x))
	case rtGogo:
		return gogoproto.Marshal(x.(gogoproto.Message))
	case rtV1:
		return golangproto.Marshal(x.(golangproto.Message))
	}
	return nil, fmt.Errorf("no runtime")
}

func rtUnmarshal(k rtKind, b []byte, x any) error {
	switch k {
	case rtStub:
		x.(recHolder).r().payload = append([]byte{}, b...)
		return nil
	case rtV2:
		return proto.Unmarshal(b, innerV2(x))
	case rtGogo:
		return gogoproto.Unmarshal(b, x.(gogoproto.Message))
	case rtV1:
		return golangproto.Unmarshal(b, x.(golangproto.Message))
	}
	return fmt.Errorf("no runtime")
}

func rtEqual(k rtKind, a, b any) bool {
	switch k {
	case rtStub:
		return bytes.Equal(a.(recHolder).r().payload, b.(recHolder).r().payload)
	case rtV2:
		return proto.Equal(innerV2(a), innerV2(b))
	case rtGogo:
		return gogoproto.Equal(a.(gogoproto.Message), b.(gogoproto.Message))
	case rtV1:
		return golangproto.Equal(a.(golangproto.Message), b.(golangproto.Message))
	}
	return false
}

func reflectFresh(x any) func() any {
	t := reflect.TypeOf(x).Elem()
	return func() any { return reflect.New(t).Interface() }
}

// ---- builders ------------------------------------------------------------------------------

func pattern(n int) []byte {
	p := make([]byte, n)
	for i := range p {
		p[i] = byte(i*7 + 0x80) // includes 0x00 and 0xff
	}
	return p
}

func str(n int) string {
	var sb strings.Builder
	for i := 0; i < n; i++ {
		sb.WriteByte("abcdefghijklmnopqrstuvwxyz0123456789"[i%36])
	}
	return sb.String()
}

// lenFor finds n such that a payload-carrying message with n payload bytes encodes to exactly
// target bytes; overhead is the number of bytes besides "key(1) + varint(n) + n".
func lenFor(target, overhead int) int {
	for n := target; n >= 0; n-- {
		sz := overhead
		if n > 0 {
			sz += 1 + varintLen(uint64(n)) + n
		}
		if sz == target {
			return n
		}
	}
	return -1
}

func varintLen(v uint64) int {
	n := 1
	for v >= 128 {
		v /= 128
		n++
	}
	return n
}

func ptrVal(mk func() any, flavour, name string, rt rtKind, det bool) val {
	return val{flavour: flavour, name: name, rt: rt, mk: mk, fresh: reflectFresh(mk()), det: det}
}

// eeSpec is a point of the EmbeddedEvent small-scope product.
type eeSpec struct {
	id       int32
	hasID    bool
	stuff    string
	hasStuff bool
	fav      []int32
	rnd      [][]byte
}

func (s eeSpec) name() string {
	id := "absent"
	if s.hasID {
		id = fmt.Sprint(s.id)
	}
	st := "absent"
	if s.hasStuff {
		st = fmt.Sprintf("len%d", len(s.stuff))
	}
	rnd := "nil"
	if s.rnd != nil {
		rnd = ""
		for _, e := range s.rnd {
			rnd += fmt.Sprintf("<%x>", e)
		}
	}
	return fmt.Sprintf("EmbeddedEvent{ID=%s,stuff=%s,fav=%v,rnd=%s}", id, st, s.fav, rnd)
}

func cloneBB(in [][]byte) [][]byte {
	if in == nil {
		return nil
	}
	out := make([][]byte, len(in))
	for i := range in {
		out[i] = append([]byte{}, in[i]...)
	}
	return out
}

func eeValues(thorough bool) []val {
	ids := []int32{0, 1, -1, 300}
	stuffLens := []int{0, 1, 123, 124, 125, 126, 127, 128}
	favs := [][]int32{nil, {0}, {1, -1, 300}}
	rnds := [][][]byte{nil, {{}}, {{1}, {}, {2, 3}}}
	if thorough {
		ids = append(ids, 127, 128, -2147483648, 2147483647)
		stuffLens = append(stuffLens, 2, 112, 113, 120, 121, 122, 129, 16380)
		favs = append(favs, []int32{127, 128, 16383, 16384}, []int32{-2147483648})
		rnds = append(rnds, [][]byte{pattern(128)}, [][]byte{{}, {}})
	}
	var specs []eeSpec
	for _, id := range ids {
		for _, sl := range stuffLens {
			for _, fav := range favs {
				for _, rnd := range rnds {
					specs = append(specs, eeSpec{id: id, hasID: true, stuff: str(sl), hasStuff: true, fav: fav, rnd: rnd})
				}
			}
		}
	}
	// exact total sizes around the length-prefix width changes
	for _, target := range []int{127, 128, 16383, 16384} {
		n := lenFor(target, 2) // ID=1 costs 2 bytes
		specs = append(specs, eeSpec{id: 1, hasID: true, stuff: str(n), hasStuff: true})
	}
	{ // the sized specs may coincide with product points
		seen := map[string]bool{}
		uniq := specs[:0]
		for _, s := range specs {
			if !seen[s.name()] {
				seen[s.name()] = true
				uniq = append(uniq, s)
			}
		}
		specs = uniq
	}
	var out []val
	for _, s := range specs {
		s := s
		out = append(out, ptrVal(func() any {
			return &p3v2.EmbeddedEvent{ID: s.id, Stuff: s.stuff, FavoriteNumbers: append([]int32(nil), s.fav...), RandomThings: cloneBB(s.rnd)}
		}, "fastmarshal-googlev2", s.name(), rtV2, true))
		out = append(out, ptrVal(func() any {
			return &p3gogo.EmbeddedEvent{ID: s.id, Stuff: s.stuff, FavoriteNumbers: append([]int32(nil), s.fav...), RandomThings: cloneBB(s.rnd)}
		}, "fastmarshal-gogo", s.name(), rtGogo, true))
	}
	// proto2 (googlev1 flavour): pointer fields, ID is required, stuff optional
	var p2 []eeSpec
	for _, s := range specs {
		p2 = append(p2, s)
		if len(s.stuff) == 0 {
			c := s
			c.hasStuff = false // optional string absent (differs from present-and-empty in proto2)
			p2 = append(p2, c)
		}
	}
	for _, s := range p2 {
		s := s
		out = append(out, ptrVal(func() any {
			m := &p2v1.EmbeddedEvent{FavoriteNumbers: append([]int32(nil), s.fav...), RandomThings: cloneBB(s.rnd)}
			if s.hasID {
				id := s.id
				m.ID = &id
			}
			if s.hasStuff {
				st := s.stuff
				m.Stuff = &st
			}
			return m
		}, "fastmarshal-googlev1", s.name(), rtV2, true))
	}
	return out
}

func stubValues(thorough bool) []val {
	sizes := []int{0, 1, 2, 127, 128, 129, 16383, 16384}
	if thorough {
		sizes = append(sizes, 16385, 1<<21-1, 1<<21)
	}
	var out []val
	for _, n := range sizes {
		n := n
		nm := fmt.Sprintf("payload%d", n)
		out = append(out,
			ptrVal(func() any { return &stubTo{rec{payload: pattern(n)}} }, "fastmarshal-stub", nm, rtStub, true),
			ptrVal(func() any { return &stubM{rec{payload: pattern(n)}} }, "marshaler-sizer-stub", nm, rtStub, true),
			ptrVal(func() any { return &stubV1{rec{payload: pattern(n)}} }, "protov1-stub", nm, rtStub, true),
		)
		if n <= 16384 {
			out = append(out,
				ptrVal(func() any { return &stubMNoSize{rec{payload: pattern(n)}} }, "marshaler-only-no-size", "stub-"+nm, rtStub, true),
				// a MarshalTo type WITHOUT Size() cannot be sized by anybody (MarshalerTo's contract leaves buffer sizing to
				// the caller), so it is an ill-formed participant and outside the property's flavours: not enumerated
			)
		}
	}
	return out
}

type v2Entry struct {
	name string
	det  bool
	mk   func() proto.Message
}

func v2Messages(thorough bool) []v2Entry {
	sv := func(total int) func() proto.Message {
		n := lenFor(total, 0)
		return func() proto.Message { return &wrapperspb.StringValue{Value: str(n)} }
	}
	bv := func(total int) func() proto.Message {
		n := lenFor(total, 0)
		return func() proto.Message { return &wrapperspb.BytesValue{Value: pattern(n)} }
	}
	es := []v2Entry{
		{"Empty{}", true, func() proto.Message { return &emptypb.Empty{} }},
		{"Timestamp{}", true, func() proto.Message { return &timestamppb.Timestamp{} }},
		{"Timestamp{1,2}", true, func() proto.Message { return &timestamppb.Timestamp{Seconds: 1, Nanos: 2} }},
		{"Timestamp{-1,999999999}", true, func() proto.Message { return &timestamppb.Timestamp{Seconds: -1, Nanos: 999999999} }},
		{"Timestamp{maxint64,minint32}", true, func() proto.Message { return &timestamppb.Timestamp{Seconds: 1<<63 - 1, Nanos: -1 << 31} }},
		{"Duration{-5,-7}", true, func() proto.Message { return &durationpb.Duration{Seconds: -5, Nanos: -7} }},
		{"Duration{}", true, func() proto.Message { return &durationpb.Duration{} }},
		{"StringValue{}", true, func() proto.Message { return &wrapperspb.StringValue{} }},
		{"StringValue{x}", true, func() proto.Message { return wrapperspb.String("x") }},
		{"StringValue/size127", true, sv(127)},
		{"StringValue/size128", true, sv(128)},
		{"StringValue/size16383", true, sv(16383)},
		{"StringValue/size16384", true, sv(16384)},
		{"BytesValue/size127", true, bv(127)},
		{"BytesValue/size128", true, bv(128)},
		{"BytesValue/size16384", true, bv(16384)},
		{"Int64Value{-1}", true, func() proto.Message { return wrapperspb.Int64(-1) }},
		{"UInt32Value{0}", true, func() proto.Message { return wrapperspb.UInt32(0) }},
		{"BoolValue{true}", true, func() proto.Message { return wrapperspb.Bool(true) }},
		{"DoubleValue{1.5}", true, func() proto.Message { return wrapperspb.Double(1.5) }},
		{"Struct{}", true, func() proto.Message { return &structpb.Struct{} }},
		{"Struct{a:1}", true, func() proto.Message {
			s, _ := structpb.NewStruct(map[string]any{"a": 1.0})
			return s
		}},
		{"Struct{a:{b:[1,x,null,true]}}", true, func() proto.Message {
			s, _ := structpb.NewStruct(map[string]any{"a": map[string]any{"b": []any{1.0, "x", nil, true}}})
			return s
		}},
		{"Struct{3 keys}", false, func() proto.Message {
			s, _ := structpb.NewStruct(map[string]any{"a": 1.0, "b": "two", "c": []any{3.0}})
			return s
		}},
		{"Struct/size128", true, func() proto.Message {
			// fields entry: 0a L { 0a 01 6b  12 L2 { 1a n s } }
			for n := 128; n > 0; n-- {
				s, _ := structpb.NewStruct(map[string]any{"k": str(n)})
				if proto.Size(s) == 128 {
					return s
				}
			}
			return nil
		}},
		{"Value{null}", true, func() proto.Message { return structpb.NewNullValue() }},
		{"Value{number}", true, func() proto.Message { return structpb.NewNumberValue(-2.5) }},
		{"Value{list}", true, func() proto.Message {
			l, _ := structpb.NewList([]any{"a", 2.0, false})
			return structpb.NewListValue(l)
		}},
		{"ListValue{}", true, func() proto.Message { return &structpb.ListValue{} }},
		{"FieldMask{a,b.c}", true, func() proto.Message { return &fieldmaskpb.FieldMask{Paths: []string{"a", "b.c"}} }},
		{"Any{Timestamp}", true, func() proto.Message {
			a, _ := anypb.New(&timestamppb.Timestamp{Seconds: 9})
			return a
		}},
		{"FieldDescriptorProto{proto2}", true, func() proto.Message {
			return &descriptorpb.FieldDescriptorProto{Name: proto.String("f"), Number: proto.Int32(-1), Label: descriptorpb.FieldDescriptorProto_LABEL_REPEATED.Enum()}
		}},
		{"DescriptorProto{nested}", true, func() proto.Message {
			return &descriptorpb.DescriptorProto{Name: proto.String("M"), Field: []*descriptorpb.FieldDescriptorProto{{Name: proto.String("a")}, {}},
				NestedType: []*descriptorpb.DescriptorProto{{Name: proto.String("N")}}}
		}},
		// messages that were measured by the runtime BEFORE a sub-message changed its size: their size caches are stale
		// when EncodeNested sees them (the oracle bytes come from another instance built the same way, marshaled with a
		// full re-computation)
		{"Value{list} sized, then an element grown", true, func() proto.Message {
			l, _ := structpb.NewList([]any{"a", 2.0})
			v := structpb.NewListValue(l)
			_ = proto.Size(v)
			l.Values[0] = structpb.NewStringValue(strings.Repeat("b", 40))
			return v
		}},
		{"DescriptorProto{nested} marshaled, then the nested type renamed", true, func() proto.Message {
			d := &descriptorpb.DescriptorProto{Name: proto.String("M"), NestedType: []*descriptorpb.DescriptorProto{{Name: proto.String("N")}}}
			_, _ = proto.Marshal(d)
			d.NestedType[0].Name = proto.String(strings.Repeat("N", 200))
			d.NestedType[0].Field = []*descriptorpb.FieldDescriptorProto{{Name: proto.String("f")}}
			return d
		}},
		// deeply nested values of the recursive well-known types (60 / 150 / 1200 message levels): whatever the runtime's own
		// Marshal produces its own Unmarshal reads back, so the bridge has to as well
		{"Value{list nested 60 deep}", true, func() proto.Message { return deepValue(60) }},
		{"Value{list nested 150 deep}", true, func() proto.Message { return deepValue(150) }},
		{"Value{list nested 1200 deep}", true, func() proto.Message { return deepValue(1200) }},
		{"DescriptorProto{nested 120 deep}", true, func() proto.Message {
			d := &descriptorpb.DescriptorProto{Name: proto.String("L")}
			for i := 0; i < 120; i++ {
				d = &descriptorpb.DescriptorProto{Name: proto.String("L"), NestedType: []*descriptorpb.DescriptorProto{d}}
			}
			return d
		}},
		{"Timestamp{unknown fields}", true, func() proto.Message {
			t := &timestamppb.Timestamp{Seconds: 3}
			t.ProtoReflect().SetUnknown([]byte{0xa0, 0x06, 0x01, 0xaa, 0x06, 0x02, 0x68, 0x69})
			return t
		}},
	}
	if thorough {
		for _, total := range []int{2, 3, 126, 129, 130, 16382, 16385, 1<<21 - 1, 1 << 21, 1<<21 + 1} {
			es = append(es, v2Entry{fmt.Sprintf("StringValue/size%d", total), true, sv(total)})
		}
	}
	return es
}

func v2Values(thorough bool) []val {
	var out []val
	for _, e := range v2Messages(thorough) {
		e := e
		if e.mk() == nil {
			continue
		}
		fresh := func() proto.Message { return e.mk().ProtoReflect().New().Interface() }
		out = append(out, val{flavour: "googlev2-plain", name: e.name, rt: rtV2, det: e.det,
			mk: func() any { return e.mk() }, fresh: func() any { return fresh() }})
		// the same messages behind a Marshal-only wrapper (no Size) and behind an embedding wrapper
		out = append(out, val{flavour: "marshaler-only-no-size", name: "v2wrap-" + e.name, rt: rtV2, det: e.det,
			mk: func() any { return &v2Opaque{e.mk()} }, fresh: func() any { return &v2Opaque{fresh()} }})
		out = append(out, val{flavour: "marshaler-v2-embedded", name: e.name, rt: rtV2, det: e.det,
			mk: func() any { return v2Embed{e.mk()} }, fresh: func() any { return v2Embed{fresh()} }})
	}
	// typed nil pointers
	out = append(out,
		val{flavour: "googlev2-plain", name: "(*Timestamp)(nil)", rt: rtV2, det: true, nilMsg: true,
			mk: func() any { return (*timestamppb.Timestamp)(nil) }, fresh: func() any { return &timestamppb.Timestamp{} }},
		val{flavour: "fastmarshal-googlev2", name: "(*EmbeddedEvent)(nil)", rt: rtV2, det: true, nilMsg: true,
			mk: func() any { return (*p3v2.EmbeddedEvent)(nil) }, fresh: func() any { return &p3v2.EmbeddedEvent{} }},
		val{flavour: "fastmarshal-gogo", name: "(*EmbeddedEvent)(nil)", rt: rtGogo, det: true, nilMsg: true,
			mk: func() any { return (*p3gogo.EmbeddedEvent)(nil) }, fresh: func() any { return &p3gogo.EmbeddedEvent{} }},
	)
	return out
}

func compositeValues() []val {
	var out []val
	out = append(out,
		ptrVal(func() any { return &p3v2.EmbeddedEvent{} }, "fastmarshal-googlev2", "EmbeddedEvent{}", rtV2, true),
		ptrVal(func() any { return &p3gogo.EmbeddedEvent{} }, "fastmarshal-gogo", "EmbeddedEvent{}", rtGogo, true),
		ptrVal(func() any {
			return &p3v2.TestEvent{Name: "n", Info: str(130), IsAwesome: true, Labels: []string{"", "l2"},
				Embedded: &p3v2.EmbeddedEvent{ID: 7, Stuff: "s", RandomThings: [][]byte{{9}}},
				Path:     &p3v2.TestEvent_Sith{Sith: true},
				Nested:   &p3v2.TestEvent_NestedMsg{Details: "d"},
				Ts:       &timestamppb.Timestamp{Seconds: 5, Nanos: 6},
				Oneofs:   &p3v2.TestEvent_Timestamps{Timestamps: &timestamppb.Timestamp{Seconds: 8}}}
		}, "fastmarshal-googlev2", "TestEvent{nested,oneofs,wkt}", rtV2, true),
		ptrVal(func() any { return &p3v2.TestEvent{} }, "fastmarshal-googlev2", "TestEvent{}", rtV2, true),
		ptrVal(func() any {
			return &p3v2.EventUsingWKTs{Name: "w", Ts: &timestamppb.Timestamp{Seconds: -1}, EventType: p3v2.EventType_EVENT_TYPE_TWO}
		}, "fastmarshal-googlev2", "EventUsingWKTs{ts}", rtV2, true),
		ptrVal(func() any {
			return &p3gogo.TestEvent{Name: "n", Info: str(130), IsAwesome: true, Labels: []string{"", "l2"},
				Embedded: &p3gogo.EmbeddedEvent{ID: 7, Stuff: "s", RandomThings: [][]byte{{9}}},
				Path:     &p3gogo.TestEvent_Sith{Sith: true},
				Nested:   &p3gogo.TestEvent_NestedMsg{Details: "d"},
				Ts:       &gogotypes.Timestamp{Seconds: 5, Nanos: 6}}
		}, "fastmarshal-gogo", "TestEvent{nested,oneof,wkt}", rtGogo, true),
		ptrVal(func() any {
			return &p3gogo.EventUsingWKTs{Name: "w", Ts: &gogotypes.Timestamp{Seconds: -1}, EventType: p3gogo.EventType_EVENT_TYPE_TWO}
		}, "fastmarshal-gogo", "EventUsingWKTs{ts}", rtGogo, true),
		ptrVal(func() any {
			id := int32(4)
			return &p2v1.TestEvent{Name: proto.String("p2"), Labels: []string{"a"}, Embedded: &p2v1.EmbeddedEvent{ID: &id},
				Path: &p2v1.TestEvent_Jedi{Jedi: true}}
		}, "fastmarshal-googlev1", "TestEvent{required embedded}", rtV2, true),
	)
	return out
}

func gogoValues() []val {
	var out []val
	add := func(fl, name string, det bool, mk func() any) {
		out = append(out, ptrVal(mk, fl, name, rtGogo, det))
	}
	// gogo messages generated with marshaler/sizer plugins: Size() + Marshal() (+ MarshalTo with the
	// gogo signature, which is not csproto.MarshalerTo)
	add("gogo-selfmarshal", "Timestamp{}", true, func() any { return &gogotypes.Timestamp{} })
	add("gogo-selfmarshal", "Timestamp{1,2}", true, func() any { return &gogotypes.Timestamp{Seconds: 1, Nanos: 2} })
	add("gogo-selfmarshal", "Timestamp{-1,999999999}", true, func() any { return &gogotypes.Timestamp{Seconds: -1, Nanos: 999999999} })
	add("gogo-selfmarshal", "Duration{-5,-7}", true, func() any { return &gogotypes.Duration{Seconds: -5, Nanos: -7} })
	add("gogo-selfmarshal", "Empty{}", true, func() any { return &gogotypes.Empty{} })
	for _, total := range []int{127, 128, 16383, 16384} {
		n := lenFor(total, 0)
		add("gogo-selfmarshal", fmt.Sprintf("StringValue/size%d", total), true, func() any { return &gogotypes.StringValue{Value: str(n)} })
		add("gogo-selfmarshal", fmt.Sprintf("BytesValue/size%d", total), true, func() any { return &gogotypes.BytesValue{Value: pattern(n)} })
	}
	add("gogo-selfmarshal", "Struct{a:1}", true, func() any {
		return &gogotypes.Struct{Fields: map[string]*gogotypes.Value{"a": {Kind: &gogotypes.Value_NumberValue{NumberValue: 1}}}}
	})
	add("gogo-selfmarshal", "Struct{3 keys}", false, func() any {
		return &gogotypes.Struct{Fields: map[string]*gogotypes.Value{
			"a": {Kind: &gogotypes.Value_NumberValue{NumberValue: 1}},
			"b": {Kind: &gogotypes.Value_StringValue{StringValue: "two"}},
			"c": {Kind: &gogotypes.Value_BoolValue{BoolValue: true}}}}
	})
	add("gogo-selfmarshal", "Value{null}", true, func() any { return &gogotypes.Value{Kind: &gogotypes.Value_NullValue{}} })
	add("gogo-selfmarshal", "Int64Value{-1}", true, func() any { return &gogotypes.Int64Value{Value: -1} })
	add("gogo-selfmarshal", "FieldMask{a,b.c}", true, func() any { return &gogotypes.FieldMask{Paths: []string{"a", "b.c"}} })
	// gogo messages without any generated marshal code: only the XXX_ methods of the gogo runtime
	add("gogo-plain", "FieldDescriptorProto{}", true, func() any { return &gogodesc.FieldDescriptorProto{} })
	add("gogo-plain", "FieldDescriptorProto{name,number=-1,label}", true, func() any {
		return &gogodesc.FieldDescriptorProto{Name: gogoproto.String("f"), Number: gogoproto.Int32(-1), Label: gogodesc.FieldDescriptorProto_LABEL_REPEATED.Enum()}
	})
	for _, total := range []int{127, 128, 16383, 16384} {
		n := lenFor(total, 0)
		add("gogo-plain", fmt.Sprintf("FieldDescriptorProto/size%d", total), true, func() any { return &gogodesc.FieldDescriptorProto{Name: gogoproto.String(str(n))} })
	}
	add("gogo-plain", "DescriptorProto{nested}", true, func() any {
		return &gogodesc.DescriptorProto{Name: gogoproto.String("M"), Field: []*gogodesc.FieldDescriptorProto{{Name: gogoproto.String("a")}, {}},
			NestedType: []*gogodesc.DescriptorProto{{Name: gogoproto.String("N")}}}
	})
	add("gogo-plain", "FileDescriptorProto{deps}", true, func() any {
		return &gogodesc.FileDescriptorProto{Name: gogoproto.String("x.proto"), Dependency: []string{"a", ""}, PublicDependency: []int32{0, -1}}
	})
	return out
}

func legacyValues() []val {
	var out []val
	add := func(name string, mk func() any) { out = append(out, ptrVal(mk, "googlev1-legacy", name, rtV1, true)) }
	add("LegacyMsg{}", func() any { return &LegacyMsg{} })
	add("LegacyMsg{name}", func() any { return &LegacyMsg{Name: golangproto.String("n")} })
	add("LegacyMsg{name empty,id=-1}", func() any { return &LegacyMsg{Name: golangproto.String(""), Id: golangproto.Int64(-1)} })
	add("LegacyMsg{tags,child,blob}", func() any {
		return &LegacyMsg{Tags: []string{"a", "", "ccc"}, Child: &LegacyMsg{Id: golangproto.Int64(300), Child: &LegacyMsg{}}, Blob: []byte{0, 0xff}}
	})
	add("LegacyMsg{unknown fields}", func() any { return &LegacyMsg{Id: golangproto.Int64(1), XXX_unrecognized: []byte{0xa0, 0x06, 0x01}} })
	for _, total := range []int{127, 128, 16383, 16384} {
		n := lenFor(total, 0)
		add(fmt.Sprintf("LegacyMsg/size%d", total), func() any { return &LegacyMsg{Name: golangproto.String(str(n))} })
	}
	return out
}

func allValues(thorough bool) []val {
	var out []val
	out = append(out, compositeValues()...)
	out = append(out, stubValues(thorough)...)
	out = append(out, v2Values(thorough)...)
	out = append(out, gogoValues()...)
	out = append(out, legacyValues()...)
	out = append(out, eeValues(thorough)...)
	return out
}

// deepValue: a google.protobuf.Value holding a list that holds a list ... n levels (two message levels per list level).
func deepValue(n int) *structpb.Value {
	v := structpb.NewNumberValue(1)
	for i := 0; i < n/2; i++ {
		v = structpb.NewListValue(&structpb.ListValue{Values: []*structpb.Value{v}})
	}
	return v
}
