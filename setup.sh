#!/bin/bash
# setup_cmd: offline build of the framework + build-cache warm-up (plain, instrumented and -race variants)
set -e
export GOFLAGS=-mod=mod GOPROXY=off GOSUMDB=off GOTOOLCHAIN=local
cd /verif/mc
mkdir -p /verif/bin /verif/evidence /verif/build
# shim/ is only compilable through the overlay (it lives at a virtual import path), so it is not built here
go build ./lib/... ./corpus/... ./cmd/... ./gen/all/...
for id in $(jq -r '.checks[].property_id' /verif/MANIFEST.json); do
  /verif/vcheck build "$id" || { echo "setup: build of $id failed"; exit 1; }
done
# warm the race-detector build used by the C15 complement pass
go test -race -count=1 -vet=off -run '^$' ./checks/c15race >/dev/null 2>&1 || true
echo setup done
