#!/bin/bash
# setup_cmd: offline build of the framework + cache warm-up
set -e
export GOFLAGS=-mod=mod GOPROXY=off GOSUMDB=off GOTOOLCHAIN=local
cd /verif/mc
mkdir -p /verif/bin /verif/evidence /verif/build
go build ./... 
for d in checks/c*/; do
  id=$(basename "$d")
  if [ -f "$d/main.go" ]; then go build -o /verif/bin/$id ./$d; fi
done
echo setup done
