#!/usr/bin/env python3
"""Regenerates MANIFEST.json from the table below (single source of truth for the interface)."""
import json, sys
try:
    import jsonschema
except Exception:
    jsonschema = None

CHECKS = {
 "C01": dict(level="exploration", design="DESIGN.md §7 C01",
   technique="exhaustive small-scope enumeration (model checking mode X: all values of bounded domains x field numbers x modes on the real codec)",
   text="Every enumerated (kind, field number, value, decoder mode) case is executed on the real Encoder/Decoder: exact-size canary-framed buffer, double pre-fill slack detection, sentinel-field cursor check, bit-exact decode and full consumption. quick: boundary/bit-length classes + 2^16 sweeps x boundary field numbers; thorough: all 2^32 values of every 32-bit kind (scalar and packed element), all 2^29-1 field numbers x 4 wire types.",
   note="Assumes key and payload encoding are independent (separate calls); 64-bit domains covered by classes, not all 2^64 values. Trusted: Go runtime bounds checks, the check's own reference arithmetic."),

 "C02": dict(level="exploration", design="DESIGN.md §7 C02",
   technique="exhaustive small-scope enumeration against two independent references (spec-derived refwire + protowire), all field sequences <= L for Skip",
   text="Every enumerated triple: Encoder bytes == spec-derived reference == protowire; reference bytes decode (safe+fast) to the reference value with full consumption. Skip: every sequence of <= 3 (thorough 4) well-formed fields over a 98-symbol field alphabet (80 minimal encodings + 18 fields whose key is a padded, non-minimal varint): DecodeTag+Skip returns input[start:end], cursor at end, concatenation reproduces the input. thorough adds all 2^32 values of 32-bit kinds and all 2^29-1 field numbers. Try-typed-then-fall-back: after a key each of the 15 single-value decoders is tried on every field of the alphabet (plus over-wide varints and odd LEN payloads); where the attempt fails, Skip must still return the complete field and leave the cursor on the next key, and the widest decoder of the wire type must read the reference value.",
   note="Encoder output is compared for minimal keys (conforming writers); Skip is also exercised on padded keys; wire types 3/4 unsupported by design. Trusted: the two references (cross-checked against each other on every case)."),
 "C03": dict(level="model_checking", design="DESIGN.md §7 C03",
   technique="explicit-state BFS over the real csproto.Decoder: every operation in every reachable decoder state, per buffer of an exhaustive bounded family; reference-model comparison per transition",
   text="For every byte string of length <= 4 (thorough 5) over a 16-symbol wire alphabet (no padding, the same as a sub-slice with spare capacity, three 10-byte paddings), BFS from NewDecoder over states keyed by all Decoder struct fields; all ~120 operations applied in every reachable state, so call sequences of every length are covered per buffer. Oracle per transition: no panic, cursor in [0,len], err==nil => reference item exists with equal value and advance == item length, over-long declared length => error, nested callee not invoked for over-long length. Declared-length allocation family runs in an address-space-limited subprocess with a per-call TotalAlloc budget; worker death is attributed to the executing case. Long-run family: 64 KiB (thorough also 1 MiB) runs of each of the 256 byte values x every operation x both modes x offsets 0/1 with per-call budgets on heap (80 bytes per input byte) and goroutine stack growth (1 MiB), stack capped in the worker so that an unbounded descent is attributed as a worker death.",
   note="Inputs longer than the bound / bytes outside the alphabet not covered. State key = raw bytes of the Decoder struct. Every explored transition is an execution of the real code (traces_validated_against_impl == transitions)."),

 "C13": dict(level="exploration", design="DESIGN.md §7 C13",
   technique="exhaustive product enumeration (message family x definition family x accessors x modes x entry points) against a spec-derived reference walk",
   text="(all ~15k messages x 74 core definitions) U (75 core messages x all 6561 definitions) [quick: deterministic 1/16 and 1/12 slices; thorough: all], each decoded through Decoder.Decode (safe, fast) and the deprecated Decode(); every one of 26 typed accessors via DecodeResult and FieldData, GetFieldData, FieldData(path), NestedResult(s) (recursively, depth 3) and Range compared with the reference: last occurrence / all occurrences with packed runs expanded / sub-message values / raw bytes / typed errors. All byte strings <= 4 (5) over a 16-symbol alphabet x 12 definitions for totality (full oracle when well-formed).",
   note="Property's own precondition: one wire type per requested field number. Where the statement is silent the reference's own expansion decides (parse ok => values equal; else any error). Workers are subprocesses with an address-space limit."),

 "C14": dict(level="model_checking", design="DESIGN.md §7 C14",
   technique="stateless depth-bounded DFS over operation sequences x deviation-bounded enumeration of sync.Pool answers, on the real lazyproto code (sync redirected to an explorable shim via build overlay); isolation oracle against a reference parse",
   text="For each of 40 option combinations (mode x maxBuffer x filter): every operation sequence up to the stated depth over {Decode(each of 5-6 input shapes incl. malformed), ReadAll, Nested, NestedAll, ReadNested, Close} with 1 and 2 live handles, x every pool answer (LIFO / older / fresh) within the deviation bound. After every step every accessor of every live handle must equal the reference parse of its own input, nothing may panic, and in safe mode every value ever handed out (and the clobbered caller buffer) is re-verified.",
   note="No state merging (no sound key for aliasing), so coverage = all executions within the bounds. Reading/closing a closed handle is misuse, outside the alphabet. Real sync.Pool behaviours are a subset of the enumerated answers."),
 "C15": dict(level="model_checking", design="DESIGN.md §7 C15",
   technique="controlled cooperative scheduler + DFS with iterative preemption bounding (CHESS style) x pool-answer enumeration on the real lazyproto code; separate free-running -race pass as sampling complement",
   text="2 threads x 2 iterations and 3 threads x 1 iteration (thorough: + 3x2, higher bounds) sharing one Decoder, each iteration Decode/read/NestedResults/read nested/Close on its own unique input; scheduling points at every Pool.Get/Put, every API boundary and between obtaining and re-verifying values; all interleavings with <= 2 (3) preemptions x <= 1 (2) non-default pool answers. Oracle: per-thread isolation against the reference parse, no panic, no deadlock; replay determinism asserted before exploring. Thread 0 closes the nested results it was handed before it closes the root.",
   note="Cooperative scheduling cannot see unsynchronised accesses inside one API call: the -race pass (G in {2,8,32,64}, GOMAXPROCS {1,2,16}) is sampling and only a complement, reported under coverage.race_pass. Sequential consistency assumed."),

 "C04": dict(level="exploration", design="DESIGN.md §7 C04",
   technique="exhaustive feature-matrix enumeration (schemas x runtimes x value trees) executed on fast-marshal code regenerated from the current templates; mutual-agreement oracle with canary-framed exact buffers",
   text="Corpus = complete kind x cardinality x syntax feature matrix (+ extensions, recursion, maps with every key kind, field-number boundaries) for runtimes gogo+gv2 (thorough: + legacy v1 + gv1 and all field pairs). Fast-marshal code is regenerated from /repo's current generator on every run and compiled per cell. Every field alone at every boundary value of its domain, all-first/second/last, extension value trees: Size (fresh copy) == len(Marshal) == bytes written by MarshalTo into an exactly sized canary-framed window; no panic; csproto.Size/Marshal agree. Hand-built struct shapes no decode produces (nil list element, nil map value, oneof wrapper holding nil, typed nil oneof wrapper, shared child; top level and one level down) on every tree that has the position; packed payloads of exactly 127/128 (16383/16384) bytes built from the widest encoding; lists of 4097 (thorough up to 65537) elements.",
   note="Cells whose code cannot be generated/compiled are quarantined and listed in evidence (they are C16's verdict). Values are built through protoreflect/runtime APIs, never through generated code. Nil-ish hand-built shapes (nil list elements etc.) are not enumerated."),
 "C05": dict(level="exploration", design="DESIGN.md §7 C05",
   technique="exhaustive feature-matrix enumeration; differential oracle against the reference runtime decoding from the descriptor alone (dynamicpb), bit-exact tree comparison",
   text="Same corpus x runtime x value-tree space as C04. generated.Marshal(m) is parsed by protobuf-go's dynamicpb from descriptors built independently from the corpus definition (protodesc), with dynamic extension types; the decoded tree must equal the source tree bit-exactly (floats by bits incl. -0.0/NaN, presence of every field, extensions), and the reference must see no unknown fields. Hand-built struct shapes (as C04; nil map values excepted, the runtimes disagree on them) compared with the reference runtime's own reading of the struct.",
   note="Per case harness guards (reference round trip, struct read-back) turn harness faults into internal errors, not violations. The reference runtime (google.golang.org/protobuf v1.36.4) is trusted."),
 "C20": dict(level="exploration", design="DESIGN.md §7 C20",
   technique="exhaustive enumeration of rendered layouts / short strings / short byte strings / value trees x path subsets against a reference grammar and a reference wire walk; protodump's dumpProto driven through an overlay-injected test file and the real binary",
   text="Hex: all byte strings <= 3 over 5 symbols x every whitespace/comment/newline/case layout at every gap (15 M renderings quick) every string <= 6 over a 12-character alphabet (hex digits, a non-digit, the comment character, space, tab, LF, VT, NUL, ESC) against a reference grammar, and lines of length 2^k-1, 2^k, 2^k+1 up to 2^18. protodump: dumpProto on all byte strings <= 4 (5) over the 16-symbol wire alphabet x 5 path configurations and value trees (depth 2/3) x every subset of expand/strings paths incl. absent/prefix/over-long/wildcard paths; output parsed tolerantly and compared with a refwire-based reference walk; CLI forms -file, redirected and piped stdin, malformed => exit 1 without panic. Path sets include a specific path plus a covering wildcard of the same length in both orders, duplicated paths, and reversed path order.",
   note="Undocumented combinations (same path in -strings and -expand; line break inside a byte) accept both behaviours. dumpProto is reached through a test file injected with go test -overlay; the binary is rebuilt from /repo per run."),

 "C19": dict(level="exploration", design="DESIGN.md §7 C19",
   technique="exhaustive product enumeration (13 message flavours x values x field position x field number x surrounding scalars x failing stubs x declared lengths) with a region-by-region byte oracle built on the spec-derived reference",
   text="EncodeNested/DecodeNested for fast-marshal (MarshalTo+Size), Sizer+Marshaler, Marshaler-only, gogo plain/self-marshal, legacy golang v1, protov1 stubs and google v2 plain incl. well-known types; values empty/small/127/128/16383/16384-byte payloads; 5 positions among scalar fields; field numbers up to 2^29-1. Bytes must equal key || varint(len) || csproto.Marshal(m) in an exactly sized canary-framed window, cursor pinned by a sentinel field; DecodeNested (safe+fast) consumes exactly the declared length and yields an Equal message; nested errors propagate (errors.Is sentinel); 3900 declared-length cases with a recording unmarshaler that must not be invoked when the length does not fit. Values include recursive well-known types nested 60/150/1200 levels; a nested message that its owning runtime reads back but csproto.Unmarshal rejects is a violation.",
   note="A MarshalTo type without Size() is an ill-formed participant (nobody can size its buffer) and is not enumerated. Cursor position after an error is not part of the verdict."),

 "C06": dict(level="exploration", design="DESIGN.md §7 C06",
   technique="exhaustive enumeration of wire-level encoding variants of every corpus value tree; differential oracle against the reference runtime's decode of the same bytes",
   text="For every corpus type x runtime x value tree: all legal encoding variants (order permutations, packed/unpacked/split/mixed, duplicated singular scalar and message fields, every map-entry shape, two oneof members, 7 unknown-field shapes at every position, same inside nested messages) are decoded by the generated Unmarshal into a fresh struct and into a pre-populated struct with primed size cache; the whole check runs on the default generation and on the code generated with enableunsafedecode=true (GENALT); the result (read back through reflection) must equal the reference runtime's decode bit-exactly, incl. unknown bytes. The canonical encoding also goes into a destination whose previous Unmarshal failed half-way. Variants include unknown fields with one-byte keys and a padded-key unknown field followed by a second unknown field.",
   note="Expected trees always come from the reference decode of the same bytes. Known findings (map-entry shapes, merge of duplicated message fields, repeated/file-scope extensions) are matched by shape-level signatures."),
 "C07": dict(level="exploration", design="DESIGN.md §7 C07",
   technique="exhaustive enumeration of unknown-field insertions over every corpus value tree; reference-decoded comparison of re-marshaled bytes",
   text="Every encoding variant carrying unknown fields (7 shapes x every position, nested levels, all runtimes; default generation and enableunsafedecode=true): generated Unmarshal then Size/Marshal; reference decode of the output must show the same unknown bytes in order and the same known tree; Size == len(Marshal); second round trip is a fixed point. Unknown-field shapes include one-byte keys (numbers <= 15 where the schema has room) and a padded-key unknown field followed by a second unknown field in three placements.",
   note="An input that is rejected although the same message without the unknown fields is accepted is a violation here; other rejections are C06/C08 business."),
 "C10": dict(level="exploration", design="DESIGN.md §7 C10",
   technique="exhaustive corpus enumeration with buffer-clobber histories (complement, zero, reuse) and snapshot comparison; lazyproto clause decided by the C14/C15 explorations",
   text="Every corpus type x runtime x value tree (+ unknown-field variant): generated Unmarshal (default options, and the explicit option enableunsafedecode=false, whose generated code must equal the default or pass the same check) from a private buffer, snapshot of the decoded tree, then the buffer is overwritten with its complement, zeroed, and recycled for another decode; the tree must stay equal to the snapshot. lazyproto clause: 18 messages x {Decoder.Decode safe mode, Decode()} x {complement, zero, recycled buffer}: all 26 accessors and NestedResults/NestedResult decoded lazily after the clobber must still give the original values (C14/C15 additionally clobber the buffer in every explored history/schedule). Snapshots clone strings and string map keys (a string header copied by value still points into the caller's buffer).",
   note="Unsafe/fast mode is opt-in and not checked. Alias detection is by content clobbering (complement pattern changes every byte)."),

 "C17": dict(level="exploration", design="DESIGN.md §7 C17",
   technique="exhaustive enumeration of unset-required-field subsets x nesting positions; differential oracle against the reference runtime's initialisation verdict",
   text="Every proto2 corpus type with required fields: every subset of unset required fields (exhaustive up to 6 fields, structured subsets for the 17-field message), with/without other content, deficient and complete nested messages in singular / list / map-value / oneof positions, empty message and empty input, for every runtime. Marshal, MarshalTo and csproto.Marshal must fail iff proto.CheckInitialized of the tree fails; generated Unmarshal (into a fresh receiver and, with csproto.Unmarshal too, into a receiver that already holds a complete message) of the reference's partial encoding must fail iff the reference's strict Unmarshal does. Required fields present with the zero / empty value of their kind (all at once, each alone among non-zero ones) are complete messages in both directions.",
   note="Reference = google.golang.org/protobuf dynamicpb over independently built descriptors. Extension positions with required fields are not enumerated."),

 "C08": dict(level="exploration", design="DESIGN.md §7 C08",
   technique="exhaustive mutation families (every truncation, every single-byte replacement from an 11-value menu at every offset, every length-prefix inflation) over canonical encodings of all corpus value trees + all short byte strings over a wire alphabet; differential oracle on commonly accepted inputs; crash-attributing subprocess workers",
   text="For every corpus type x runtime: all truncations, all byte replacements at all offsets, all length-prefix inflations (with per-case allocation budget) of every seed encoding, every seed encoding twice in a row, and every byte string <= 3 (4) over a 16-symbol alphabet. Default generation and enableunsafedecode=true. No panic, no worker death under an address-space limit, allocation linear in the input, and whenever generated Unmarshal and the reference both accept, the decoded trees are equal. Every legal encoding variant of every tree is an input as well, and after every Unmarshal - accepted or rejected - the caller's buffer must hold exactly what it held before.",
   note="Agreement is only required on commonly accepted inputs. Disagreements caused by triaged mechanisms (map-entry shape, unsupported extension shapes) are attributed by a structural classifier and listed as known findings."),

 "C12": dict(level="model_checking", design="DESIGN.md §7 C12",
   technique="explicit-state BFS over the real extension accessors (state = operation history replayed on a fresh message, dedup on model map + canonical bytes), every operation and every observation in every state, model + owning-runtime differential oracle",
   text="For every extendable corpus message (13 scalar/enum/string/bytes/message extension kinds + enum/uint32/sfixed/repeated/file-scope variants, gogoproto and descriptor.proto options) on gogo, legacy v1, gv2, gv1: BFS over Set(e,v1|v2)/Clear(e)/ClearAll with 4 (thorough 6) extensions = all 3^n model states; in every state Has/Get/Range (also early-error callback)/ExtensionFieldNumber/Marshal-Unmarshal crossings and every accessor with descriptors of every other runtime class and non-descriptor values. Results must equal the model and the owning runtime's own API; cleared extensions absent from the bytes; mismatches give false/error with the message unchanged. Undecoded clause: the bytes of every extension (two values) are placed in the unknown-field storage of a fresh message; every sequence of <= 3 calls over {HasExtension, GetExtension, ClearExtension} is applied through csproto and, on a twin, through the owning runtime's API: same answer at every call, same message afterwards.",
   note="ClearExtension's documented panic for a wrong descriptor type is tolerated (message must stay unchanged). gv1 vs gv2 are the same runtime class for csproto. Every transition runs on the real code."),
 "C18": dict(level="exploration", design="DESIGN.md §7 C18",
   technique="exhaustive product enumeration (runtimes x value trees x all marshal-option combinations x indent strings; JSON documents x unmarshal-option combinations) with structural option probes and differential decoding through the owning runtime's own JSON codec",
   text="~9.4k values of 105 types (corpus p2/p3 on gogo/legacy/gv2/gv1, the six example packages, well-known types, gogoproto extension types) x 20 option combinations: json.Valid, decode through the adapter and through the owning runtime's decoder (tree-equal to the source), indent/enum/zero-value probes on the parsed JSON, delegation to json.Marshaler/Unmarshaler, nil / typed-nil / unsupported values; unmarshal side: unknown keys and removed required fields at top level and nested x AllowUnknownFields x AllowPartialMessages. After-error clause: per runtime and option combination canary outputs are taken, a marshal fails mid-document (unresolvable Any behind another field), the canaries are produced again on new and on previously used adapters and must be byte-identical; documents rejected half-way followed by the valid document into the same / a new adapter.",
   note="Behaviours that the owning runtime shows identically when called directly (third-party limitations) are counted and excluded, listed in evidence. AllowPartial is documented v2-only."),

 "C16": dict(level="exploration", design="DESIGN.md §7 C16",
   technique="exhaustive product enumeration schemas x runtimes x all 16 generator option combinations through the plug-in built from the current sources, with compilation of every compilable option set",
   text="Every corpus file (feature matrix incl. map<bool>, extension kinds, name-collision files, proto3 optional) for every runtime flavour + the repository's google-v2 example schemas x apiversion x filepermessage x enableunsafedecode x specialname: each request run twice: no error, byte-identical responses, documented and pairwise distinct (case-insensitive) file names, one file per message, every file parses; per-message function bodies identical to single-file ones; requests naming two files to generate (6 file pairs per runtime, both orders, both file modes) return exactly the files of the single-file requests; unsafe option only adds SetMode lines; 5 option sets compiled with the runtime's message types. The corpus includes an import-public chain whose re-exported file has a Go package name different from its directory.",
   note="No protoc in the sandbox: plug-ins are driven with hand-built CodeGeneratorRequests; third-party message types come from the pinned generators (committed under mc/gen). Invalid option values are outside the quantifier."),

 "C11": dict(level="model_checking", design="DESIGN.md §7 C11",
   technique="exhaustive product enumeration (flavours x values x API functions) differential against the owning runtimes + controlled-scheduler exploration of ALL interleavings of the first classification of a never-seen type (sync.Map behind the shim)",
   text="Mode X: fast-marshal corpus types of gogo/legacy v1/gv2/gv1 and plain messages (google v2 well-known types and descriptors, gogo descriptor and self-marshaling types, hand-written Google V1 messages with and without XXX_ methods) x Marshal/Unmarshal (4 directions)/Size/Clone/Equal (all ordered pairs incl. cross-runtime; same pointer and equal copy for every subject, NaN-bearing values always included)/Reset/MarshalText/MsgType/GrpcCodec against the owning runtime called directly; 9 unsupported values and typed-nil pointers: documented error / zero result, no panic. Mode S: 2-4 goroutines calling MsgType/Clone/Equal/HasExtension on a type evicted from the classification cache before every execution; every interleaving of the sync.Map operations (unbounded preemptions); every goroutine must see the right class and the final cache entry must be right. Subjects include dynamicpb twins of generated Google V2 messages (same descriptor, other Go type): Equal(generated, twin) is what proto.Equal says.",
   note="Decoded/cloned messages are compared bit-exactly through reflection (the runtimes' Equal treats NaN as unequal); csproto.Equal itself is compared with the runtime's Equal. Sequential consistency assumed; sync.Map internals are trusted."),

 "C09": dict(level="model_checking", design="DESIGN.md §7 C09",
   technique="exhaustive operation-sequence exploration (all histories to depth 4 over a 19/28-operation alphabet, replayed on fresh real messages, reference-model comparison per observer, mechanism attribution by cache neutralisation) + controlled-scheduler exploration of concurrent Size/Marshal with the generated code's atomics as scheduling points; -race pass as sampling complement",
   text="Histories: every sequence of length 4 over {set/clear scalar, grow/shrink string across the 127/128 boundary, set/clear nested message, mutate nested message only, append/truncate list, mutate list element only, Size, Marshal, MarshalTo, csproto.Size/Marshal, runtime Size/Marshal, Unmarshal x3 (one input with unknown fields), Reset, Clone-and-continue} on the recursive corpus message of p2 and p3 for every runtime; every observer must return the reference marshal of a fresh tree built from the model contents. Schedules: 2-3 goroutines calling Size/Marshal/csproto.Marshal/runtime Size/Marshal on a shared nested message (caches cold / warm / written by the runtime), preemption bound 3 (5) resp. 2 (3), scheduling points at every atomic load/store of the generated code. Observer-only histories: every sequence of <= 3 calls over {Size, Marshal, MarshalTo, csproto.Size, csproto.Marshal, runtime Size, runtime Marshal} without any mutation on every extension-bearing corpus message and on the special trees of p2/p3/p3opt/p2def messages; every answer equals the answer of a fresh copy.",
   note="Failing histories are attributed to the known size-cache mechanism only if re-running them with all size-cache words zeroed right before the failing call passes AND a cache-writing call precedes the last mutation; anything else is a new violation. Runtime calls are atomic steps of the scheduler; the -race pass is sampling."),
}

NOT_YET = {}

ALL = ["C%02d" % i for i in range(1, 21)]

def main():
    checks = []
    for pid in ALL:
        if pid not in CHECKS:
            continue
        c = CHECKS[pid]
        checks.append({
            "property_id": pid,
            "quick_cmd": "./vcheck run %s --tier quick" % pid,
            "thorough_cmd": "./vcheck run %s --tier thorough" % pid,
            "evidence_file": "/verif/evidence/%s.json" % pid,
            "replay_cmd_template": "./vcheck replay {path}",
            "engine": c.get("engine", "vcheck"),
            "level_claimed": {"category": c["level"], "text": c["text"], "design_ref": c["design"]},
            "level_note": c["note"],
            "technique": c["technique"],
        })
    na = [{"property_id": p, "reason": NOT_YET.get(p, "check not built yet in this tree (work in progress; see DESIGN.md §7 for the planned bounded-exhaustive design)")} for p in ALL if p not in CHECKS]
    m = {
        "version": 1,
        "setup_cmd": "./setup.sh",
        "hooks": {
            "guard": "verif",
            "enable": "no source hooks: instrumentation is applied per run with `go build -overlay` generated from /repo's current files (sync -> scheduler shim, private-state dump files)",
            "baseline_off_cmd": "cd /repo && GOFLAGS=-mod=mod GOPROXY=off GOSUMDB=off go test -json -vet=off -count=1 -timeout 25m ./...",
            "source_commits": [],
            "add_only": True,
        },
        "engines": [
            {"name": "vcheck", "path": "/verif/vcheck", "serves_properties": sorted(CHECKS), "kind_free_text": "hand-written bounded-exhaustive explorer in Go (/verif/mc): enumeration mode X, explicit-state BFS mode Q, controlled scheduler + DFS mode S, environment-answer DFS mode E; all executions run on the real csproto code built from /repo's working tree"},
        ],
        "checks": checks,
        "notes": "See DESIGN.md. known_findings.txt lists genuine defects (fixed: / known:).",
        "not_applicable": na,
    }
    json.dump(m, open("/verif/MANIFEST.json", "w"), indent=1)
    if jsonschema:
        jsonschema.validate(m, json.load(open("/root/.vp/MANIFEST.schema.json")))
        print("MANIFEST.json valid;", len(checks), "checks,", len(na), "not_applicable")

if __name__ == "__main__":
    main()
