#!/usr/bin/env python3
"""Regenerates MANIFEST.json from the table below (single source of truth for the interface)."""
import json, sys
try:
    import jsonschema
except Exception:
    jsonschema = None

CHECKS = {
 "C01": dict(level="exploration", design="DESIGN.md §7 C01",
   technique="exhaustive small-scope enumeration (model checking mode X: all values of bounded domains x field numbers x modes on the real codec)",
   text="Every enumerated (kind, field number, value, decoder mode) case is executed on the real Encoder/Decoder: exact-size canary-framed buffer, double pre-fill slack detection, sentinel-field cursor check, bit-exact decode and full consumption. quick: boundary/bit-length classes + 2^16 sweeps x boundary field numbers; thorough: all 2^32 values of every 32-bit kind (scalar and packed element), all 2^29-1 field numbers x 4 wire types.",
   note="Assumes key and payload encoding are independent (separate calls); 64-bit domains covered by classes, not all 2^64 values. Trusted: Go runtime bounds checks, the check's own reference arithmetic."),
}

NOT_YET = {}

ALL = ["C%02d" % i for i in range(1, 21)]

def main():
    checks = []
    for pid in ALL:
        if pid not in CHECKS:
            continue
        c = CHECKS[pid]
        checks.append({
            "property_id": pid,
            "quick_cmd": "./vcheck run %s --tier quick" % pid,
            "thorough_cmd": "./vcheck run %s --tier thorough" % pid,
            "evidence_file": "/verif/evidence/%s.json" % pid,
            "replay_cmd_template": "./vcheck replay {path}",
            "engine": c.get("engine", "vcheck"),
            "level_claimed": {"category": c["level"], "text": c["text"], "design_ref": c["design"]},
            "level_note": c["note"],
            "technique": c["technique"],
        })
    na = [{"property_id": p, "reason": NOT_YET.get(p, "check not built yet in this tree (work in progress; see DESIGN.md §7 for the planned bounded-exhaustive design)")} for p in ALL if p not in CHECKS]
    m = {
        "version": 1,
        "setup_cmd": "./setup.sh",
        "hooks": {
            "guard": "verif",
            "enable": "no source hooks: instrumentation is applied per run with `go build -overlay` generated from /repo's current files (sync -> scheduler shim, private-state dump files)",
            "baseline_off_cmd": "cd /repo && GOFLAGS=-mod=mod GOPROXY=off GOSUMDB=off go test -json -vet=off -count=1 -timeout 25m ./...",
            "source_commits": [],
            "add_only": True,
        },
        "engines": [
            {"name": "vcheck", "path": "/verif/vcheck", "serves_properties": sorted(CHECKS), "kind_free_text": "hand-written bounded-exhaustive explorer in Go (/verif/mc): enumeration mode X, explicit-state BFS mode Q, controlled scheduler + DFS mode S, environment-answer DFS mode E; all executions run on the real csproto code built from /repo's working tree"},
        ],
        "checks": checks,
        "notes": "See DESIGN.md. known_findings.txt lists genuine defects (fixed: / known:).",
        "not_applicable": na,
    }
    json.dump(m, open("/verif/MANIFEST.json", "w"), indent=1)
    if jsonschema:
        jsonschema.validate(m, json.load(open("/root/.vp/MANIFEST.schema.json")))
        print("MANIFEST.json valid;", len(checks), "checks,", len(na), "not_applicable")

if __name__ == "__main__":
    main()
