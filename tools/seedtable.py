#!/usr/bin/env python3
"""seedtable.py X Y -- markdown table rows for the seeded changes of variants X and Y (from seeded/*/meta.json and README.txt)."""
import json, sys, glob, os
vs = sys.argv[1:]
for d in sorted(glob.glob('/verif/seeded/C??-?')):
    if d[-1] not in vs:
        continue
    m = json.load(open(d + '/meta.json'))
    first = ''
    if os.path.exists(d + '/README.txt'):
        for l in open(d + '/README.txt'):
            if l.strip():
                first = l.strip()[:110].replace('|', '/')
                break
    c = m['confirmed']
    caught = set(m['caught_by'].split())
    runs = ', '.join('%s:%s' % (k, 'caught' if k in caught else 'silent') for k in m['checks_run_quick'])
    print('| %s | %s | %s | %s → %s | %s |' % (os.path.basename(d), first, c['suite_with_change'], c['demo_exit_without_change'], c['demo_exit_with_change'], runs))
