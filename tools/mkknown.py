#!/usr/bin/env python3
"""Turns `violation-class sig=...` lines of a check run (stdin) into `known:` lines for mechanisms that were
triaged as genuine-but-not-small defects. Signatures that match no triaged mechanism are printed to stderr
and NOT emitted: they must be looked at. Usage: ./vcheck run C06 | tools/mkknown.py C06 >> known_findings.txt"""
import re, sys
prop = sys.argv[1]
MAP = "generated map-entry decoding assumes exactly one key followed by exactly one value in each entry: entries with the value first, a missing key or value, an empty entry, a repeated key/value inside one entry or an unknown field inside an entry are rejected or decoded differently from the reference (UnmarshalMapEntry would have to become a loop over the entry's fields: not a small repair)"
MERGE = "a singular message field that occurs more than once on the wire replaces the earlier occurrence instead of being merged with it as the reference runtime does (generated Unmarshal always allocates a new sub-message and its Unmarshal starts with Reset: needs a design decision)"
REPEXT = "REPEATED proto2 extensions are not supported by the generated extension snippets (scalar type assertion / SetExtension of a single element): Size/Marshal panic, Unmarshal errors or panics"
FILEEXT = "extensions declared at FILE scope are invisible to the generator's getExtensions: not sized/written by generated Marshal and left in the unknown fields by generated Unmarshal"
STALE = "generated Size() returns any positive cached size without ever invalidating it, so after a Size/Marshal call a mutation of the message (or of a nested message only) makes every later Size/Marshal/MarshalTo - also through csproto and through the owning runtime, which call the generated methods - use the stale size: truncated or zero-padded output, or an index-out-of-range panic (e.g. history a=1, Size(), a=300, Marshal()). Repair = recompute in Size() or a different caching design: performance trade-off for the maintainers"
out = []
for line in sys.stdin:
    m = re.match(r"violation-class sig=(\S+) cases=", line)
    if not m:
        continue
    sig = m.group(1)
    why = None
    if "/p2extrep." in sig: why = REPEXT
    elif "/p2extfile." in sig: why = FILEEXT
    elif re.search(r"/(nested>)*(dup-key-within-entry)$", sig): why = MERGE + " (here: a message-typed map value occurring twice inside one map entry)"
    elif re.search(r"/(nested>)*(dup-key|empty-entry|key-only|value-only|value-key|unknown-in-entry)$", sig): why = MAP
    elif re.search(r"/(nested>)*(twice|split-in-two|full-then-empty|empty-then-full)$", sig): why = MERGE
    elif sig.endswith("/map-entry-shape"): why = MERGE + " (here: a message-typed map value occurring twice inside one map entry)"
    elif sig.endswith("/message-merge"): why = MERGE
    elif sig.endswith("/unsupported-extension-shape"): why = REPEXT + " / " + FILEEXT
    elif sig.endswith("/stale-size-cache-after-mutation"): why = STALE
    if why is None:
        print("UNTRIAGED:", sig, file=sys.stderr)
        continue
    out.append("known: property=%s sig=%s %s" % (prop, sig, why))
print("\n".join(sorted(set(out))))
