#!/usr/bin/env python3
"""staleknown.py <log files...>  -- lists the `known:` lines of known_findings.txt whose signature is not reported as
KNOWN-FINDING in any of the given check outputs (quick and thorough logs of every check). Review before deleting."""
import re, sys
hit = set()
for f in sys.argv[1:]:
    for l in open(f, errors='replace'):
        m = re.match(r'KNOWN-FINDING: property=(\S+) sig=(\S+)', l)
        if m:
            hit.add((m.group(1), m.group(2)))
n = 0
for l in open('/verif/known_findings.txt'):
    m = re.match(r'known: property=(\S+) sig=(\S+)', l)
    if m:
        n += 1
        if (m.group(1), m.group(2)) not in hit:
            print('STALE?', m.group(1), m.group(2))
print('known lines:', n, 'signatures hit in logs:', len(hit), file=sys.stderr)
